"""C20 — the MLIR backend matches NumPy/SciPy and keeps its buffers alive.

The backend is selected at import time (SPARSE_BACKEND=MLIR), so everything that touches it runs in
worker subprocesses (harness/c20_worker.py, JSON over stdin/stdout); this process keeps the numba
backend, NumPy (the reference) and the Lean driver (the model).

leg A  model vs backend, representation level: factories' level lists / ctypes field names /
       is_this_format; `_determine_format` on format groups; `_from_numpy`, `to_numpy`, `_from_scipy`,
       `to_scipy` bookkeeping; the constituent arrays the backend returns for asarray / add / reshape /
       asformat decoded by the Lean `toDense`; the `_hold_ref` / `free_memref` / finalisation log of
       ownership programs against the ownership model's trace.
       Which `_hold_ref` edges the model has is read off the source on every run (tools/tables.d/C20.py -> Generated/MlirHold.lean).
leg C  the property: round trips return the original values; add / reshape / asformat equal NumPy for
       every pair of storage formats and dtypes outside the backend tests' xfail set; results are
       re-read after every order of `del` + `gc.collect()` (with freed blocks scribbled over); the lifetime sweep
       (`lifetime_programs`): arrays built from NumPy / SciPy input, from_constituent_arrays, copy(), asarray(copy=…) in every
       format, every reference to the sources and the backend arrays deleted in every order, "released while a view is alive"
       decided by weak references to the owner of the allocation each surviving array points into; inputs'
       bytes unchanged; result pointers disjoint from inputs; a worker killed by the backend is a
       failing input (exit status reported).
PARTIAL: the arithmetic is MLIR-compiled code no model executes; use-after-free is undefined behaviour
that a passing run does not exclude.
"""
from __future__ import annotations

import itertools
import json
import os
import subprocess
import sys
import time
from pathlib import Path

import numpy as np

import core
import findings
import gen

PID = "C20"
WORKER = Path(__file__).resolve().parent / "c20_worker.py"
PY = sys.executable
DTYPES = ["int8", "uint8", "int16", "uint16", "int32", "uint32", "int64", "uint64", "float32", "float64", "complex64", "complex128"]
TRUSTED = [
    "Lean 4 kernel; axioms propext, Classical.choice, Quot.sound only (audited per theorem each run)",
    "tie T2: hand models SparseV.Model.Levels (level walk / toDense, to_numpy, scipy field mapping, _determine_format, factories, "
    "ctypes field names) and SparseV.Model.Ownership (_hold_ref edges, owns_memory storages, finalisation) compared with the running "
    "backend by this run (formats, constituent arrays, hold/free/finalisation logs)",
    "tie T1 (keep-alive edges): tools/tables.d/C20.py reads with Python's `ast` which `_hold_ref` / `free_memref` loop of the nested "
    "Storage class runs under which `owns_memory` condition and pins the texts of `_hold_ref`, the conversion functions and `Array.copy`; "
    "its reading of those statements (and of the base walk before `_hold_ref`) as the five flags of SparseV.Own.Cfg is trusted (and compared with the `_hold_ref` log each run)",
    "weak references decide 'released while a view is alive': CPython clears a weak reference exactly when the object is deallocated, "
    "a NumPy array that owns its data frees it in its deallocator, an owning Storage frees its fields in `__del__`",
    "the MLIR sparse_tensor dialect's storage semantics (pos/crd/values per level) is what `toDense` formalises; it is validated "
    "against the backend's output, not derived from MLIR's source",
    "MLIR-compiled kernels (add, reshape, convert) are executed, not modelled: NumPy is the reference for their values",
    "CPython reference counting + gc.collect() finalise unreachable objects; weakref.finalize callbacks observe it",
]


# ---------------------------------------------------------------------------------------------------
# worker management
# ---------------------------------------------------------------------------------------------------

def run_tasks(ctx, tasks, per_batch_deadline=900, prefix=(), extra_env=None):
    """run tasks in worker processes; returns {id: res}.  A task during which the worker dies gets
    res = {"crash": exit status, "stderr": tail}; the worker is restarted on the remaining tasks."""
    results = {}
    todo = list(tasks)
    env = dict(os.environ, SPARSE_BACKEND="MLIR", PYTHONWARNINGS="ignore")
    env.pop("DEBUG", None)
    env.update(extra_env or {})
    launches = 0
    while todo:
        launches += 1
        p = subprocess.Popen([*prefix, PY, str(WORKER)], stdin=subprocess.PIPE, stdout=subprocess.PIPE, stderr=subprocess.PIPE, env=env,
                             cwd=str(core.ROOT / "harness"))
        try:
            out, err = p.communicate(json.dumps(todo).encode(), timeout=per_batch_deadline)
        except subprocess.TimeoutExpired:
            p.kill()
            out, err = p.communicate()
            started = None
            for line in out.decode(errors="replace").splitlines():
                try:
                    j = json.loads(line)
                except Exception:  # noqa: BLE001
                    continue
                if "start" in j:
                    started = j["start"]
            raise RuntimeError(f"C20 worker exceeded {per_batch_deadline}s (running task {started})") from None
        started, done = None, False
        for line in out.decode(errors="replace").splitlines():
            try:
                j = json.loads(line)
            except Exception:  # noqa: BLE001
                continue
            if "start" in j:
                started = j["start"]
            elif "id" in j:
                results[j["id"]] = j["res"]
                started = None
            elif j.get("done"):
                done = True
        if done:
            break
        if started is None:
            raise RuntimeError(f"C20 worker died before starting a task: rc={p.returncode} {err.decode(errors='replace')[-400:]}")
        results[started] = {"crash": p.returncode, "stderr": err.decode(errors="replace")[-300:]}
        ids = [t["id"] for t in todo]
        todo = todo[ids.index(started) + 1:]
        if launches > 40:
            raise RuntimeError("C20 worker crashed more than 40 times")
    ctx.count("worker_launches", launches)
    return results


# ---------------------------------------------------------------------------------------------------
# Python reference of the level semantics (the same walk as SparseV.Levels.walk) and encoders
# ---------------------------------------------------------------------------------------------------

def arity(kinds):
    return sum({"dense": 0, "compressed": 2, "singleton": 1}[k] for k in kinds)


def py_walk(kinds, sizes, arrs, p):
    if not kinds:
        return [((), p)]
    k, rest = kinds[0], kinds[1:]
    if k == "dense":
        n = sizes[0]
        return [((i,) + c, q) for i in range(n) for c, q in py_walk(rest, sizes[1:], arrs, p * n + i)]
    if k == "compressed":
        pos, crd = arrs[0], arrs[1]
        return [((crd[q],) + c, r) for q in range(pos[p], pos[p + 1]) for c, r in py_walk(rest, sizes[1:], arrs[2:], q)]
    crd = arrs[0]
    return [((crd[p],) + c, r) for c, r in py_walk(rest, sizes[1:], arrs[1:], p)]


def py_todense_positions(fmt, shape, arrs):
    """dense array of 1-based value positions (0 = not stored); also whether an index is stored twice"""
    kinds = [lv[0] for lv in fmt["levels"]]
    order = fmt["order"]
    sizes = [shape[o] for o in order]
    out = np.zeros(shape, dtype=np.int64)
    dup = False
    for c, q in py_walk(kinds, sizes, arrs, 0):
        idx = [0] * len(shape)
        for lvl, o in enumerate(order):
            idx[o] = c[lvl]
        idx = tuple(idx)
        if any(i < 0 or i >= s for i, s in zip(idx, shape)):
            raise IndexError(f"stored index {idx} outside shape {shape}")
        if out[idx] != 0:
            dup = True
        else:
            out[idx] = q + 1
    return out, dup


def dec_vals(vals, dtype):
    dt = np.dtype(dtype)
    if dt.kind == "c":
        return np.array([complex(v[0], v[1]) for v in vals], dtype=dt)
    return np.array(vals, dtype=dt) if len(vals) else np.zeros(0, dtype=dt)


def positions_to_values(posarr, vals, dtype):
    v = dec_vals(vals, dtype)
    ext = np.concatenate([np.zeros(1, dtype=v.dtype), v])
    return ext[posarr]


def decode(d):
    """dense ndarray a worker `desc` stands for"""
    posarr, dup = py_todense_positions(d["fmt"], d["shape"], d["arrays"])
    return positions_to_values(posarr, d["vals"], d["vals_dtype"]), posarr, dup


def encode_levels(kinds, order, a):
    """constituent arrays (index arrays, kinds of index arrays, values) storing exactly the non-zeros of `a`
    for a format made of dense / compressed levels (CSF family) or COO (compressed + singletons)"""
    lm = np.transpose(a, order) if a.ndim else a            # level-major view
    nz = np.argwhere(lm != 0)                                # lexicographic in level order
    vals_nz = lm[tuple(nz.T)] if a.ndim else lm.reshape(-1)
    if kinds and kinds[0] == "compressed" and all(k == "singleton" for k in kinds[1:]):
        arrs = [[0, len(nz)]] + [[int(v) for v in nz[:, l]] for l in range(len(kinds))]
        return arrs, ["pos"] + ["crd"] * len(kinds), vals_nz
    cur = np.zeros(len(nz), dtype=np.int64)
    n_prev = 1
    arrs, akinds = [], []
    for l, k in enumerate(kinds):
        size = lm.shape[l]
        if k == "dense":
            cur = cur * size + nz[:, l]
            n_prev = n_prev * size
        else:
            pairs = sorted(set(zip(cur.tolist(), nz[:, l].tolist())))
            index = {pr: i for i, pr in enumerate(pairs)}
            counts = [0] * (n_prev + 1)
            for p, _ in pairs:
                counts[p + 1] += 1
            pos = list(np.cumsum(counts).astype(int))
            arrs += [[int(v) for v in pos], [int(c) for _, c in pairs]]
            akinds += ["pos", "crd"]
            cur = np.array([index[(int(p), int(c))] for p, c in zip(cur, nz[:, l])], dtype=np.int64)
            n_prev = len(pairs)
    vals = np.zeros(n_prev, dtype=a.dtype)
    vals[cur] = vals_nz
    return arrs, akinds, vals


def enc_vals(a):
    a = np.asarray(a).reshape(-1)
    if a.dtype.kind == "c":
        return [[float(v.real), float(v.imag)] for v in a]
    if a.dtype.kind == "f":
        return [float(v) for v in a]
    return [int(v) for v in a]


FACTORY_KINDS = {
    "dense": lambda n: ["dense"] * n,
    "csf": lambda n: (["dense"] + ["compressed"] * (n - 1)) if n else [],
    "coo": lambda n: (["compressed"] + ["singleton"] * (n - 1)) if n else [],
}


def rand_dense(rng, shape, dtype, density=None):
    dt = np.dtype(dtype)
    if density is None:
        density = float(rng.choice([0.0, 0.3, 0.6, 1.0], p=[0.1, 0.4, 0.35, 0.15]))
    lo, hi = (0, 8) if dt.kind == "u" else (-4, 4)
    v = rng.integers(lo, hi + 1, size=shape)
    v = np.where(v == 0, 1, v)
    mask = rng.random(size=shape) < density
    a = np.where(mask, v, 0)
    if dt.kind == "c":
        im = np.where(mask, rng.integers(-3, 4, size=shape), 0)
        return (a + 1j * im).astype(dt)
    if dt.kind == "f":
        return (a / 2).astype(dt)
    return a.astype(dt)


def np_spec(a):
    return {"via": "numpy", "shape": list(a.shape), "dtype": str(a.dtype), "vals": enc_vals(a)}


def operand_spec(rng, fam, a, widths=(64, 64)):
    """how the worker builds a backend array holding `a` in the storage family `fam`"""
    nd = a.ndim
    if fam == "dense":
        return np_spec(a)
    if fam in ("csr", "csc", "coo2"):
        return {"via": "scipy", "kind": {"coo2": "coo"}.get(fam, fam), "shape": list(a.shape), "dtype": str(a.dtype),
                "idx_dtype": f"int{widths[1] if widths[1] in (32, 64) else 32}", "vals": enc_vals(a)}
    fac = {"csf": "csf", "coo": "coo", "csc-arrays": "csf"}[fam]
    kinds = FACTORY_KINDS[fac](nd)
    order = [1, 0] if fam == "csc-arrays" else list(range(nd))
    arrs, akinds, vals = encode_levels(kinds, order, a)
    fmt = {"factory": fac, "ndim": nd, "pos": widths[0], "crd": widths[1], "dtype": str(a.dtype)}
    if fam == "csc-arrays":
        fmt["order"] = order
    return {"via": "arrays", "shape": list(a.shape), "array_kinds": akinds, "arrays": arrs, "vals": enc_vals(vals), "format": fmt}


def families(nd):
    if nd == 1:
        return ["dense", "coo"]
    if nd == 2:
        return ["dense", "csr", "csc", "coo2"]
    return ["dense", "csf", "coo"]


# the backend tests' expected failures (sparse/mlir_backend/tests/test_simple.py), reused verbatim:
#   test_add / test_add_dense_sparse:   format1 == "coo" or format2 == "coo"      (scipy, i.e. 2-d COO)
#   test_asformat:                      "coo" in {src_fmt, dst_fmt}                (2-d COO)
#   test_reshape:                       format == "csc"
#   test_sparse_vector_format:          dtype in {complex64, complex128} for the 1-d COO format
def xfail(op, fams, dtype, nd):
    if op == "add" and "coo2" in fams:
        return "llvm-project#116012 (COO operand of add)"
    if op == "asformat" and "coo2" in fams:
        return "llvm-project#116012 (COO in asformat)"
    if op == "reshape" and ("csc" in fams or "csc-arrays" in fams):
        return "llvm-project#109641 (reshape of CSC)"
    if np.dtype(dtype).kind == "c" and nd == 1 and "coo" in fams:
        return "sparse_vector format returns incorrect results for complex dtypes"
    return None


# ---------------------------------------------------------------------------------------------------
# task generation
# ---------------------------------------------------------------------------------------------------

def small_shape(rng, nd, max_size=60):
    for _ in range(100):
        s = tuple(int(rng.integers(1, 6)) for _ in range(nd))
        if int(np.prod(s)) <= max_size:
            return s
    return (2,) * nd


def gen_roundtrips(ctx, rng):
    tasks, meta = [], {}
    quick = ctx.quick
    k = 0
    # NumPy: every dtype x rank 1..4 (+ non-contiguous inputs)
    for dt in DTYPES:
        for nd in (1, 2, 3, 4):
            for rep in range(1 if quick else 3):
                a = rand_dense(rng, small_shape(rng, nd), dt)
                tid = f"rt-np-{k}"; k += 1
                tasks.append({"id": tid, "kind": "roundtrip", "operand": np_spec(a)})
                meta[tid] = {"family": "numpy", "a": a}
    # SciPy: kind x dtype x index width
    for kind in ("csr", "csc", "coo"):
        for dt in DTYPES:
            for idx in ("int32", "int64"):
                for rep in range(1 if quick else 3):
                    a = rand_dense(rng, small_shape(rng, 2), dt)
                    tid = f"rt-sp-{k}"; k += 1
                    tasks.append({"id": tid, "kind": "roundtrip", "operand": {"via": "scipy", "kind": kind, "shape": list(a.shape),
                                  "dtype": dt, "idx_dtype": idx, "vals": enc_vals(a)}})
                    meta[tid] = {"family": f"scipy-{kind}", "a": a, "idx": idx}
    # constituent arrays: CSF / COO of rank 1..4 x pointer/index widths x dtype
    widths = [(8, 8), (16, 16), (32, 32), (64, 64), (64, 32), (32, 64), (16, 8)]
    combos = [(fam, nd, w) for fam in ("csf", "coo") for nd in (1, 2, 3, 4) for w in widths]
    for i, (fam, nd, w) in enumerate(combos):
        dts = [DTYPES[(i + ctx.seed) % len(DTYPES)]] if quick else DTYPES[::2] if i % 2 else DTYPES[1::2]
        for dt in dts:
            a = rand_dense(rng, small_shape(rng, nd, 40), dt)
            spec = operand_spec(rng, fam, a, w)
            spec["copy"] = True
            tid = f"rt-ca-{k}"; k += 1
            tasks.append({"id": tid, "kind": "roundtrip", "operand": spec})
            meta[tid] = {"family": f"arrays-{fam}{nd}", "a": a, "w": w}
    return tasks, meta


def gen_orders(ctx, rng):
    """dense formats with every level order: asformat(Dense order) then to_numpy"""
    tasks, meta = [], {}
    k = 0
    ranks = {2: 1, 3: 1} if ctx.quick else {1: 1, 2: 2, 3: 3, 4: 1}
    for nd, reps in ranks.items():
        perms = list(itertools.permutations(range(nd)))
        if nd == 4 :
            perms = [perms[int(i)] for i in rng.choice(len(perms), size=8, replace=False)]
        for rep in range(reps):
            dt = str(rng.choice(["float64", "int32", "complex64", "int8"]))
            shape = tuple(int(v) for v in rng.permutation([2, 3, 4, 5][:nd])) if rep == 0 else small_shape(rng, nd)
            a = rand_dense(rng, shape, dt, density=1.0)
            for pm in perms:
                if list(pm) == list(range(nd)):
                    continue
                tid = f"ord-{k}"; k += 1
                tasks.append({"id": tid, "kind": "to_numpy_order", "operand": np_spec(a),
                              "format": {"factory": "dense", "ndim": nd, "order": list(pm), "dtype": dt}})
                meta[tid] = {"a": a, "order": list(pm)}
    return tasks, meta


def gen_ops(ctx, rng):
    tasks, meta = [], {}
    quick = ctx.quick
    k = 0
    seed = ctx.seed

    def add_task(nd, fa, fb, dt):
        nonlocal k
        shape = small_shape(rng, nd, 36)
        a, b = rand_dense(rng, shape, dt), rand_dense(rng, shape, dt)
        tid = f"op-add-{k}"; k += 1
        tasks.append({"id": tid, "kind": "op", "op": "add", "operands": [operand_spec(rng, fa, a), operand_spec(rng, fb, b)]})
        meta[tid] = {"op": "add", "fams": [fa, fb], "dtype": dt, "expected": a + b, "nd": nd}

    # add: every pair of storage families of each rank
    for nd in (1, 2, 3, 4):
        fams = families(nd)
        pairs = [(x, y) for x in fams for y in fams]
        for i, (fa, fb) in enumerate(pairs):
            if quick:
                if nd == 4 and (i + seed) % 3:
                    continue
                dts = [DTYPES[(i + nd + seed) % len(DTYPES)]]
            else:
                dts = DTYPES if nd <= 3 else DTYPES[(i % 3)::3]
            for dt in dts:
                if xfail("add", [fa, fb], dt, nd):
                    continue
                add_task(nd, fa, fb, dt)
    if quick:  # every dtype at least once on a sparse pair
        for j, dt in enumerate(DTYPES):
            fa, fb = [("csr", "csr"), ("csr", "csc"), ("dense", "csr"), ("csc", "dense")][(j + seed) % 4]
            add_task(2, fa, fb, dt)

    # reshape: source family x target shape (rank changes both ways)
    targets = {
        1: [((12,), (3, 4)), ((8,), (2, 2, 2)), ((6,), (6,))],
        2: [((4, 3), (2, 6)), ((4, 3), (12,)), ((2, 6), (2, 3, 2)), ((4, 1), (4,)), ((3, 4), (2, 3, 2, 1))],
        3: [((2, 2, 4), (4, 4, 1)), ((2, 2, 4), (2, 1, 8)), ((2, 3, 2), (6, 2)), ((2, 3, 2), (12,)), ((2, 2, 3), (2, 2, 3, 1))],
        4: [((2, 2, 2, 3), (4, 6)), ((2, 1, 2, 3), (2, 2, 3))],
    }
    for nd, tl in targets.items():
        for fam in families(nd):
            for i, (src, dst) in enumerate(tl):
                if quick:
                    if (i + seed + len(fam)) % 3:
                        continue
                    dts = [DTYPES[(i + nd + seed + len(fam)) % len(DTYPES)]]
                else:
                    dts = DTYPES[(i % 2)::2]
                for dt in dts:
                    if xfail("reshape", [fam], dt, nd):
                        continue
                    a = rand_dense(rng, src, dt)
                    tid = f"op-reshape-{k}"; k += 1
                    tasks.append({"id": tid, "kind": "op", "op": "reshape", "operands": [operand_spec(rng, fam, a)], "shape": list(dst)})
                    meta[tid] = {"op": "reshape", "fams": [fam], "dtype": dt, "expected": a.reshape(dst), "nd": nd, "to": list(dst)}

    # asformat: every ordered pair of families of each rank
    def target_format(fam, nd, dt):
        if fam == "dense":
            return {"format": {"factory": "dense", "ndim": nd, "dtype": dt}}
        if fam in ("csr", "csc", "coo2"):
            z = np.zeros((2,) * nd, dtype=dt)
            z[(0,) * nd] = 1
            return {"like": operand_spec(rng, fam, z)}
        return {"format": {"factory": fam, "ndim": nd, "dtype": dt}}

    for nd in (1, 2, 3, 4):
        fams = families(nd)
        pairs = [(x, y) for x in fams for y in fams]
        for i, (fa, fb) in enumerate(pairs):
            if quick:
                if (nd == 4 or fa == fb) and (i + seed) % 2:
                    continue
                dts = [DTYPES[(i + 2 * nd + seed) % len(DTYPES)]]
            else:
                dts = DTYPES[(i % 2)::2] if nd <= 3 else DTYPES[(i % 4)::4]
            for dt in dts:
                if xfail("asformat", [fa, fb], dt, nd):
                    continue
                a = rand_dense(rng, small_shape(rng, nd, 36), dt)
                tid = f"op-asformat-{k}"; k += 1
                t = {"id": tid, "kind": "op", "op": "asformat", "operands": [operand_spec(rng, fa, a)]}
                t.update(target_format(fb, nd, dt))
                tasks.append(t)
                meta[tid] = {"op": "asformat", "fams": [fa, fb], "dtype": dt, "expected": a, "nd": nd}
    # index widths under load: coordinate width 8 (extents <= 127) with pointer width 16/32/64 and more stored entries
    # than an 8-bit integer can count (> 127, > 255): the result's pointer buffers must keep the operands' pointer width
    def dense_count(shape, dt, n_stored):
        a = np.zeros(int(np.prod(shape)), dtype=dt)
        idx = rng.choice(a.size, size=n_stored, replace=False)
        a[idx] = rng.integers(1, 5, size=n_stored)
        return a.reshape(shape)

    wide = [((40, 50), 300, (32, 8)), ((40, 50), 140, (16, 8)), ((100, 120), 700, (64, 8))]
    if not quick:
        wide += [((40, 50), 300, (16, 8)), ((40, 50), 600, (64, 8)), ((100, 120), 2000, (32, 8)), ((40, 60), 1000, (16, 8)),
                 ((100, 120), 300, (64, 16))]
    for i, (shape, nst, w) in enumerate(wide):
        dt = ["int32", "float64", "int16"][(i + seed) % 3]
        pairs = [("csf", "csf"), ("csf", "csc-arrays"), ("dense", "csf")]
        if quick:
            pairs = [pairs[(i + seed) % 3]]
        for fa, fb in pairs:
            a, b = dense_count(shape, dt, nst), dense_count(shape, dt, nst)
            tid = f"op-add-wide-{k}"; k += 1
            tasks.append({"id": tid, "kind": "op", "op": "add",
                          "operands": [operand_spec(rng, fa, a, w), operand_spec(rng, fb, b, w)]})
            meta[tid] = {"op": "add", "fams": [fa, fb], "dtype": dt, "expected": a + b, "nd": 2, "widths": list(w), "stored": nst}
        # target extents must fit the coordinate type as well (the result keeps the operands' coordinate width)
        dsts = {(40, 50): [(50, 40), (20, 100), (100, 20)], (100, 120): [(120, 100), (96, 125), (125, 96)],
                (40, 60): [(60, 40), (20, 120), (24, 100)]}[shape]
        dst = dsts[(i + seed) % 3]
        a = dense_count(shape, dt, nst)
        tid = f"op-reshape-wide-{k}"; k += 1
        tasks.append({"id": tid, "kind": "op", "op": "reshape", "operands": [operand_spec(rng, "csf", a, w)], "shape": list(dst)})
        meta[tid] = {"op": "reshape", "fams": ["csf"], "dtype": dt, "expected": a.reshape(dst), "nd": 2, "to": list(dst),
                     "widths": list(w), "stored": nst}

    # asformat to an EQUAL but not IDENTICAL format object (constructor, dataclasses.replace, deepcopy, pickle):
    # a no-op by the `format == x.format` rule; whatever is returned must not alias-and-own the operand's buffers
    for nd in (1, 2, 3):
        for fam in families(nd):
            for j, how in enumerate(("ctor", "replace", "deepcopy", "pickle")):
                if quick and (j + nd + len(fam) + seed) % 2:
                    continue
                dt = DTYPES[(j + nd + seed) % len(DTYPES)]
                if xfail("asformat", [fam, fam], dt, nd):
                    continue
                a = rand_dense(rng, small_shape(rng, nd, 36), dt)
                tid = f"op-asformat-equal-{k}"; k += 1
                tasks.append({"id": tid, "kind": "op", "op": "asformat", "operands": [operand_spec(rng, fam, a)], "format_clone": how})
                meta[tid] = {"op": "asformat", "fams": [fam, f"equal-{how}"], "dtype": dt, "expected": a, "nd": nd}
    return tasks, meta


# ---------------------------------------------------------------------------------------------------
# inputs in every memory layout / valid but non-canonical scipy inputs, consumed by every operation
# ---------------------------------------------------------------------------------------------------

LAYOUTS = ["C", "F", "T", "strided", "negative", "negative-last", "broadcast", "offset", "readonly", "F-readonly", "swapped"]
CONSUME_SHAPES = {1: (6,), 2: (4, 3), 3: (2, 3, 2), 4: (2, 2, 3, 2)}


def reshape_targets(shape):
    n = int(np.prod(shape))
    if len(shape) == 1:
        return [(2, n // 2)]
    if len(shape) == 2:
        return [(shape[1], shape[0]), (n,)]
    if len(shape) == 3:
        return [(shape[0] * shape[1], shape[2]), (shape[2], shape[1], shape[0])]
    return [(shape[0] * shape[1], shape[2] * shape[3])]



def target_spec(rng, fam, nd, dt):
    """target of asformat for a storage family of rank nd"""
    if fam == "dense":
        return {"format": {"factory": "dense", "ndim": nd, "dtype": dt}}
    if fam in ("csr", "csc", "coo2"):
        z = np.zeros((2,) * nd, dtype=dt)
        z[(0,) * nd] = 1
        return {"like": operand_spec(rng, fam, z)}
    return {"format": {"factory": fam, "ndim": nd, "dtype": dt}}


def consumer_ops(rng, src_fam, nd, dt, a):
    """every operation that consumes a backend array of storage family `src_fam` holding `a`, with the NumPy result:
    [(op for the worker, expected ndarray, name)] minus the backend tests' xfail conditions"""
    ops = []
    if src_fam == "dense":
        ops.append(({"op": "to_numpy"}, a, "to_numpy"))
    if src_fam in ("csr", "csc", "coo2"):
        ops.append(({"op": "to_scipy"}, a, "to_scipy"))
    if not xfail("add", [src_fam, src_fam], dt, nd):
        ops.append(({"op": "add", "other": "self"}, a + a, "add:self"))
    for j, fam in enumerate(families(nd)):
        if xfail("add", [src_fam, fam], dt, nd):
            continue
        b = rand_dense(rng, a.shape, dt, 0.6)
        ops.append(({"op": "add", "other": operand_spec(rng, fam, b), "swap": bool(j % 2)}, a + b, f"add:{fam}"))
    if not xfail("reshape", [src_fam], dt, nd):
        for to in reshape_targets(a.shape):
            ops.append(({"op": "reshape", "shape": list(to)}, a.reshape(to), f"reshape:{len(to)}d"))
    for fam in families(nd):
        if xfail("asformat", [src_fam, fam], dt, nd) or fam == src_fam == "dense":
            continue
        op = dict({"op": "asformat"}, **target_spec(rng, fam, nd, dt))
        ops.append((op, a, f"asformat:{fam}"))
        if fam in ("csr", "csc"):
            ops.append((dict(op, then="to_scipy"), a, f"asformat:{fam}:to_scipy"))
        if fam == "dense":
            ops.append((dict(op, then="to_numpy"), a, "asformat:dense:to_numpy"))
    return ops


def scipy_variants(kind, quick):
    """entry lists (row, col, value) in storage order for a 4 x 5 matrix: valid scipy inputs, canonical or not"""
    if kind == "csc":   # grouped by column
        base = [(1, 0), (0, 1), (3, 1), (2, 2), (0, 3), (3, 4)]
    else:
        base = [(0, 1), (0, 3), (1, 0), (2, 2), (3, 1), (3, 4)]
    vals = [1, 2, 3, 4, 5, 6]
    n = len(base)
    out = [("canonical", [(r, c, v) for (r, c), v in zip(base, vals)], True)]
    zero_at = [[0], [n // 2], [n - 1], [0, n - 1], [1, 2]] if quick else [[k] for k in range(n)] + [[0, n - 1], [1, 2], [0, 1, 2, 3, 4], list(range(n))]
    for zs in zero_at:     # explicitly stored zeros in every position
        out.append((f"zeros@{','.join(map(str, zs))}", [(r, c, 0 if k in zs else v) for k, ((r, c), v) in enumerate(zip(base, vals))], True))
    sw = {"csr": [(0, 1), (4, 5)], "csc": [(1, 2), (1, 2)], "coo": [(0, 4), (1, 2)]}[kind]
    e = [(r, c, v) for (r, c), v in zip(base, vals)]
    for a_, b_ in sw[:1]:
        e2 = list(e)
        e2[a_], e2[b_] = e2[b_], e2[a_]
        out.append(("unsorted", e2, False))
    # duplicates: a repeated index (values add up), adjacent and (for COO) far apart; a duplicate pair that cancels to zero
    d0 = base[0]
    out.append(("duplicate", [(d0[0], d0[1], 1), (d0[0], d0[1], 10)] + e[1:], False))
    out.append(("duplicate-cancelling", [(d0[0], d0[1], 3), (d0[0], d0[1], -3)] + e[1:], False))
    if kind == "coo":
        out.append(("duplicate-apart", e + [(base[2][0], base[2][1], 10)], False))
        out.append(("flag-false-but-canonical", list(e), False))    # built from triples: scipy has not checked
        out.append(("unsorted-zeros", [(r, c, (0 if k == 1 else v)) for k, (r, c, v) in enumerate(e2)], False))
    return out


def entries_dense(entries, shape, dt):
    a = np.zeros(shape, dtype=dt)
    for r, c, v in entries:
        a[r, c] += v
    return a


def risky_input(m):
    return (m.get("canonical") is False or m.get("parts_layout", "C") != "C"
            or any(l in ("strided", "negative") for l in (m.get("layouts") or [])))


def gen_consume(ctx, rng):
    tasks, meta = [], {}
    quick, seed = ctx.quick, ctx.seed
    k = 0
    # ---- NumPy inputs: layout x copy x rank, every consumer
    ranks = (1, 2, 3) if quick else (1, 2, 3, 4)
    for nd in ranks:
        dts = [DTYPES[(nd + seed) % len(DTYPES)]] if quick else [DTYPES[(nd + seed) % len(DTYPES)], DTYPES[(nd + seed + 5) % len(DTYPES)], "float64"]
        for dt in dict.fromkeys(dts):
            shape = CONSUME_SHAPES[nd]
            for lay in LAYOUTS:
                if lay == "swapped" and np.dtype(dt).itemsize == 1:
                    continue
                if lay in ("F", "T", "F-readonly", "negative-last") and nd == 1:
                    continue
                a = rand_dense(rng, shape, dt, 0.7)
                a.reshape(-1)[0] = 2          # never all zero
                if lay == "broadcast":
                    a = np.broadcast_to(a[0], shape).copy() if nd > 1 else np.full(shape, a[0])
                ops = consumer_ops(rng, "dense", nd, dt, a)
                for cp in (None, True, False):
                    tid = f"use-np-{k}"; k += 1
                    tasks.append({"id": tid, "kind": "consume", "copy": cp, "ops": [o for o, _e, _n in ops],
                                  "input": {"via": "numpy-layout", "layout": lay, "shape": list(shape), "dtype": dt, "vals": enc_vals(a)}})
                    meta[tid] = {"a": a, "ops": ops, "input": f"numpy:{lay}", "nd": nd, "dt": dt, "src_fam": "dense"}
    # ---- scipy inputs: kind x variant x copy, every consumer
    for i, kind in enumerate(("csr", "csc", "coo")):
        fam = {"coo": "coo2"}.get(kind, kind)
        dts = [DTYPES[(i + seed) % len(DTYPES)]] if quick else [DTYPES[(i + seed) % len(DTYPES)], "float64", "complex64"]
        for dt in dict.fromkeys(dts):
            if np.dtype(dt).kind == "u":
                dt = "int" + dt[4:]      # the cancelling pair needs a signed type
            for vname, entries, canon in scipy_variants(kind, quick):
                a = entries_dense(entries, (4, 5), dt)
                ops = consumer_ops(rng, fam, 2, dt, a)
                layouts = ["C"] + (["strided"] if vname == "canonical" else [])
                for lay in layouts:
                    copies = (None, True, False)
                    if quick and (not canon or lay != "C"):
                        # inside the regions of the open findings (these inputs can kill the worker, a restart costs seconds):
                        # one value of `copy` per variant in the quick tier, rotated by the seed; all three in the thorough tier
                        copies = (copies[(k + seed) % 3],)
                    for cp in copies:
                        tid = f"use-sp-{k}"; k += 1
                        spec = {"via": "scipy-variant", "kind": kind, "shape": [4, 5], "dtype": dt, "idx_dtype": ["int32", "int64"][(i + seed) % 2],
                                "entries": [[int(r), int(c), int(v)] for r, c, v in entries], "parts_layout": lay}
                        if kind != "coo" or vname == "canonical" or vname.startswith("zeros@"):
                            spec["flag_canonical"] = canon
                        tasks.append({"id": tid, "kind": "consume", "copy": cp, "ops": [o for o, _e, _n in ops], "input": spec})
                        meta[tid] = {"a": a, "ops": ops, "input": f"scipy:{kind}:{vname}" + ("" if lay == "C" else f":parts-{lay}"), "nd": 2, "dt": dt,
                                     "src_fam": fam, "canonical": canon, "parts_layout": lay}
    # ---- from_constituent_arrays with constituent arrays in every layout
    for i, (fam, nd) in enumerate((("csf", 2), ("coo", 1), ("dense", 2), ("csf", 3), ("coo", 3))):
        if quick and i >= 3 and (i + seed) % 2:
            continue
        dt = DTYPES[(i + seed + 3) % len(DTYPES)]
        if np.dtype(dt).kind == "c" and nd == 1:
            dt = "float32"
        a = rand_dense(rng, CONSUME_SHAPES[nd], dt, 0.7)
        a.reshape(-1)[0] = 2
        src_fam = fam
        base = operand_spec(rng, fam, a) if fam != "dense" else None
        if fam == "dense":
            base = {"via": "arrays", "shape": list(a.shape), "array_kinds": [], "arrays": [], "vals": enc_vals(a),
                    "format": {"factory": "dense", "ndim": nd, "dtype": dt}}
        narr = len(base["arrays"]) + 1
        ops = consumer_ops(rng, src_fam, nd, dt, a)
        for lay in ("C", "strided", "negative", "offset", "readonly"):
            for which in (["all"] if lay in ("C", "readonly") else ["all", "values", "first"]):
                lays = [lay if (which == "all" or (which == "values" and j == narr - 1) or (which == "first" and j == 0)) else "C" for j in range(narr)]
                if which == "first" and narr == 1:
                    continue
                if quick and which != "values" and lay in ("strided", "negative") and (i + seed + len(lay)) % 5:
                    continue   # a strided pointer / index array usually kills the worker: one family per quick run, all in thorough
                tid = f"use-ca-{k}"; k += 1
                tasks.append({"id": tid, "kind": "consume", "ops": [o for o, _e, _n in ops],
                              "input": dict(base, via="arrays-layout", layouts=lays)})
                meta[tid] = {"a": a, "ops": ops, "input": f"arrays:{fam}{nd}:{lay}:{which}", "nd": nd, "dt": dt, "src_fam": src_fam, "layouts": lays}
    return tasks, meta


def check_consume(ctx, tasks, meta, res):
    lean_reqs, lean_after = [], []
    for t in tasks:
        m, r = meta[t["id"]], res[t["id"]]
        a = m["a"]
        base_case = {"input": m["input"], "copy": t.get("copy"), "dtype": m["dt"], "task": {k: v for k, v in t.items() if k != "id"},
                     "scipy_canonical": m.get("canonical"), "array_layouts": m.get("layouts"), "parts_layout": m.get("parts_layout")}
        ctx.case(f"C:consume:{m['input'].split(':')[0]}", {"input": m["input"], "copy": t.get("copy"), "dtype": m["dt"], "vals": enc_vals(a)},
                 nontrivial=bool(np.count_nonzero(a)))
        name0 = f"consume:{m['input']}"
        if crash_or_exc(ctx, name0, base_case, r):
            continue
        if "asarray_exc" in r:
            e = r["asarray_exc"]
            spec = t["input"]
            c_contig = (r.get("flags") or {}).get("c")
            allowed = (spec["via"] == "numpy-layout" and ((t.get("copy") is False and c_contig is False and e["exc"] == "NotImplementedError")
                                                           or spec["layout"] == "swapped"))
            if allowed:
                ctx.count("consume_rejected_inputs", 1)
            else:
                fail_c(ctx, name0 + ":asarray", base_case, f"asarray(copy={t.get('copy')}) raised {e['exc']}: {e['msg']}")
            continue
        if not r.get("input_unchanged", True):
            fail_c(ctx, name0, base_case, "an input buffer was modified")
        if not r.get("x_after", True):
            fail_c(ctx, name0, base_case, "the backend array changed while it was being used as an operand")
        if r.get("invalid_free"):
            fail_c(ctx, name0, base_case, "free() of an input buffer attempted")

        def check_value(case, name, got, shape, dtype, exp):
            if list(shape) != list(exp.shape) or str(dtype) != str(exp.dtype) or not same(got.reshape(exp.shape) if got.size == exp.size else got, exp):
                fail_c(ctx, name, case, f"result {got.tolist()!r:.160} (shape {list(shape)}, {dtype}); NumPy on the same values gives {exp.tolist()!r:.160} ({exp.dtype})")

        # the backend array itself must mean the input
        for (op, exp, oname), out in [(({"op": "x"}, a, "meaning"), {"arr": r["x"]})] + list(zip(m["ops"], r["ops"])):
            case = dict(base_case, op=oname)
            name = f"{name0}:{oname}"
            ctx.case(f"C:consume:{m['input'].split(':')[0]}:{oname.split(':')[0]}", {"input": m["input"], "copy": t.get("copy"), "op": oname, "dtype": m["dt"]},
                     nontrivial=True)
            if "exc" in out:
                fail_c(ctx, name, case, f"raised {out['exc']}: {out['msg']}")
            elif "np" in out:
                o = out["np"]
                check_value(case, name, dec_vals(o["vals"], o["dtype"]), o["shape"], o["dtype"], exp)
            elif "sp" in out:
                o = out["sp"]
                check_value(case, name, dec_vals(o["vals"], o["dtype"]), o["shape"], o["dtype"], exp)
            else:
                d = out["arr"]
                try:
                    dense, posarr, dup = decode(d)
                except Exception as e:  # noqa: BLE001
                    fail_c(ctx, name, case, f"result does not decode: {type(e).__name__}: {e}")
                    continue
                if dup:
                    fail_c(ctx, name, case, "an index is stored twice (the level walk reads the first one; scipy means their sum)")
                check_index_dtypes(ctx, name, case, d)
                check_value(case, name, dense, dense.shape, dense.dtype, exp)
                if oname == "meaning" and posarr.size <= 200:
                    lean_reqs.append(["c20_todense", d["fmt"], d["shape"], d["arrays"], list(range(1, len(d["vals"]) + 1))])
                    lean_after.append((case, posarr))
    outs = ctx.driver.run(lean_reqs)
    for (case, posarr), o in zip(lean_after, outs):
        ctx.case("A:todense:consume", {"input": case["input"], "copy": case["copy"]}, nontrivial=True)
        if o.get("ok") != [int(v) for v in posarr.reshape(-1)]:
            ctx.fail("A", "levels:todense", case, f"Lean toDense {str(o)[:200]} reference walk {posarr.reshape(-1).tolist()!r:.200}")


def fmt_json(levels, order, pos=64, crd=64, dtype="float64"):
    return {"levels": levels, "order": list(order), "pos": pos, "crd": crd, "dtype": dtype}


def lv(kind, no=False, nu=False, soa=False):
    return [kind, no, nu, soa]


def format_pool(rng, quick):
    pool = []
    for nd in range(0, 5):
        orders = list(itertools.permutations(range(nd))) if nd <= 3 else [tuple(range(4)), (3, 2, 1, 0), (1, 0, 3, 2), (2, 0, 3, 1)]
        for fac in ("dense", "csf", "coo"):
            kinds = FACTORY_KINDS[fac](nd)
            for o in orders:
                for w in [(64, 64), (32, 32), (8, 16), (64, 32)]:
                    levels = []
                    for i, k in enumerate(kinds):
                        if fac == "coo":
                            levels.append(lv(k, False, i != nd - 1, i != 0))
                        else:
                            levels.append(lv(k))
                    pool.append(fmt_json(levels, o, w[0], w[1]))
        if nd >= 2:  # mixed level kinds (DCSR-like, dense tail)
            for kinds in (["compressed"] * nd, ["dense"] * (nd - 1) + ["compressed"], ["compressed"] + ["dense"] * (nd - 1)):
                pool.append(fmt_json([lv(k) for k in kinds], list(range(nd)), 16, 64))
    return pool


def gen_determine(ctx, rng):
    pool = format_pool(rng, ctx.quick)
    cases = []
    n_pairs = 500 if ctx.quick else 6000
    for _ in range(n_pairs):
        m = int(rng.choice([0, 1, 2, 2, 2, 3]))
        fmts = [pool[int(i)] for i in rng.integers(0, len(pool), size=m)]
        mr = max([len(f["levels"]) for f in fmts], default=0)
        on = None if rng.random() < 0.5 else int(rng.integers(0, mr + 3))
        cases.append({"formats": fmts, "dtype": str(rng.choice(["float64", "int8"])), "union": bool(rng.random() < 0.5), "out_ndim": on})
    # exhaustive pairs over a small sub-pool
    sub = [f for f in pool if f["pos"] == 64 and f["crd"] == 64 and len(f["levels"]) in (1, 2, 3)]
    if not ctx.quick:
        for f1 in sub:
            for f2 in sub:
                for union in (True, False):
                    cases.append({"formats": [f1, f2], "dtype": "float64", "union": union, "out_ndim": None})
    else:
        idx = rng.choice(len(sub), size=min(24, len(sub)), replace=False)
        for i in idx:
            for j in idx:
                cases.append({"formats": [sub[int(i)], sub[int(j)]], "dtype": "float64", "union": bool((i + j) % 2), "out_ndim": None})
    return cases


def gen_format_specs(ctx):
    specs = []
    for fac in ("dense", "csf", "coo"):
        for nd in range(0, 6):
            for canonical in (True, False):
                specs.append({"factory": fac, "ndim": nd, "canonical": canonical, "dtype": "float32", "pos": 32, "crd": 16})
    specs.append({"json": fmt_json([lv("dense"), lv("dense")], [0, 0])})                      # not a permutation: ValueError
    specs.append({"json": fmt_json([lv("compressed"), lv("singleton", soa=True), lv("compressed"), lv("singleton")], [0, 1, 2, 3])})
    specs.append({"json": fmt_json([lv("singleton"), lv("compressed"), lv("dense"), lv("singleton")], [3, 1, 2, 0])})
    specs.append({"json": fmt_json([lv("dense", soa=True)], [0])})
    return specs


# ---------------------------------------------------------------------------------------------------
# ownership programs
# ---------------------------------------------------------------------------------------------------

def ownership_programs(ctx, rng):
    """(program, names to delete in every order).  Shapes/dtypes are fixed per program so that every
    permutation reuses the same compiled kernels."""
    a = rand_dense(rng, (3, 4), "float64", 1.0)
    b = rand_dense(rng, (3, 4), "float64", 0.5)
    s = rand_dense(rng, (4, 3), "int32", 0.5)
    s[0, 0] = 3
    arrs, akinds, vals = encode_levels(["dense", "compressed"], [0, 1], s)
    progs = []
    progs.append(("dense-add-views",
                  [["np", "a", np_spec(a)], ["asarray", "x", "a"], ["op", "r", "add", ["x", "x"]], ["views", ["v"], "r"]],
                  ["a", "x", "r", "v"]))
    progs.append(("to_numpy-copy",
                  [["np", "a", np_spec(a)], ["asarray", "x", "a"], ["op", "r", "add", ["x", "x"]], ["to_numpy", "t", "r"],
                   ["copy", "c", "r"]],
                  ["x", "r", "t", "c"]))
    csr_fmt = {"factory": "csf", "ndim": 2, "pos": 32, "crd": 32, "dtype": "int32"}
    csc_fmt = {"factory": "csf", "ndim": 2, "pos": 32, "crd": 32, "dtype": "int32", "order": [1, 0]}
    progs.append(("csr-asformat-reshape",
                  [["np", "ip", {"via": "numpy", "shape": [len(arrs[0])], "dtype": "int32", "vals": arrs[0]}],
                   ["np", "ix", {"via": "numpy", "shape": [len(arrs[1])], "dtype": "int32", "vals": arrs[1]}],
                   ["np", "d", {"via": "numpy", "shape": [len(vals)], "dtype": "int32", "vals": enc_vals(vals)}],
                   ["from_arrays", "X", csr_fmt, ["ip", "ix", "d"], [4, 3]],
                   ["op", "Y", "asformat", ["X"], {"format": csc_fmt}],
                   ["op", "Z", "reshape", ["X"], {"shape": [2, 6]}],
                   ["op", "W", "asformat", ["X"], {"format": csr_fmt}]],           # same format: the same object
                  ["d", "X", "Y", "Z"]))
    # asformat to an equal-but-not-identical format object, on an input-backed array (X) and on an owning result (R)
    hows = ["ctor", "replace", "deepcopy", "pickle"]
    for j, how in enumerate(hows):
        if ctx.quick and j != ctx.seed % 4 and j != (ctx.seed + 1) % 4:
            continue
        progs.append((f"asformat-equal-{how}",
                      [["np", "ip", {"via": "numpy", "shape": [len(arrs[0])], "dtype": "int32", "vals": arrs[0]}],
                       ["np", "ix", {"via": "numpy", "shape": [len(arrs[1])], "dtype": "int32", "vals": arrs[1]}],
                       ["np", "d", {"via": "numpy", "shape": [len(vals)], "dtype": "int32", "vals": enc_vals(vals)}],
                       ["from_arrays", "X", csr_fmt, ["ip", "ix", "d"], [4, 3]],
                       ["op", "Y", "asformat", ["X"], {"format_clone": how}]],
                      ["d", "X", "Y"]))
        progs.append((f"asformat-equal-result-{how}",
                      [["np", "a", np_spec(a)], ["asarray", "x", "a"], ["op", "r", "add", ["x", "x"]],
                       ["op", "q", "asformat", ["r"], {"format_clone": hows[(j + 1) % 4]}]],
                      ["x", "r", "q"]))
    v1 = rand_dense(rng, (6,), "float64", 1.0)
    progs.append(("reshape-1d",
                  [["np", "a", np_spec(v1)], ["asarray", "x", "a"], ["op", "r", "reshape", ["x"], {"shape": [6]}]],
                  ["a", "x", "r"]))
    if not ctx.quick:
        progs.append(("two-operands",
                      [["np", "a", np_spec(a)], ["np", "b", np_spec(b)], ["asarray", "x", "a"], ["asarray", "y", "b"],
                       ["op", "r", "add", ["x", "y"]], ["views", ["v"], "r"]],
                      ["a", "y", "r", "v"]))
        c3 = rand_dense(rng, (2, 2, 3), "float32", 0.6)
        c3[0, 0, 0] = 1.5
        a3, k3, v3 = encode_levels(FACTORY_KINDS["csf"](3), [0, 1, 2], c3)
        names = [f"c{i}" for i in range(len(a3))]
        stm = [["np", n, {"via": "numpy", "shape": [len(x)], "dtype": "int64", "vals": x}] for n, x in zip(names, a3)]
        stm.append(["np", "cv", {"via": "numpy", "shape": [len(v3)], "dtype": "float32", "vals": enc_vals(v3)}])
        stm.append(["from_arrays", "C", {"factory": "csf", "ndim": 3, "dtype": "float32"}, names + ["cv"], [2, 2, 3]])
        stm.append(["op", "S", "add", ["C", "C"]])
        stm.append(["views", [None, None, None, None, "sv"], "S"])
        stm.append(["op", "D", "asformat", ["S"], {"format": {"factory": "dense", "ndim": 3, "dtype": "float32"}}])
        progs.append(("csf3", stm, ["cv", "C", "S", "sv", "D"][:4]))
        progs.append(("csf3-b", stm, ["C", "S", "sv", "D"]))
    return progs


def lifetime_programs(ctx, rng):
    """arrays built from EXTERNAL buffers (NumPy input, SciPy input, from_constituent_arrays, copy(), asarray(copy=…)) in
    every format, what the conversions hand back (get_constituent_arrays / to_numpy / to_scipy), and the units to delete in
    every order: EVERY reference the program holds to the sources and to the backend arrays.  The outputs are held to the
    end.  (label, program, units); a unit is a name or a list of names deleted in one step."""
    progs = []
    quick = ctx.quick
    seed = ctx.seed
    fdt = ["float64", "int32", "complex128", "int16", "complex64", "int64", "float16", "float32"]

    def dt(i):
        return fdt[(i + seed) % len(fdt)]

    # ---- must-pass (every run, every seed): the witnesses of the repaired defect d206752 — for the element types the MLIR
    # runtime re-views, to_numpy of a TEMPORARY result (the owning storage has no other holder once the call returns) and
    # to_numpy(asarray(a)) followed by `del a, x`
    for mdt in ("complex64", "complex128", "float16"):
        a = (np.arange(12).reshape(3, 4) + 1).astype(mdt)
        progs.append((f"life:must-pass:to_numpy-of-temporary:{mdt}",
                      [["np", "a", np_spec(a)], ["asarray", "x", "a", None], ["op", "r", "add", ["x", "x"]], ["to_numpy", "t", "r"]],
                      ["r", "a", "x"]))
        for cp in (None, True):
            progs.append((f"life:must-pass:to_numpy-del-a-x:{mdt}:copy={cp}",
                          [["np", "a", np_spec(a)], ["asarray", "x", "a", cp], ["to_numpy", "t", "x"]], ["a", "x"]))
    # ---- NumPy input: copy=None / False / True, ranks 1-4
    shapes = [(3, 4), (5,), (2, 3, 2)] if quick else [(3, 4), (5,), (2, 3, 2), (2, 2, 2, 3), (1, 1)]
    for i, cp in enumerate((None, False, True)):
        for j, shape in enumerate(shapes):
            if quick and (i + j + seed) % 3 and not (cp is True and j == 0):
                continue
            a = rand_dense(rng, shape, dt(i + j), 1.0)
            # one program per kind of output: an output that keeps the storage alive must not mask another that does not
            for what, out in (("views", ["views", ["v"], "x"]), ("to_numpy", ["to_numpy", "t", "x"])):
                progs.append((f"life:numpy:copy={cp}:{len(shape)}d:{what}",
                              [["np", "a", np_spec(a)], ["asarray", "x", "a", cp], out], ["a", "x"]))
    # ---- SciPy input: CSR / CSC / COO, copy=None / True; all references to the matrix AND to its arrays dropped
    for i, kind in enumerate(("csr", "csc", "coo")):
        for j, cp in enumerate((None, True)):
            sdt = dt(2 * i + j)
            if sdt == "float16":   # not a scipy.sparse dtype
                sdt = "float32"
            m = rand_dense(rng, (4, 3), sdt, 0.5)
            m[0, 0] = 3
            spec = {"via": "scipy", "kind": kind, "shape": [4, 3], "dtype": sdt, "idx_dtype": ["int32", "int64"][(i + j + seed) % 2],
                    "vals": enc_vals(m)}
            nv = 4 if kind == "coo" else 3
            vs = [f"v{k}" for k in range(nv)]
            for what, out in (("views", ["views", vs, "x"]), ("to_scipy", ["to_scipy", "T", "x"])):
                progs.append((f"life:scipy:{kind}:copy={cp}:{what}",
                              [["scipy", "S", spec], ["asarray", "x", "S", cp], out], ["S", "x"]))
                if cp is None and (not quick or i == seed % 3):
                    # the program also holds two of the matrix's arrays under names of its own
                    progs.append((f"life:scipy:{kind}:parts-held:{what}",
                                  [["scipy", "S", spec, ["p", None, "d"]], ["asarray", "x", "S", None], out], ["S", "p", "d", "x"]))
    # ---- from_constituent_arrays: every format family
    fams = [("dense", "dense", 2, None), ("csr", "csf", 2, None), ("csc", "csf", 2, [1, 0]), ("coo1", "coo", 1, None),
            ("coo2", "coo", 2, None), ("coo3", "coo", 3, None), ("csf3", "csf", 3, None)]
    if not quick:
        fams += [("dense3", "dense", 3, None), ("csf4", "csf", 4, None), ("coo4", "coo", 4, None), ("csf1", "csf", 1, None)]
    built = {}
    for i, (label, fac, nd, order) in enumerate(fams):
        vdt = dt(i)
        if vdt == "float16" and label in ("csr", "csc", "coo2"):   # handed to scipy.sparse, which has no float16
            vdt = "float32"
        w = [(64, 64), (32, 32), (64, 32), (16, 16)][(i + seed) % (3 if label in ("csr", "csc", "coo2") else 4)]
        a = rand_dense(rng, {1: (6,), 2: (4, 3), 3: (2, 3, 2), 4: (2, 2, 2, 2)}[nd], vdt, 0.6)
        a[(0,) * nd] = 2
        kinds = FACTORY_KINDS[fac](nd)
        arrs, akinds, vals = encode_levels(kinds, order or list(range(nd)), a)
        names = [f"c{k}" for k in range(len(arrs))]
        stm = [["np", n, {"via": "numpy", "shape": [len(x)], "dtype": f"int{w[0] if ak == 'pos' else w[1]}", "vals": x}]
               for n, x, ak in zip(names, arrs, akinds)]
        stm.append(["np", "cv", {"via": "numpy", "shape": [len(vals)], "dtype": vdt, "vals": enc_vals(vals)}])
        fmt = {"factory": fac, "ndim": nd, "pos": w[0], "crd": w[1], "dtype": vdt}
        if order:
            fmt["order"] = order
        stm.append(["from_arrays", "X", fmt, names + ["cv"], list(a.shape)])
        built[label] = (stm, names + ["cv"])
        outs = [("views", ["views", [f"v{k}" for k in range(len(names) + 1)], "X"])]
        if fac == "dense":
            outs.append(("to_numpy", ["to_numpy", "t", "X"]))
        if label in ("csr", "csc", "coo2"):
            outs.append(("to_scipy", ["to_scipy", "T", "X"]))
        srcs = names + ["cv"]
        limit = 3 if quick else 4
        if len(srcs) > limit:   # group the index arrays so that every order of the groups is run
            per = -(-len(names) // (limit - 1))
            units = [names[k:k + per] for k in range(0, len(names), per)] + ["cv"]
        else:
            units = list(srcs)
        for what, out in outs:
            progs.append((f"life:arrays:{label}:{what}", stm + [out], units + ["X"]))
    # ---- copy(): of an input-backed array (the copy is the only owner of its buffers) and of an owning result
    stm, srcs = built["csr"]
    for what, out in (("views", ["views", ["v0", "v1", "v2"], "C"]), ("to_scipy", ["to_scipy", "T", "C"])):
        progs.append((f"life:copy:of-input-backed:{what}", stm + [["copy", "C", "X"], out], [srcs, "X", "C"]))
    a = rand_dense(rng, (3, 4), ["float64", "complex128", "float32"][seed % 3], 1.0)
    for what, out in (("views", ["views", ["v"], "c"]), ("to_numpy", ["to_numpy", "t", "c"]), ("to_numpy-of-result", ["to_numpy", "t", "r"])):
        progs.append((f"life:copy:of-result:{what}",
                      [["np", "a", np_spec(a)], ["asarray", "x", "a", None], ["op", "r", "add", ["x", "x"]], ["copy", "c", "r"], out],
                      ["a", "x", "r", "c"]))
    # ---- asarray(<backend array>, copy=True / False)
    a = rand_dense(rng, (2, 5), dt(1), 1.0)
    for what, out in (("views-of-copy", ["views", ["v"], "y"]), ("to_numpy-of-same", ["to_numpy", "t", "z"]), ("views-of-same", ["views", ["v"], "z"])):
        progs.append((f"life:asarray-of-array:{what}",
                      [["np", "a", np_spec(a)], ["asarray", "x", "a", None], ["asarray", "y", "x", True], ["asarray", "z", "x", False], out],
                      ["a", "x", "y", "z"]))
    return progs


def model_commands(program, infos, delete):
    """translate a program (+ the worker's per-statement info) into ownership-model commands.
    returns (commands grouped per statement, role -> model id, name -> model id)"""
    role, name = {}, {}
    nid = 0
    groups = []
    nfields = {}
    mismatches = []

    def new(r):
        nonlocal nid
        role[r] = nid
        nid += 1
        return role[r]

    scipy_parts = {}
    cast = set()

    def view_cmds(cmds, src, k, vrole, raws):
        """the k-th array of get_constituent_arrays(): one object holding the storage — or, for an element type the MLIR runtime
        re-views (the worker saw `view.base` being an ndarray), the raw array with nothing attached and its re-view"""
        if vrole in cast:
            cmds.append(["rawField", name[src], k]); r = new("raw:" + vrole)
            raws.append(r)
            cmds.append(["castView", r, name[src]])
        else:
            cmds.append(["view", name[src], k])
        return new(vrole)

    def copy_cmds(cmds, dst, src, tok):
        """`Array.copy()`: views of the source, a copy of each, a non-owning storage over the copies (their only owner)"""
        n = nfields[src]
        vs, cs = [], []
        for k in range(n):
            vs.append(view_cmds(cmds, src, k, f"view:copy-{dst}:{k}", vs))
        for k in range(n):
            cmds.append(["newArray", tok]); tok += 1
            cs.append(new(f"np:{dst}:{k}"))
        cmds.append(["mkStorage", cs]); s = new(f"storage:{dst}")
        cmds.append(["mkArray", s]); name[dst] = new(f"array:{dst}")
        cmds.extend([["drop", i] for i in vs + cs + [s]] + [["collect"]])
        nfields[dst] = n
        return tok

    tok = 0
    for st, info in zip(program, infos):
        cmds = []
        kind = st[0]
        cast = set(info.get("cast", []))
        if kind == "np":
            cmds.append(["newArray", tok]); tok += 1
            name[st[1]] = new(f"np:{st[1]}")
        elif kind == "scipy":
            # a SciPy matrix over three arrays that own their buffers; the program keeps the matrix (and the arrays it names)
            ids = []
            for k in range(3):
                cmds.append(["newArray", tok]); tok += 1
                ids.append(new(f"np:{st[1]}:{k}"))
            cmds.append(["mkScipy", ids]); name[st[1]] = new(f"scipy:{st[1]}")
            given = st[3] if len(st) > 3 else []
            for k, i in enumerate(ids):
                if k < len(given) and given[k] is not None:
                    name[given[k]] = i
                else:
                    cmds.append(["drop", i])
            cmds.append(["collect"])
            scipy_parts[st[1]] = (ids, info.get("format"))
        elif kind == "asarray" and st[2] in nfields:
            # asarray(<backend array>, copy): the array itself, or `copy()`
            if info.get("alias_of"):
                cmds.append(["alias", name[info["alias_of"]]])
                name[st[1]] = name[info["alias_of"]]
                role[f"array:{st[1]}"] = name[st[1]]
                nfields[st[1]] = nfields[info["alias_of"]]
            else:
                tok = copy_cmds(cmds, st[1], st[2], tok)
        elif kind == "asarray" and st[2] in scipy_parts:
            ids, fmt = scipy_parts[st[2]]
            cp = bool(st[3]) if len(st) > 3 else False
            temps, srcs = [], []
            if fmt == "coo":   # `pos = np.array([0, nnz])`: an array of the library's own
                cmds.append(["newArray", tok]); tok += 1
                temps.append(new(f"np:{st[1]}:pos"))
                srcs.append(temps[-1])
            for k, i in enumerate(ids):
                if cp:
                    cmds.append(["newArray", tok]); tok += 1
                    temps.append(new(f"np:{st[1]}:{k + 1 if fmt == 'coo' else k}"))
                    srcs.append(temps[-1])
                else:
                    srcs.append(i)
            cmds.append(["mkStorage", srcs]); s = new(f"storage:{st[1]}")
            cmds.append(["mkArray", s]); name[st[1]] = new(f"array:{st[1]}")
            cmds += [["drop", i] for i in temps] + [["drop", s], ["collect"]]
            nfields[st[1]] = len(srcs)
        elif kind == "asarray":
            cp = bool(st[3]) if len(st) > 3 else False
            temps = []
            base = name[st[2]]
            if cp:   # `arr.copy(order="C")`: the backend array is the only owner of the copy
                cmds.append(["newArray", tok]); tok += 1
                base = new(f"np:{st[1]}:copy")
                temps.append(base)
            cmds.append(["npView", base]); f = new(f"flat:{st[1]}")
            cmds.append(["mkStorage", [f]]); s = new(f"storage:{st[1]}")
            cmds.append(["mkArray", s]); name[st[1]] = new(f"array:{st[1]}")
            cmds += [["drop", i] for i in temps] + [["drop", f], ["drop", s], ["collect"]]
            nfields[st[1]] = 1
        elif kind == "from_arrays":
            cmds.append(["mkStorage", [name[n] for n in st[3]]]); s = new(f"storage:{st[1]}")
            cmds.append(["mkArray", s]); name[st[1]] = new(f"array:{st[1]}")
            cmds += [["drop", s], ["collect"]]
            nfields[st[1]] = len(st[3])
        elif kind == "op":
            equal_fmt = st[2] == "asformat" and "format_clone" in (st[4] if len(st) > 4 else {})
            if equal_fmt and not info.get("alias_of"):
                # model: `asformat` to an equal format returns the operand, no new storage.  The backend built one:
                # keep the ids aligned with what happened (so that later statements still compare) and report it.
                mismatches.append(f"{st[1]} = asformat({st[3][0]}, <equal format>): the model returns the operand itself, "
                                  f"the backend built a new {'aliasing ' if info.get('aliased') else ''}owning storage")
            if info.get("alias_of"):
                cmds.append(["alias", name[info["alias_of"]]])
                name[st[1]] = name[info["alias_of"]]
                role[f"array:{st[1]}"] = name[st[1]]
                nfields[st[1]] = nfields[info["alias_of"]]
            else:
                temps = []
                if st[2] == "reshape":  # `_from_numpy(np.asarray(shape, dtype=np.uint64))`: a temporary backend array
                    cmds.append(["newArray", tok]); tok += 1
                    t0 = new(f"np:shape:{st[1]}")
                    cmds.append(["npView", t0]); t1 = new(f"flat:shape:{st[1]}")
                    cmds.append(["mkStorage", [t1]]); t2 = new(f"storage:shape:{st[1]}")
                    cmds.append(["mkArray", t2]); t3 = new(f"array:shape:{st[1]}")
                    temps = [t0, t1, t2, t3]
                n = info["nfields"]
                if info.get("aliased"):   # the result's fields are the operand's buffers (rank-1 reshape): excluded region
                    cmds.append(["opAliased", name[st[3][0]]])
                else:
                    cmds.append(["opStorage", list(range(tok, tok + n))]); tok += n
                s = new(f"storage:{st[1]}")
                cmds.append(["mkArray", s]); name[st[1]] = new(f"array:{st[1]}")
                cmds += [["drop", i] for i in temps] + [["drop", s], ["collect"]]
                nfields[st[1]] = n
        elif kind == "views":
            src = st[2]
            ids, raws = [], []
            for k in range(nfields[src]):
                ids.append(view_cmds(cmds, src, k, f"view:{src}:{k}", raws))
            cmds += [["drop", i] for i in raws]
            for n, i in zip(st[1], ids):
                if n is None:
                    cmds.append(["drop", i])
                else:
                    name[n] = i
            cmds.append(["collect"])
        elif kind == "to_numpy":
            raws = []
            v = view_cmds(cmds, st[2], 0, f"view:{st[1]}:data", raws)
            cmds.append(["npView", v]); name[st[1]] = new(f"np:{st[1]}")
            cmds += [["drop", i] for i in raws] + [["drop", v], ["collect"]]
        elif kind == "copy":
            tok = copy_cmds(cmds, st[1], st[2], tok)
        elif kind == "to_scipy":
            # the arrays of get_constituent_arrays() handed to the SciPy constructor: each attribute of the matrix is one of
            # them, a NumPy view of one of them, or a copy SciPy made (what the worker observed)
            src = st[2]
            vs, made = [], []
            for k in range(nfields[src]):
                vs.append(view_cmds(cmds, src, k, f"view:{st[1]}:{k}", made))
            comps = []
            for comp in info.get("components", []):
                an, how = comp[0], comp[1]
                if how == "same":
                    comps.append(vs[comp[2]])
                elif how == "view":
                    cmds.append(["npView", vs[comp[2]]]); made.append(new(f"np:{st[1]}:{an}")); comps.append(made[-1])
                else:
                    cmds.append(["newArray", tok]); tok += 1
                    made.append(new(f"np:{st[1]}:{an}")); comps.append(made[-1])
            cmds.append(["mkScipy", comps]); name[st[1]] = new(f"scipy:{st[1]}")
            cmds += [["drop", i] for i in vs + made] + [["collect"]]
        groups.append(cmds)
    for n in delete:
        groups.append([["drop", name[x]] for x in (n if isinstance(n, list) else [n])] + [["collect"]])
    return groups, role, name, mismatches


def shape_of(program, name):
    """shape of a named object of an ownership program (np / asarray / from_arrays / op results)"""
    for st in program:
        if st[1] == name:
            if st[0] == "np":
                return st[2]["shape"]
            if st[0] == "asarray":
                return shape_of(program, st[2])
            if st[0] == "from_arrays":
                return st[4]
            if st[0] == "op":
                if st[2] == "reshape":
                    return st[4]["shape"]
                return shape_of(program, st[3][0])
            if st[0] == "copy":
                return shape_of(program, st[2])
    return []


def ownership_model_reqs(program, delete, res):
    """the two driver requests of one ownership run (batched by run(): one driver process for all runs)"""
    if "crash" in res or "exc" in res:
        return None
    groups, _role, _name, _mm = model_commands(program, [t["info"] for t in res["trace"]], delete)
    flat = [c for g in groups for c in g]
    return [["c20_own_run", "code", flat], ["c20_excluded_history", [c for c in flat if c[0] != "collect"]]]


def check_ownership(ctx, label, program, delete, res, case, model=None):
    """leg C on the worker's observations, leg A against the model's trace"""
    if "crash" in res:
        ctx.fail("C", "ownership:crash", case, f"the backend killed the worker (exit status {res['crash']}): {res.get('stderr', '')[-200:]}",
                 finding=findings.classify(PID, "ownership:crash", case, str(res)))
        return
    if "exc" in res:
        ctx.fail("C", "ownership:error", case, f"{res['exc']}: {res['msg']}", finding=findings.classify(PID, "ownership:error", case, res["msg"]))
        return
    aliased_ops = [t["stmt"][1] for t in res["trace"] if t["info"].get("aliased")]
    rank1 = [st[1] for st in program if st[0] == "op" and st[2] == "reshape" and len(st[4]["shape"]) == 1
             and len(shape_of(program, st[3][0])) == 1]
    cast_views = sorted({r for t in res["trace"] for r in t["info"].get("cast", [])})
    case = dict(case, aliased_results=aliased_ops, rank1_reshapes=rank1, cast_views=cast_views)
    # ---- the model's run of the same history (the code's keep-alive edges as read off the source)
    infos = [t["info"] for t in res["trace"]]
    groups, role, name, mismatches = model_commands(program, infos, delete)
    flat = [c for g in groups for c in g]
    if model is None:
        model = ctx.driver.run(ownership_model_reqs(program, delete, res))
    out = model[0]
    tr = out["ok"]["trace"] if "ok" in out and "stuck" not in out["ok"] else None
    inv = {}
    for r, i in role.items():
        inv.setdefault(i, r)

    def predicted(step):
        """names through which, by the model, the program reads a released buffer after deletion step `step`"""
        if tr is None:
            return set()
        pos = sum(len(g) for g in groups[:len(res["trace"]) + step + 1]) - 1
        objs = {o for o, _b in tr[pos]["dangling"]}
        return {n for n, i in name.items() if i in objs or role.get(f"storage:{n}") in objs}

    for p in res["problems"]:
        ctx.fail("C", "ownership:aliasing", case, p, finding=findings.classify(PID, "ownership:aliasing", case, p))
    for u in res.get("untracked", []):
        ctx.fail("A", "ownership:untracked-allocation", case, u)
    seen_fwa = set()
    for step, d in enumerate(res["dels"]):
        pred = predicted(step)
        for f in d.get("freed_while_alive", []):
            key = (f["name"], f["part"])
            if key in seen_fwa:
                continue
            seen_fwa.add(key)
            what = f"`{f['name']}`" + (f" ({f['part']})" if f["part"] else "")
            msg = (f"after deleting {d['deleted']!r} (deletion order {delete}; still held: {d.get('survivors')}) {what} is alive and points "
                   f"into the allocation of {f['allocation']}, which has been released (its owner's weak reference is dead): use after free")
            c2 = dict(case, freed_while_alive=f, deleted_so_far=delete[:step + 1], model_predicts=f["name"] in pred)
            ctx.fail("C", "ownership:freed-while-alive", c2, msg, finding=findings.classify(PID, "ownership:freed-while-alive", c2, msg))
        bad = {n: v for n, v in d["survivors_ok"].items() if v is not True}
        if bad:
            msg = f"after deleting {d['deleted']!r} (order {delete}) these objects no longer read their original contents: {bad}"
            c2 = dict(case, bad_survivors=sorted(bad), model_predicts=set(bad) <= pred)
            ctx.fail("C", "ownership:survivors", c2, msg, finding=findings.classify(PID, "ownership:survivors", c2, msg))
        badin = [n for n, v in d["inputs_ok"].items() if not v]
        if badin:
            ctx.fail("C", "ownership:inputs-written", case, f"input buffers changed: {badin}",
                     finding=findings.classify(PID, "ownership:inputs-written", case, str(badin)))
        if any(ev[0] == "free" and ev[1] == "unknown" for ev in d["events"]):
            ctx.fail("C", "ownership:foreign-free", case, f"free_memref called on an allocation no live result owns: {d['events']}")
    # ---- leg A: the model's trace
    for mm in mismatches:
        ctx.fail("A", "ownership:asformat-noop", case, mm)
    if tr is None:
        ctx.fail("A", "ownership:model-stuck", case, f"model cannot run the program: {json.dumps(out)[:300]}")
        return
    excl = model[1].get("ok")
    if out["ok"]["dangling"] and not excl:
        ctx.fail("A", "ownership:model-dangling", case,
                 f"the model of the code as it is (keep-alive edges read off the source) leaves reachable objects over released buffers: "
                 f"{[(inv.get(o, o), b) for o, b in out['ok']['dangling']]} after deletion order {delete}")
    pos = 0
    observed = res["trace"] + res["dels"]
    bufs_of, owns_of = {}, {}
    for g, obs in zip(groups, observed):
        steps = tr[pos:pos + len(g)]
        pos += len(g)
        m_holds, m_fin, m_free, m_base = set(), set(), set(), set()
        for stp in steps:
            nw = stp["new"]
            if nw:
                r = inv[nw["id"]]
                bufs_of[nw["id"]] = nw["bufs"]
                owns_of[nw["id"]] = nw["owns"]
                if nw["kind"] in ("storage", "view"):
                    m_holds |= {(r, inv[x]) for x in nw["refs"]}
                elif nw["kind"] == "ndarray" and r.startswith("view:"):   # a re-viewed constituent array: its base is an attribute
                    m_holds |= {(r, inv[x]) for x in nw["refs"] if inv[x].startswith("storage:")}
                if nw["kind"] == "ndarray" and nw["refs"] and r.startswith("np:") and inv[nw["refs"][0]].startswith(("view:", "raw:")):
                    m_base.add((r, inv[nw["refs"][0]]))
            m_fin |= {inv[x] for x in stp["finalized"]}
            for x in stp["finalized"]:
                if inv[x].startswith("storage:"):
                    for b in stp["freed"]:
                        if b in owns_of.get(x, []):
                            m_free.add((inv[x], bufs_of[x].index(b)))
        evs = obs["events"]
        o_holds = {(e[1], e[2]) for e in evs if e[0] == "hold"}
        o_fin = {e[1] for e in evs if e[0] == "finalized"}
        o_free = {(e[1], e[2]) for e in evs if e[0] == "free"}
        o_base = {(e[1], e[2]) for e in evs if e[0] == "base"}
        what = obs.get("stmt") or ["del", obs.get("deleted")]
        # array -> storage edges are attribute references (not logged); NumPy's flat view of asarray is held through `base`
        # (the shape ndarray and the temporary Array of reshape are not visible to the worker's tracker)
        m_fin_cmp = {r for r in m_fin if not r.startswith(("np:shape:", "array:shape:"))}
        if o_holds != m_holds:
            ctx.fail("A", "ownership:hold-edges", case, f"{what}: _hold_ref edges {sorted(o_holds)} model {sorted(m_holds)}")
        if o_fin != m_fin_cmp:
            ctx.fail("A", "ownership:finalised", case, f"{what}: finalised {sorted(o_fin)} model {sorted(m_fin_cmp)}")
        if o_free != m_free:
            ctx.fail("A", "ownership:frees", case, f"{what}: freed {sorted(o_free)} model {sorted(m_free)}")
        if o_base != m_base:
            ctx.fail("A", "ownership:base", case, f"{what}: base {sorted(o_base)} model {sorted(m_base)}")


# ---------------------------------------------------------------------------------------------------
# thorough tier: a subset of the ownership sweep under valgrind's memcheck
# ---------------------------------------------------------------------------------------------------

def valgrind_leg(ctx, own_tasks, own_meta):
    import shutil
    import tempfile

    vg = shutil.which("valgrind")
    if not vg:
        ctx.notes["valgrind"] = "not installed: skipped"
        return
    pick = [t for t in own_tasks if own_meta[t["id"]][0] in ("dense-add-views", "csr-asformat-reshape", "to_numpy-copy")]
    pick = [t for i, t in enumerate(pick) if i % 5 == ctx.seed % 5][:14]
    d = Path(tempfile.mkdtemp(prefix="verif-c20-vg-", dir="/var/tmp"))
    try:
        log = d / "vg.log"
        t0 = time.time()
        res = run_tasks(ctx, pick, per_batch_deadline=1500,
                        prefix=(vg, "--tool=memcheck", "-q", "--error-exitcode=0", f"--log-file={log}", "--num-callers=16"),
                        extra_env={"PYTHONMALLOC": "malloc"})
        blocks, cur = [], None
        for line in log.read_text(errors="replace").splitlines() if log.exists() else []:
            body = line.split("== ", 1)[1] if "== " in line else ""
            if body.startswith(("Invalid read", "Invalid write", "Invalid free", "Mismatched free")):
                cur = [body]
                blocks.append(cur)
            elif cur is not None and body.strip():
                cur.append(body.strip())
            else:
                cur = None
        # the dynamic loader's word-wise strncmp over short strings is a well-known memcheck report, not the backend's
        real = [b for b in blocks if not any(("dl-load.c" in x or "dl-open.c" in x or "ld-linux" in x) for x in b)]
        ctx.notes["valgrind"] = {"programs_run": len(pick), "memcheck_errors": len(blocks), "outside_loader": len(real),
                                 "wall_s": round(time.time() - t0, 1)}
        for t in pick:
            label, program, pm = own_meta[t["id"]]
            case = {"program": label, "delete_order": pm, "under": "valgrind --tool=memcheck"}
            ctx.case(f"own-valgrind:{label}", case, nontrivial=True)
            r = res.get(t["id"], {})
            if "crash" in r:
                fail_c(ctx, "valgrind:crash", case, f"worker died under valgrind, exit status {r['crash']}")
        if real:
            case = {"programs": sorted({own_meta[t["id"]][0] for t in pick}), "under": "valgrind --tool=memcheck"}
            fail_c(ctx, "valgrind:memcheck", case, f"{len(real)} invalid memory accesses, first: " + " | ".join(real[0][:8]))
    finally:
        shutil.rmtree(d, ignore_errors=True)


# ---------------------------------------------------------------------------------------------------
# comparisons
# ---------------------------------------------------------------------------------------------------

def same(a, b):
    a, b = np.asarray(a), np.asarray(b)
    return a.shape == b.shape and bool(np.array_equal(a, b))


def fail_c(ctx, name, case, msg):
    ctx.fail("C", name, case, msg, finding=findings.classify(PID, name, case, msg))


def crash_or_exc(ctx, name, case, res):
    if isinstance(res, dict) and "crash" in res:
        fail_c(ctx, name, case, f"the backend killed the worker (exit status {res['crash']}): {res.get('stderr', '')[-200:]}")
        return True
    if isinstance(res, dict) and "exc" in res:
        fail_c(ctx, name, case, f"raised {res['exc']}: {res['msg'][:200]}")
        return True
    return False


def check_index_dtypes(ctx, name, case, d):
    kinds = [l[0] for l in d["fmt"]["levels"]]
    want = []
    for k in kinds:
        if k == "compressed":
            want += [f"int{d['fmt']['pos']}", f"int{d['fmt']['crd']}"]
        elif k == "singleton":
            want.append(f"int{d['fmt']['crd']}")
    if d["array_dtypes"] != want:
        fail_c(ctx, name, case, f"index array dtypes {d['array_dtypes']} but the format says {want}")


def lean_todense_reqs(descs):
    reqs = []
    for d in descs:
        reqs.append(["c20_todense", d["fmt"], d["shape"], d["arrays"], list(range(1, len(d["vals"]) + 1))])
    return reqs


def run(ctx):
    ctx.trusted = TRUSTED
    ctx.level = "proof"
    ctx.assumptions = [
        "PARTIAL: arithmetic is done by MLIR-compiled code that no model executes; NumPy is the reference for its values",
        "PARTIAL: use-after-free/double free is undefined behaviour; a passing run (values re-read after deletions, freed blocks "
        "scribbled over, pointers compared) does not exclude it",
        "element values are small integers, halves or small complex integers (exact in every dtype used)",
        "combinations the backend's own tests mark as expected failures are excluded by the same conditions (2-d COO operand of "
        "add/asformat, reshape of CSC, complex 1-d COO)",
    ]
    core.prove(ctx, PID, uses=["mlirHoldViews", "C20"])
    rng = gen.rng_for(ctx.seed, PID)
    t0 = time.time()

    rt_tasks, rt_meta = gen_roundtrips(ctx, rng)
    ord_tasks, ord_meta = gen_orders(ctx, rng)
    op_tasks, op_meta = gen_ops(ctx, rng)
    det_cases = gen_determine(ctx, rng)
    fmt_specs = gen_format_specs(ctx)
    progs = ownership_programs(ctx, rng)
    life = lifetime_programs(ctx, rng)
    own_tasks, own_meta = [], {}
    for label, program, names in progs + life:
        perms = list(itertools.permutations(names))
        for j, pm in enumerate(perms):
            tid = f"own-{label}-{j}"
            own_tasks.append({"id": tid, "kind": "ownership", "program": program, "delete": list(pm)})
            own_meta[tid] = (label, program, list(pm))
    ctx.notes["lifetime_programs"] = {"programs": len(life), "runs": sum(1 for m in own_meta.values() if m[0].startswith("life:"))}
    cfg = ctx.driver.run([["c20_code_cfg"]])[0].get("ok") or {}
    ctx.notes["keep_alive_edges_read_from_source"] = cfg
    if cfg and not cfg.get("is_full"):
        wit = ctx.driver.run([["c20_edge_witness", "code"]])[0].get("ok")
        ctx.fail("A", "ownership:edges-in-source", {"code": cfg.get("code"), "needed": cfg.get("full")},
                 f"the keep-alive edges read off the source {cfg.get('code')} are not the ones the ownership theorems need "
                 f"{cfg.get('full')}; the model's history defeating this configuration: {json.dumps(wit)}")
    use_tasks, use_meta = gen_consume(ctx, rng)
    # inputs inside the regions of the two open findings (non-canonical scipy operands, non-contiguous constituent arrays) can kill
    # the worker (out-of-bounds reads in the compiled kernels): they run in a worker of their own, after everything else
    risky = [t for t in use_tasks if risky_input(use_meta[t["id"]])]
    safe = [t for t in use_tasks if not risky_input(use_meta[t["id"]])]
    ctx.notes["consume_tasks"] = {"all": len(use_tasks), "inside_finding_regions": len(risky)}
    tasks = ([{"id": "formats", "kind": "formats", "specs": fmt_specs}, {"id": "determine", "kind": "determine", "cases": det_cases}]
             + rt_tasks + ord_tasks + op_tasks + safe + own_tasks)
    core.log(f"C20: {len(rt_tasks)} round trips, {len(ord_tasks)} order cases, {len(op_tasks)} operations, {len(det_cases)} format groups, "
             f"{len(own_tasks)} ownership runs")
    res = run_tasks(ctx, tasks, per_batch_deadline=600 if ctx.quick else 3000)
    res.update(run_tasks(ctx, risky, per_batch_deadline=600 if ctx.quick else 3000))
    ctx.notes["worker_wall_s"] = round(time.time() - t0, 1)
    ctx.notes["op_tasks"] = len(op_tasks)

    check_formats(ctx, fmt_specs, res.get("formats"))
    check_determine(ctx, det_cases, res.get("determine"))
    check_roundtrips(ctx, rt_tasks, rt_meta, res)
    check_orders(ctx, ord_tasks, ord_meta, res)
    check_ops(ctx, op_tasks, op_meta, res)
    check_consume(ctx, use_tasks, use_meta, res)
    reqs, where = [], {}
    for t in own_tasks:
        label, program, pm = own_meta[t["id"]]
        rq = ownership_model_reqs(program, pm, res[t["id"]])
        if rq:
            where[t["id"]] = len(reqs)
            reqs += rq
    model_outs = ctx.driver.run(reqs)
    for t in own_tasks:
        label, program, pm = own_meta[t["id"]]
        case = {"program": label, "delete_order": pm}
        if label.startswith("life:"):   # the failing input is self-contained: the object graph (statements) and the deletion order
            case["statements"] = program
        ctx.case(f"own:{label}", case, nontrivial=True)
        k = where.get(t["id"])
        check_ownership(ctx, label, program, pm, res[t["id"]], case, model=None if k is None else model_outs[k:k + 2])
    if not ctx.quick or os.environ.get("C20_VALGRIND"):
        valgrind_leg(ctx, own_tasks, own_meta)
    ctx.cov["rule"] = (
        "round trips: every dtype x rank 1-4 (NumPy), scipy kind x dtype x index width, CSF/COO constituent arrays x pointer/index widths; "
        "dense level orders: every permutation of rank<=3; operations: every pair of storage families per rank for add and asformat, "
        "family x target shape for reshape, dtypes rotated by VERIF_SEED in quick and exhaustive in thorough, minus the backend tests' "
        "xfail conditions; _determine_format: random groups of 0-3 formats + exhaustive pairs of a sub-pool; ownership: every "
        "permutation of deleting 4 objects of each program; lifetimes: build (NumPy copy=None/False/True, SciPy csr/csc/coo copy=None/True, "
        "from_constituent_arrays per format, copy(), asarray of an array) x output kind (views / to_numpy / to_scipy) x every order of deleting "
        "all references to the sources and the arrays (index arrays grouped to <= 4 units in quick), dtypes rotated by VERIF_SEED; non-trivial = at least one stored element / one object; distinct by content hash")


def check_formats(ctx, specs, res):
    if crash_or_exc(ctx, "formats", {"specs": len(specs)}, res):
        return
    reqs, metas = [], []
    for spec, r in zip(specs, res):
        case = {"spec": spec, "backend": r}
        ctx.case("A:formats", case, nontrivial=True)
        if "json" in spec:
            reqs.append(["c20_valid", spec["json"]])
            metas.append(("valid", spec, r))
            continue
        reqs.append(["c20_levels", spec["factory"], spec["ndim"], spec["canonical"]])
        metas.append(("levels", spec, r))
        if "fmt" in r:
            reqs.append(["c20_fields", [l[0] for l in r["fmt"]["levels"]]])
            metas.append(("fields", spec, r))
            reqs.append(["c20_valid", r["fmt"]])
            metas.append(("valid", spec, r))
    outs = ctx.driver.run(reqs)
    for (what, spec, r), o in zip(metas, outs):
        case = {"spec": spec, "what": what}
        if what == "levels":
            if "fmt" not in r or o.get("ok") != r["fmt"]["levels"]:
                ctx.fail("A", "formats:levels", case, f"model {o} backend {r}")
        elif what == "fields":
            if o.get("ok") != r["fields"]:
                ctx.fail("A", "formats:fields", case, f"model {o} backend {r['fields']}")
        else:
            m = o.get("ok", {})
            if "err" in r:
                if m.get("valid") is not False:
                    ctx.fail("A", "formats:valid", case, f"backend rejects ({r}) but the model says valid")
            else:
                got = {"valid": True, "dense": r["dense"], "coo": r["coo"], "csf": r["csf"]}
                if m != got:
                    ctx.fail("A", "formats:predicates", case, f"model {m} backend {got}")
                if "fields" in r and "json" in spec:
                    f2 = ctx.driver.run([["c20_fields", [l[0] for l in r["fmt"]["levels"]]]])[0]
                    if f2.get("ok") != r["fields"]:
                        ctx.fail("A", "formats:fields", case, f"model {f2} backend {r['fields']}")


def check_determine(ctx, cases, res):
    if crash_or_exc(ctx, "determine", {"cases": len(cases)}, res):
        return
    outs = ctx.driver.run([["c20_determine", c["formats"], c["dtype"], c["union"], c["out_ndim"]] for c in cases])
    nerr = 0
    for c, r, o in zip(cases, res, outs):
        ctx.case("A:determine", c, nontrivial=bool(c["formats"]))
        if "ok" in r:
            if o.get("ok") != r["ok"]:
                ctx.fail("A", "determine", c, f"model {o} backend {r}")
        else:
            nerr += 1
            if not (o.get("err") == "value" and r["err"] == "ValueError"):
                ctx.fail("A", "determine", c, f"model {o} backend {r}")
    ctx.notes["determine_value_errors"] = nerr


def check_roundtrips(ctx, tasks, meta, res):
    reqs, after = [], []
    for t in tasks:
        m, r = meta[t["id"]], res[t["id"]]
        a = m["a"]
        case = {"family": m["family"], "operand": t["operand"]}
        ctx.case(f"C:roundtrip:{m['family']}", case, nontrivial=bool(a.size))
        name = f"roundtrip:{m['family']}"
        if crash_or_exc(ctx, name, case, r):
            continue
        d = r["desc"]
        if not r.get("input_unchanged", True):
            fail_c(ctx, name, case, "the input buffer was modified")
        check_index_dtypes(ctx, name, case, d)
        try:
            dense, posarr, dup = decode(d)
        except Exception as e:  # noqa: BLE001
            fail_c(ctx, name, case, f"constituent arrays do not decode: {type(e).__name__}: {e}")
            continue
        if dup:
            fail_c(ctx, name, case, "an index is stored twice")
        if not same(dense, a) or str(dense.dtype) != str(a.dtype):
            fail_c(ctx, name, case, f"backend array means {dense.tolist()!r:.150} ({dense.dtype}), input {a.tolist()!r:.150} ({a.dtype})")
        reqs.append(["c20_todense", d["fmt"], d["shape"], d["arrays"], list(range(1, len(d["vals"]) + 1))])
        after.append(("todense", case, posarr, None))
        if m["family"] == "numpy":
            back = r["back"]
            bv = dec_vals(back["vals"], back["dtype"]).reshape(back["shape"])
            if back["shape"] != list(a.shape) or back["dtype"] != str(a.dtype) or not same(bv, a):
                fail_c(ctx, name, case, f"to_numpy(asarray(a)) = {bv.tolist()!r:.150} shape {back['shape']} dtype {back['dtype']}")
            pos = list(range(1, a.size + 1))
            reqs.append(["c20_from_numpy", list(a.shape), pos, str(a.dtype)])
            after.append(("from_numpy", case, d, pos))
            reqs.append(["c20_to_numpy", {"fmt": d["fmt"], "shape": d["shape"], "arrays": [], "vals": pos}, False])
            after.append(("to_numpy", case, {"shape": back["shape"], "flat": pos}, None))
        elif m["family"].startswith("scipy"):
            sin, sback = r["scipy_in"], r["scipy_back"]
            keys = ["kind", "shape", "data", "dtype"] + (["row", "col"] if sin["kind"] == "coo" else ["indptr", "indices"])
            if any(sin[k] != sback[k] for k in keys):
                fail_c(ctx, name, case, f"to_scipy(asarray(s)) differs from s: {[(k, sin[k], sback[k]) for k in keys if sin[k] != sback[k]]!r:.300}")
            # level properties are excluded: scipy recomputes `has_canonical_format` (a COO array built from
            # (data, (row, col)) reports False), so NonOrdered/NonUnique may differ without any value changing
            def strip(x):
                x = {k: v for k, v in x.items() if k != "fields"}
                x["fmt"] = dict(x["fmt"], levels=[l[0] for l in x["fmt"]["levels"]])
                return x
            if strip(r["desc2"]) != strip(d):
                fail_c(ctx, name, case, "asarray(to_scipy(asarray(s))) differs from asarray(s)")
            n = len(sin["data"])
            pos = list(range(1, n + 1))
            sj = {k: sin[k] for k in ("kind", "shape") + (("row", "col") if sin["kind"] == "coo" else ("indptr", "indices"))}
            sj["data"] = pos
            width = lambda s: int(np.dtype(s).itemsize * 8)  # noqa: E731
            mj = {"ptr": width(sin.get("ptr_dtype", "int64")), "idx": width(sin["idx_dtype"]), "col": width(sin.get("col_dtype", sin["idx_dtype"])),
                  "canonical": sin["canonical"], "dtype": sin["dtype"]}
            reqs.append(["c20_from_scipy", sj, mj])
            after.append(("from_scipy", case, d, pos))
            reqs.append(["c20_to_scipy", {"fmt": d["fmt"], "shape": d["shape"], "arrays": d["arrays"], "vals": pos}])
            after.append(("to_scipy", case, sj, None))
            reqs.append(["c20_scipy_dense", sj])
            after.append(("todense", case, posarr, None))
        else:
            g = r["given"]
            if g["arrays"] != d["arrays"] or g["vals"] != d["vals"]:
                fail_c(ctx, name, case, "get_constituent_arrays() differs from the arrays given to from_constituent_arrays")
            if "copy" in r:
                if r["copy"] != {k: v for k, v in d.items() if k != "fields"}:
                    fail_c(ctx, name, case, "copy() differs from the original")
                if not r["copy_disjoint"]:
                    fail_c(ctx, name, case, "copy() shares memory with the original's arrays")
            reqs.append(["c20_fields", [l[0] for l in d["fmt"]["levels"]]])
            after.append(("fields", case, d["fields"], None))
    outs = ctx.driver.run(reqs)
    for (what, case, want, extra), o in zip(after, outs):
        ctx.case(f"A:{what}", {"case": case, "what": what}, nontrivial=True)
        if what == "todense":
            if o.get("ok") != [int(v) for v in want.reshape(-1)]:
                ctx.fail("A", f"levels:{what}", case, f"Lean toDense {str(o)[:200]} reference walk {want.reshape(-1).tolist()!r:.200}")
        elif what == "from_numpy" or what == "from_scipy":
            m = o.get("ok")
            if not m or m["fmt"] != want["fmt"] or m["shape"] != want["shape"] or m["arrays"] != want["arrays"] or m["vals"] != extra:
                ctx.fail("A", f"convert:{what}", case, f"model {str(o)[:300]} backend fmt {want['fmt']} arrays {want['arrays']}")
        elif what == "to_numpy":
            if o.get("ok") != want:
                ctx.fail("A", "convert:to_numpy", case, f"model {str(o)[:200]} backend {str(want)[:200]}")
        elif what == "to_scipy":
            if o.get("ok") != want:
                ctx.fail("A", "convert:to_scipy", case, f"model {str(o)[:300]} backend {str(want)[:300]}")
        elif what == "fields":
            if o.get("ok") != want:
                ctx.fail("A", "formats:fields", case, f"model {o} backend {want}")


def check_orders(ctx, tasks, meta, res):
    """dense formats with a level order: semantics (encodeDense), to_numpy model, and the property"""
    reqs, after = [], []
    for t in tasks:
        m, r = meta[t["id"]], res[t["id"]]
        a, order = m["a"], m["order"]
        case = {"shape": list(a.shape), "order": order, "dtype": str(a.dtype), "vals": enc_vals(a)}
        ctx.case("C:to_numpy_order", case, nontrivial=True)
        name = "to_numpy:order"
        if crash_or_exc(ctx, name, case, r):
            continue
        d = r["desc"]
        pos = list(range(1, a.size + 1))
        # meaning of the stored array (Python walk) must be `a`: validates the level semantics and MLIR's convert together
        try:
            dense, posarr, dup = decode(d)
            if not same(dense, a):
                fail_c(ctx, "asformat:dense-order", case, f"asformat(Dense order={order}) means {dense.tolist()!r:.150}")
        except Exception as e:  # noqa: BLE001
            fail_c(ctx, "asformat:dense-order", case, f"does not decode: {e}")
            continue
        reqs.append(["c20_encode_dense", order, list(a.shape), pos])
        after.append(("encode", case, [int(v) for v in positions_of(a, d)], None))
        marr = {"fmt": d["fmt"], "shape": d["shape"], "arrays": [], "vals": pos}
        reqs.append(["c20_to_numpy", marr, False])
        reqs.append(["c20_to_numpy", marr, True])
        reqs.append(["c20_excluded_order", order, list(a.shape)])
        after.append(("to_numpy", case, r, (a, d)))
        after.append(None)
        after.append(None)
    outs = ctx.driver.run(reqs)
    variants = {"argOrder": 0, "order": 0, "neither": 0}
    i = 0
    pending = []
    while i < len(after):
        item = after[i]
        if item[0] == "encode":
            _, case, want, _ = item
            ctx.case("A:encode_dense", case, nontrivial=True)
            if outs[i].get("ok") != want:
                ctx.fail("A", "levels:encode_dense", case, f"model {str(outs[i])[:200]} backend constituent array (as input positions) {want!r:.200}")
            i += 1
            continue
        _, case, r, (a, d) = item
        o_code, o_fixed, o_excl = outs[i], outs[i + 1], outs[i + 2]
        i += 3
        ctx.case("A:to_numpy_order", case, nontrivial=True)
        # the backend's to_numpy output, expressed in positions of its constituent array
        if "back" in r:
            bv = dec_vals(r["back"]["vals"], r["back"]["dtype"])
            stored = dec_vals(d["vals"], d["vals_dtype"])
            # values are all distinct?  no: compare through a re-run of to_numpy's data movement on positions
            got = {"shape": r["back"]["shape"], "vals": bv}
        else:
            got = {"exc": r.get("back_exc")}
        def as_vals(o):
            if "ok" not in o:
                return {"exc": o}
            stored = dec_vals(d["vals"], d["vals_dtype"])
            return {"shape": o["ok"]["shape"], "vals": stored[np.array(o["ok"]["flat"], dtype=np.int64) - 1] if o["ok"]["flat"] else stored[:0]}
        mc, mf = as_vals(o_code), as_vals(o_fixed)
        def eq(x, y):
            if "exc" in x or "exc" in y:
                return "exc" in x and "exc" in y
            return x["shape"] == y["shape"] and bool(np.array_equal(x["vals"], y["vals"]))
        agree_c, agree_f = eq(got, mc), eq(got, mf)
        pending.append((case, agree_c, agree_f, got, mc))
        # leg C: the property
        ok = "back" in r and r["back"]["shape"] == list(a.shape) and bool(np.array_equal(got["vals"].reshape(a.shape), a)) and r["back"]["dtype"] == str(a.dtype)
        if not ok:
            c2 = dict(case, excluded_order=bool(o_excl.get("ok")), model_agrees=agree_c)
            msg = (f"to_numpy of a dense array stored with order {case['order']} returns shape {got.get('shape')} "
                   f"{(got['vals'].tolist() if 'vals' in got else got)!r:.120}; the array is {a.tolist()!r:.120} shape {list(a.shape)}")
            ctx.fail("C", "to_numpy:order", c2, msg, finding=findings.classify(PID, "to_numpy:order", c2, msg))
    # which variant of `storage_shape` does the running code implement?
    all_c = all(p[1] for p in pending)
    all_f = all(p[2] for p in pending)
    ctx.notes["to_numpy_storage_shape_variant"] = "arg_order (as in the source; dense_roundtrip_partial applies)" if all_c and not all_f else (
        "order (fixed; dense_roundtrip_fixed applies)" if all_f and not all_c else ("both agree on the cases of this run" if all_c else "neither"))
    if not all_c and not all_f:
        for case, agree_c, agree_f, got, mc in pending:
            if not agree_c and not agree_f:
                ctx.fail("A", "convert:to_numpy_order", case, f"backend {str(got)[:150]} model(arg_order) {str(mc)[:150]}")


def positions_of(a, d):
    """the backend's constituent array of a dense format as 1-based row-major positions of `a` (values of `a` are
    not distinct in general, so recompute from the format: level-major listing)"""
    order = d["fmt"]["order"]
    idx = np.arange(1, a.size + 1).reshape(a.shape)
    return np.transpose(idx, order).reshape(-1)


def check_ops(ctx, tasks, meta, res):
    reqs, after = [], []
    det_reqs, det_after = [], []
    for t in tasks:
        m, r = meta[t["id"]], res[t["id"]]
        exp = m["expected"]
        case = {"op": m["op"], "families": m["fams"], "dtype": m["dtype"], "task": {k: v for k, v in t.items() if k not in ("id", "kind")}}
        name = f"{m['op']}:{'+'.join(m['fams'])}"
        ctx.case(f"C:{m['op']}:{'+'.join(m['fams'])}:{m['nd']}d", case, nontrivial=bool(np.count_nonzero(exp)))
        if crash_or_exc(ctx, name, case, r):
            continue
        d = r["result"]
        if not r["input_unchanged"]:
            fail_c(ctx, name, case, "an input buffer was modified")
        case["operand_ranks"] = [len(o["shape"]) for o in r["operands"]]
        case["result_rank"] = len(d["shape"])
        for p in r.get("alias", []):
            fail_c(ctx, name, case, f"aliasing: {p}")
        if r.get("invalid_free"):
            fail_c(ctx, name, case, "aliasing: collecting the result calls free() on a NumPy-owned input buffer (prevented by the harness; "
                                    "unprevented, glibc aborts with 'double free detected')")
        if not r["result_after_del"]:
            fail_c(ctx, name, case, "aliasing: the result changed after its operands were deleted and collected")
        check_index_dtypes(ctx, name, case, d)
        try:
            dense, posarr, dup = decode(d)
        except Exception as e:  # noqa: BLE001
            fail_c(ctx, name, case, f"result does not decode: {type(e).__name__}: {e}")
            continue
        if dup:
            fail_c(ctx, name, case, "result stores an index twice")
        if list(dense.shape) != list(exp.shape) or str(dense.dtype) != str(exp.dtype) or not same(dense, exp):
            fail_c(ctx, name, case, f"result means {dense.tolist()!r:.160} ({dense.dtype}, shape {list(dense.shape)}); NumPy gives {exp.tolist()!r:.160} ({exp.dtype})")
        if posarr.size <= 2500:   # the Lean decode is quadratic; the large index-width cases are decoded by the reference walk only
            reqs.append(["c20_todense", d["fmt"], d["shape"], d["arrays"], list(range(1, len(d["vals"]) + 1))])
            after.append((case, posarr))
        # result format against the model of _determine_format
        ofm = [o["fmt"] for o in r["operands"]]
        if m["op"] == "add":
            det_reqs.append(["c20_determine", ofm, m["dtype"], True, None])
            det_after.append((case, d["fmt"]))
        elif m["op"] == "reshape" and not r.get("same_object"):
            det_reqs.append(["c20_determine", ofm, m["dtype"], len(m["to"]) > len(r["operands"][0]["shape"]), len(m["to"])])
            det_after.append((case, d["fmt"]))
    outs = ctx.driver.run(reqs)
    for (case, posarr), o in zip(after, outs):
        ctx.case("A:todense:result", case, nontrivial=True)
        if o.get("ok") != [int(v) for v in posarr.reshape(-1)]:
            ctx.fail("A", "levels:todense", case, f"Lean toDense {str(o)[:200]} reference walk {posarr.reshape(-1).tolist()!r:.200}")
    outs = ctx.driver.run(det_reqs)
    for (case, fmt), o in zip(det_after, outs):
        ctx.case("A:result-format", case, nontrivial=True)
        if o.get("ok") != fmt:
            ctx.fail("A", "determine:result-format", case, f"model {o} backend result format {fmt}")


def replay(ctx, path):
    """re-run one recorded failing case in a fresh worker: an operation (the task is stored in the case), an
    ownership program (rebuilt from the recorded seed/tier, one deletion order) or a dense-order round trip"""
    obj = json.loads(Path(path).read_text())
    f = obj.get("failure") or {}
    case, fam = f.get("case", {}), f.get("family")
    print(f"replaying {fam}: {str(f.get('detail'))[:300]}")
    ctx2 = core.Ctx(PID, obj.get("tier", ctx.tier), int(obj.get("seed", ctx.seed)))
    if isinstance(case, dict) and isinstance(case.get("task"), dict) and case["task"].get("kind") == "consume":
        # the expected values live in the generator: rebuild the run's tasks (same rng stream as run()) and pick this one
        rng = gen.rng_for(ctx2.seed, PID)
        gen_roundtrips(ctx2, rng); gen_orders(ctx2, rng); gen_ops(ctx2, rng); gen_determine(ctx2, rng)
        ownership_programs(ctx2, rng); lifetime_programs(ctx2, rng)
        tasks, meta = gen_consume(ctx2, rng)
        pick = [t for t in tasks if meta[t["id"]]["input"] == case.get("input") and t.get("copy") == case.get("copy")
                and meta[t["id"]]["dt"] == case.get("dtype")]
        if not pick:
            print("case not in this tier/seed")
            return 1
        res = run_tasks(ctx2, pick[:1])
        check_consume(ctx2, pick[:1], meta, res)
    elif isinstance(case, dict) and "task" in case:
        t = dict(case["task"], id="replay", kind="op")
        a_specs = t["operands"]
        arrs = [dec_vals(sp["vals"], sp["dtype"]).reshape(sp["shape"]) if sp["via"] in ("numpy", "scipy") else None for sp in a_specs]
        res = run_tasks(ctx2, [t])
        if any(x is None for x in arrs):
            print(json.dumps(res, default=str)[:3000])
            return 1
        exp = arrs[0] + arrs[1] if t["op"] == "add" else (arrs[0].reshape(t["shape"]) if t["op"] == "reshape" else arrs[0])
        meta = {"replay": {"op": t["op"], "fams": case.get("families", ["?"]), "dtype": case.get("dtype"), "expected": exp,
                           "nd": exp.ndim, "to": t.get("shape")}}
        check_ops(ctx2, [t], meta, res)
    elif isinstance(case, dict) and "program" in case and "delete_order" in case:
        rng = gen.rng_for(ctx2.seed, PID)
        gen_roundtrips(ctx2, rng); gen_orders(ctx2, rng); gen_ops(ctx2, rng); gen_determine(ctx2, rng)   # same rng stream as run()
        progs = {label: (program, names) for label, program, names in ownership_programs(ctx2, rng) + lifetime_programs(ctx2, rng)}
        if case["program"] not in progs:
            print("program not in this tier")
            return 1
        program = progs[case["program"]][0]
        t = {"id": "replay", "kind": "ownership", "program": program, "delete": case["delete_order"]}
        res = run_tasks(ctx2, [t])
        check_ownership(ctx2, case["program"], program, case["delete_order"], res["replay"],
                        {"program": case["program"], "delete_order": case["delete_order"]})
    elif fam == "to_numpy:order":
        a = dec_vals(case["vals"], case["dtype"]).reshape(case["shape"])
        t = {"id": "replay", "kind": "to_numpy_order", "operand": np_spec(a),
             "format": {"factory": "dense", "ndim": a.ndim, "order": case["order"], "dtype": case["dtype"]}}
        res = run_tasks(ctx2, [t])
        check_orders(ctx2, [t], {"replay": {"a": a, "order": case["order"]}}, res)
    else:
        print("not a replayable case (see the replay file for the theorem / correspondence that no longer checks)")
        return 1
    bad = [g for g in ctx2.failures if g["leg"] == "C"]
    for g in bad[:5]:
        print("FAILS:", g["family"], g["detail"][:300], "" if not g.get("finding") else f"[known finding {g['finding']}]")
    if not bad:
        print("passes on the current tree")
    return 1 if bad else 0

"""C07 — fill values are never silently wrong; densification is never implicit."""
from __future__ import annotations

import json
import os
import subprocess
import sys
import warnings
from pathlib import Path

import numpy as np

import c07_ops
import core
import findings
import gen
import impl

PID = "C07"
USES = ["fillPolicy", "fillFacts", "arrayGuard", "denseMix", "fillContribution"]
TRUSTED = [
    "Lean 4 kernel; axioms propext, Classical.choice, Quot.sound only (audited per theorem each run)",
    "tie T1: Gen.fillFacts/Gen.fillPolicy (guards, raw constructions, fill_value= keywords, call graph of every function of "
    "sparse/numba_backend), Gen.arrayGuard (SparseArray.__array__), Gen.denseMix (_Elemwise._get_fill_value) regenerated from the "
    "source by tools/tables.d/C07.py each run; the extractor is validated against behaviour by this run (leg A: every requiresZero / "
    "requiresConsistent / checks / propagates / drops row that the sweep can call behaves as classified)",
    "the extractor resolves calls syntactically (module imports, method names over the array classes); a fill value dropped by "
    "dynamic means (getattr, **kwargs built elsewhere) is outside the table and is left to leg C",
    "NumPy on the densified operand is the reference for leg C; dtypes are outside C07",
]
FILLS = {"0": 0.0, "-0.0": -0.0, "2": 2.0, "nan": float("nan"), "+inf": float("inf"), "-inf": float("-inf"), "True": True}
ZEROISH = {"0", "-0.0"}
SHAPE = (4, 4)


def fills_for(dt):
    if dt == "float":
        return ["0", "-0.0", "2", "nan", "+inf", "-inf"]
    if dt == "int":
        return ["0", "2"]
    return ["False", "True"]


def fill_value(key, dt):
    if dt == "bool":
        return key == "True"
    if dt == "int":
        return int(FILLS[key])
    return FILLS[key]


def operand(rng, dt, key, shape=SHAPE):
    """dense operand whose unstored positions hold the fill; at least 4 unstored and 4 stored positions"""
    fv = fill_value(key, dt)
    n = int(np.prod(shape))
    for _ in range(100):
        mask = rng.random(size=shape) < 0.5
        if 4 <= int(mask.sum()) <= n - 4:
            break
    if dt == "float":
        vals = rng.choice(np.array([-2.0, -1.0, 0.5, 1.0, 3.0]), size=shape)
        d = np.where(mask, vals, np.float64(fv))
    elif dt == "int":
        vals = rng.choice(np.array([-2, -1, 1, 3, 5]), size=shape)
        d = np.where(mask, vals, np.int64(fv)).astype(np.int64)
    else:
        d = np.where(mask, not fv, fv).astype(np.bool_)
    return d, fv


def to_sparse(d, fv, fmt):
    import sparse

    x = sparse.COO.from_numpy(d, fill_value=fv)
    if fmt == "gcxs":
        x = sparse.GCXS.from_coo(x)
    return x


def dense_of(r):
    import scipy.sparse as sp
    import sparse

    if isinstance(r, sparse.SparseArray):
        return r.todense()
    if sp.issparse(r):
        return r.toarray()
    return r


def same(a, b, tol):
    if isinstance(b, tuple | list):
        if not isinstance(a, tuple | list) or len(a) != len(b):
            return f"structure {type(a).__name__}/{len(a) if hasattr(a, '__len__') else '-'} vs {type(b).__name__}/{len(b)}"
        for i, (u, v) in enumerate(zip(a, b)):
            m = same(u, v, tol)
            if m:
                return f"[{i}] {m}"
        return None
    if isinstance(b, np.dtype | type | bool) and not isinstance(b, np.ndarray):
        return None if dense_of(a) == b else f"{a!r} vs {b!r}"
    a, b = np.asarray(dense_of(a)), np.asarray(b)
    if a.shape != b.shape:
        return f"shape {a.shape} vs numpy {b.shape}"
    with np.errstate(all="ignore"):
        if tol and (a.dtype.kind in "fc" or b.dtype.kind in "fc"):
            ok = np.allclose(a, b, rtol=1e-9, atol=1e-12, equal_nan=True)
        elif a.dtype.kind in "fc" or b.dtype.kind in "fc":
            ok = np.array_equal(a, b, equal_nan=True)
        else:
            ok = np.array_equal(a, b)
    if ok:
        return None
    return f"values differ: got {a.tolist()!r:.180} numpy {b.tolist()!r:.180}"


def call(thunk):
    with warnings.catch_warnings(), np.errstate(all="ignore"):
        warnings.simplefilter("ignore")
        try:
            return thunk(), None
        except Exception as e:  # noqa: BLE001
            return None, e


def judge(op, x, y, d, e, fv, nonzero_fill):
    """None = admissible; else (kind, message).  kind 'silent' = returned a wrong answer / returned where it must raise;
    'error' = raised something that is not ValueError although NumPy returns."""
    import sparse

    c07_ops.CUR["fill"] = fv
    ref, ref_err = call(lambda: op.ref(np, d, e))
    got, got_err = call(lambda: op.impl(sparse, x, y))
    if op.kind == "zero" and nonzero_fill:
        if got_err is None:
            return "silent", "zero-fill-only operation returned for a nonzero fill"
        if not isinstance(got_err, ValueError):
            return "error", f"raised {type(got_err).__name__}: {str(got_err)[:120]} (ValueError required)"
        return None
    if got_err is not None:
        if isinstance(got_err, ValueError):
            return None
        if ref_err is not None and impl.err_class(got_err) in ("type", "value", "index", "notimpl"):
            return None
        return "error", f"raised {type(got_err).__name__}: {str(got_err)[:120]}"
    if ref_err is not None:
        return "silent", f"numpy raises {type(ref_err).__name__} but the call returned"
    m = same(got, ref, op.tol)
    if m:
        return "silent", m
    return None


def wrong_only_in_full_lanes(op, x, y, d, e, fv):
    """mechanism test for F-sum-nonfinite-fill: the result is wrong exactly in lanes of the add-reduction that contain no
    unstored element (there the code adds fill * 0, which is NaN for a non-finite fill) and NaN there, right elsewhere"""
    import sparse

    got, err = call(lambda: op.impl(sparse, x, y))
    ref, _ = call(lambda: op.ref(np, d, e))
    if err is not None or ref is None:
        return False
    got, ref = np.asarray(dense_of(got), dtype=np.float64), np.asarray(ref, dtype=np.float64)
    if got.shape != ref.shape:
        return False
    with np.errstate(all="ignore"):
        bad = ~(np.isclose(got, ref, rtol=1e-9, atol=1e-12, equal_nan=True))
    if not bad.any() or not np.isnan(got[bad]).all():
        return False
    # lanes: recompute the reference with every operand replaced by its "is unstored" indicator: a lane is full iff no operand
    # position in it is unstored.  An unstored position of the element-wise argument of the reduction is one where all operands are.
    ux, uy = impl_unstored(d, fv), impl_unstored(e, fv)
    u = ux & uy if c07_ops.base_name(op_key(op)) == "vecdot" else ux
    cnt, _ = call(lambda: op.ref(_CountNS, u.astype(np.float64), u.astype(np.float64)))
    if cnt is None:
        return False
    full = np.asarray(cnt) == 0
    return bool(full.shape == bad.shape and (bad <= full).all())


def impl_unstored(d, fv):
    d = np.asarray(d)
    return (d == fv) | ((d != d) & (fv != fv))


def op_key(op):
    for k, v in c07_ops.OPS.items():
        if v is op:
            return k
    return ""


class _CountNS:
    """stand-in for the numpy namespace in a reference thunk: every add-reduction counts the unstored positions per lane"""

    @staticmethod
    def _count(u, axis=None, **kw):
        return np.sum(u, axis=axis)

    sum = mean = var = std = nansum = nanmean = _count

    @staticmethod
    def vecdot(u, v, axis=-1):
        return np.sum(u, axis=axis)


def sweep(ctx, rng):
    """leg C: every array-accepting name of sparse.__all__ x fills x formats"""
    import sparse

    missing = sorted(set(sparse.__all__) - c07_ops.covered_names())
    for n in missing:
        ctx.fail("C", n, {"name": n}, "name of sparse.__all__ is not in the sweep registry (harness/c07_ops.py): classify it")
    stale = sorted(c07_ops.covered_names() - set(sparse.__all__) - {"COO", "GCXS", "DOK"})
    ctx.notes["registry"] = {"ops": len(c07_ops.OPS), "names": len({c07_ops.base_name(k) for k in c07_ops.OPS}), "no_array": len(c07_ops.NO_ARRAY),
                             "not_in_all": stale}
    observed = {}  # (name, fmt, fill) -> 'ok' | 'raises' | 'wrong' ...  (used by leg A)
    baseline_fail = []
    reps = 1 if ctx.quick else 12
    for key, op in c07_ops.OPS.items():
        name = c07_ops.base_name(key)
        for fmt in op.formats:
            for dt in op.dtypes:
                fkeys = fills_for(dt)
                base_ok = True
                for fk in fkeys:
                    for rep in range(reps if fk not in ("0", "False") else 1):
                        d, fv = operand(rng, dt, fk)
                        e, _ = operand(rng, dt, fk)
                        x, y = to_sparse(d, fv, fmt), to_sparse(e, fv, fmt)
                        nonzero = fk not in ZEROISH and fk != "False"
                        case = {"op": key, "format": fmt, "dtype": dt, "fill": fk, "x": d.tolist(), "y": e.tolist()}
                        res = judge(op, x, y, d, e, fv, nonzero)
                        if fk in ("0", "False"):
                            ctx.case(f"C:base:{name}", case, nontrivial=False)
                            if res is not None:
                                base_ok = False
                                baseline_fail.append({"op": key, "format": fmt, "dtype": dt, "detail": res[1][:100]})
                            continue
                        if not base_ok:
                            continue
                        ctx.case(f"C:{name}:{fmt}", case, nontrivial=True)
                        observed.setdefault((name, fmt), []).append((fk, res))
                        if res is not None:
                            msg = f"{res[0]}: {res[1]}"
                            if name in c07_ops.ADD_REDUCTIONS and res[0] == "silent":
                                case["wrong_only_in_full_lanes"] = wrong_only_in_full_lanes(op, x, y, d, e, fv)
                            ctx.fail("C", key, case, msg, finding=findings.classify(PID, key, case, msg))
                if not base_ok:
                    continue
                # mixed fills: the second operand has a different fill
                if op.kind in ("join", "zero") or name in c07_ops.BINARY or key == "where[3]":
                    for fk in [k for k in fkeys if k not in ("0", "False")][: (2 if ctx.quick else 9)]:
                        gk = "0" if dt != "bool" else "False"
                        d, fv = operand(rng, dt, fk)
                        e, gv = operand(rng, dt, gk)
                        x, y = to_sparse(d, fv, fmt), to_sparse(e, gv, fmt)
                        case = {"op": key, "format": fmt, "dtype": dt, "fill": fk, "fill_y": gk, "x": d.tolist(), "y": e.tolist(), "mixed": True}
                        ctx.case(f"C:mixed:{name}:{fmt}", case, nontrivial=True)
                        if op.kind == "join":
                            got, err = call(lambda: op.impl(sparse, x, y))
                            res = None if isinstance(err, ValueError) else ("silent" if err is None else "error",
                                                                             "join of differently filled arrays " + ("returned" if err is None else f"raised {type(err).__name__}"))
                            if fk == "-0.0":
                                res = None if (err is None or isinstance(err, ValueError)) else res
                        else:
                            res = judge(op, x, y, d, e, fv, True)
                        if res is not None:
                            msg = f"{res[0]}: {res[1]}"
                            ctx.fail("C", key, case, msg, finding=findings.classify(PID, key, case, msg))
    ctx.notes["baseline_fails"] = baseline_fail[:40]
    ctx.count("baseline_fail_families", len(baseline_fail))
    return observed


# ---- joins of operands with DIFFERENT dtypes ---------------------------------------------------------

MIXED_DTYPE_PAIRS = [
    # (dtype, fill) of the two operands: the fills differ, but collide when one is cast to the other's dtype
    ((np.int64, 1), (np.float64, 1.5)), ((np.bool_, True), (np.int64, 2)), ((np.uint8, 0), (np.float64, 0.25)),
    ((np.int32, -1), (np.float32, -1.75)), ((np.int8, 3), (np.int64, 259)), ((np.float32, 0.1), (np.float64, 0.1)),
    # fills that are equal as numbers although the dtypes differ: the join may go through, and must then be right
    ((np.int64, 2), (np.float64, 2.0)), ((np.uint8, 0), (np.float64, 0.0)),
]


def mixed_dtype_joins(ctx, rng):
    """concatenate / concat / stack of operands with different dtypes, both orders, every combination of formats: differently
    filled operands must raise ValueError (a fill comparison that casts one fill to the other operand's dtype loses the
    difference); whatever is accepted must equal NumPy on the densified operands at every position"""
    import itertools

    import sparse

    fmts = ["coo", "gcxs", "dok"]
    combos = list(itertools.product(fmts, fmts))
    if ctx.quick:
        combos = [("coo", "coo"), ("gcxs", "gcxs"), ("coo", "gcxs"), ("dok", "coo"), ("gcxs", "dok")]
    joins = [("concatenate", lambda arrs: sparse.concatenate(arrs, axis=0), lambda ds: np.concatenate(ds, axis=0)),
             ("concat", lambda arrs: sparse.concat(arrs, axis=1), lambda ds: np.concatenate(ds, axis=1)),
             ("stack", lambda arrs: sparse.stack(arrs, axis=0), lambda ds: np.stack(ds, axis=0))]
    n = 0
    for (dt_a, fv_a), (dt_b, fv_b) in MIXED_DTYPE_PAIRS:
        for order in (0, 1):
            spec = [(dt_a, fv_a), (dt_b, fv_b)][:: 1 if order == 0 else -1]
            dense = []
            for dt, fv in spec:
                d = np.full((2, 3), fv, dtype=dt)
                d[0, 0] = dt(1) if dt is not np.bool_ else (not fv)
                d[1, 2] = dt(4) if dt is not np.bool_ else (not fv)
                dense.append(d)
            differ = float(spec[0][1]) != float(spec[1][1])
            for fa, fb in combos:
                arrs = []
                for (dt, fv), d, f in zip(spec, dense, (fa, fb)):
                    c = sparse.COO.from_numpy(d, fill_value=dt(fv))
                    arrs.append(c if f == "coo" else sparse.GCXS.from_coo(c) if f == "gcxs" else sparse.DOK.from_coo(c))
                for jname, join, npjoin in joins:
                    got, err = call(lambda: join(arrs))
                    case = {"op": jname, "formats": [fa, fb], "dtypes": [np.dtype(t).name for t, _ in spec], "fills": [repr(v) for _, v in spec],
                            "mixed_dtype": True, "x": dense[0].tolist(), "y": dense[1].tolist()}
                    ctx.case(f"C:mixed-dtype-join:{jname}", case, nontrivial=True)
                    n += 1
                    if isinstance(err, ValueError):
                        continue
                    if err is not None:
                        # a join that the format combination does not offer at all (same-dtype, same-fill baseline fails too) is not C07's
                        base = [a.astype(np.float64) if hasattr(a, "astype") else a for a in arrs[:1]] * 2
                        _, berr = call(lambda: join(base))
                        if berr is not None:
                            continue
                        msg = f"error: raised {type(err).__name__}: {str(err)[:120]} (ValueError required)"
                        ctx.fail("C", jname, case, msg, finding=findings.classify(PID, jname, case, msg))
                        continue
                    ref = npjoin(dense)
                    m = same(got, ref, False)
                    if differ:
                        msg = "silent: join of differently filled arrays (different dtypes) returned" + (f"; {m}" if m else "")
                        ctx.fail("C", jname, case, msg, finding=findings.classify(PID, jname, case, msg))
                    elif m:
                        msg = f"silent: {m}"
                        ctx.fail("C", jname, case, msg, finding=findings.classify(PID, jname, case, msg))
    ctx.count("mixed_dtype_joins", n)
    _ = rng


# ---- leg A: the generated table against behaviour -------------------------------------------------

TABLE_TO_SWEEP = {"sparse.where": "where[1]"}


def leg_a(ctx, observed, table):
    """T1 validation: a row classified requiresZero / requiresConsistent / drops / propagates must behave like that"""
    import sparse

    pol = {r["name"]: r["policy"] for r in table if r["public"]}
    rng = gen.rng_for(ctx.seed, PID + "A")
    d, fv = operand(rng, "float", "2")
    x = to_sparse(d, fv, "coo")
    probes = 0
    for name, p in sorted(pol.items()):
        if not name.startswith("sparse."):
            continue
        short = name[len("sparse."):]
        keys = [k for k in c07_ops.OPS if c07_ops.base_name(k) == short]
        if short == "where":
            keys = ["where[1]"]
        if not keys:
            continue
        for key in keys[:1]:
            op = c07_ops.OPS[key]
            if "float" not in op.dtypes or "coo" not in op.formats:
                continue
            e, _ = operand(rng, "float", "2")
            y = to_sparse(e, fv, "coo")
            got, err = call(lambda: op.impl(sparse, x, y))
            probes += 1
            case = {"row": name, "policy": p, "op": key, "fill": 2}
            ctx.case(f"A:{p}", case, nontrivial=True)
            if p == "requiresZero":
                if not isinstance(err, ValueError):
                    ctx.fail("A", f"table:{name}", case, f"classified requiresZero but fill 2 gave {type(err).__name__ if err else 'a result'}")
            elif p == "requiresConsistent":
                e0, g0 = operand(rng, "float", "0")
                got2, err2 = call(lambda: op.impl(sparse, x, to_sparse(e0, g0, "coo")))
                if err is not None or not isinstance(err2, ValueError):
                    ctx.fail("A", f"table:{name}", case, f"classified requiresConsistent but same fill gave {err!r}, mixed fill gave {err2!r}")
            elif p == "propagates":
                if err is None and isinstance(got, sparse.SparseArray) and key not in ("full_like", "zeros_like", "ones_like", "result_type"):
                    if not impl_equiv(got.fill_value, fv):
                        ctx.fail("A", f"table:{name}", case, f"classified propagates but the result's fill is {got.fill_value!r} for operand fill {fv!r}")
            elif p == "drops":
                if err is None and isinstance(got, sparse.SparseArray) and impl_equiv(got.fill_value, fv):
                    ctx.fail("A", f"table:{name}", case, "classified drops but the result carries the operand's fill")
    ctx.count("table_probes", probes)


def impl_equiv(a, b):
    a, b = np.asarray(a), np.asarray(b)
    return bool(a == b) or bool(a != a and b != b)


# ---- coercion guard and the dense-mix rule --------------------------------------------------------

def child(setting: str, seed: int) -> dict:
    env = dict(os.environ)
    env["SPARSE_AUTO_DENSIFY"] = setting
    env.setdefault("NUMBA_CACHE_DIR", "/var/tmp/verif-numba-cache")
    r = subprocess.run([sys.executable, str(Path(__file__).with_name("c07_child.py")), str(seed)], env=env, capture_output=True, text=True, timeout=3600)
    if r.returncode != 0:
        raise RuntimeError(f"c07_child failed (SPARSE_AUTO_DENSIFY={setting}): {r.stderr[-600:]}")
    return json.loads(r.stdout.strip().splitlines()[-1])


def coercion(ctx):
    outs = ctx.driver.run([["c07_array_guard", False], ["c07_array_guard", True]] +
                          [["c07_dense_mix", c, s] for c in (False, True) for s in (False, True)])
    guard = {False: outs[0], True: outs[1]}
    mix = {(c, s): outs[2 + 2 * i + j] for i, c in enumerate((False, True)) for j, s in enumerate((False, True))}
    for setting, flag in (("0", False), ("1", True)):
        rep = child(setting, ctx.seed)
        if rep["auto_densify"] != flag:
            ctx.fail("A", "settings", {"SPARSE_AUTO_DENSIFY": setting}, f"AUTO_DENSIFY is {rep['auto_densify']}")
        want = guard[flag]
        for c in rep["coercions"]:
            case = {"SPARSE_AUTO_DENSIFY": setting, **{k: c[k] for k in ("how", "format", "fill")}}
            ctx.case(f"C:coerce:{setting}", case, nontrivial=True)
            # model (generated arrayGuard) vs implementation
            model = "dense" if "ok" in want else want.get("err")
            got = "dense" if c["outcome"] == "dense" else c["outcome"]
            if c["explicit"]:
                if c["outcome"] != "dense" or not c["equal"]:
                    ctx.fail("C", "explicit-densify", case, f"explicit request {c['how']} gave {c['outcome']} equal={c.get('equal')}")
                continue
            if c["via_array"]:
                if got != model:
                    ctx.fail("A", "model:arrayGuard", case, f"model {model} implementation {got} ({c.get('detail', '')[:100]})")
                if flag and not c.get("equal", False):
                    ctx.fail("C", "auto-densify", case, f"AUTO_DENSIFY=1: {c['how']} is not todense()")
                if not flag and c["outcome"] != "runtime":
                    msg = f"implicit coercion {c['how']} gave {c['outcome']} instead of RuntimeError"
                    ctx.fail("C", "implicit-coercion", case, msg, finding=findings.classify(PID, "implicit-coercion", case, msg))
            else:
                # protocol routes that must not densify in either setting (they never reach __array__)
                if c["outcome"] == "dense" and not flag:
                    msg = f"{c['how']} returned a dense array without AUTO_DENSIFY"
                    ctx.fail("C", "implicit-coercion", case, msg, finding=findings.classify(PID, "implicit-coercion", case, msg))
        for m in rep["mix"]:
            case = {"SPARSE_AUTO_DENSIFY": setting, **{k: m[k] for k in ("expr", "format", "fill", "const_fill", "dense_has_result_shape")}}
            ctx.case("A:denseMix", case, nontrivial=True)
            w = mix[(m["const_fill"], m["dense_has_result_shape"])]
            model = w["ok"] if "ok" in w else w["err"]
            if m["outcome"] != model:
                ctx.fail("A", "model:denseMix", case, f"model {model} implementation {m['outcome']} ({m.get('detail', '')[:100]})")
            # property: a mix that cannot stay sparse raises ValueError unless a dense operand already has the result's shape
            if m["outcome"] in ("sparse", "dense") and not m["equal"]:
                ctx.fail("C", "dense-mix", case, "result differs from NumPy on the densified operands")
            if m["outcome"] == "dense" and not m["dense_has_result_shape"]:
                ctx.fail("C", "dense-mix", case, "densified although no dense operand has the result's shape")
            if m["outcome"] not in ("sparse", "dense", "value"):
                ctx.fail("C", "dense-mix", case, f"raised {m['outcome']} ({m.get('detail', '')[:100]})")


def fill_contribution(ctx):
    """leg A for the generated `fillContribution` (fill correction of add-reductions): model lane sums vs the implementation, and
    the witness of F-sum-nonfinite-fill: the model's premise `fillContribution(+inf, 0) = nan` holds <=> the real sum is NaN"""
    import sparse

    fills = [("2", 2.0), ("inf", np.inf), ("-inf", -np.inf), ("nan", np.nan), ("0", 0.0), ("-3", -3.0)]
    reqs, metas = [], []
    for fk, fv in fills:
        for missing in (0, 1, 2, 3):
            stored = 3 - missing
            reqs.append(["c07_fill_contribution", fk if fk in ("inf", "-inf", "nan") else int(fk), missing, stored])
            metas.append((fk, fv, missing, stored))
    outs = ctx.driver.run(reqs)

    def val(j):
        return {"inf": np.inf, "-inf": -np.inf, "nan": np.nan}.get(j, j) if isinstance(j, str) else float(j)
    active = None
    for (fk, fv, missing, stored), o in zip(metas, outs):
        m = o["ok"]
        for fmt in ("coo", "gcxs"):
            d = np.full((2, 3), fv)
            d[0, :stored] = 1.0
            d[1, :2] = 1.0  # the second lane always keeps one unstored element, so the array keeps its fill
            x = to_sparse(d, fv, fmt)
            got, err = call(lambda: np.asarray(dense_of(x.sum(axis=1)))[0])
            case = {"fill": fk, "missing": missing, "stored_sum": stored, "format": fmt, "excluded": m["excluded"]}
            ctx.case("A:fillContribution", case, nontrivial=True)
            want = val(m["lane_sum"])
            if err is not None or not (got == want or (got != got and want != want)):
                ctx.fail("A", "model:fillContribution", case, f"model lane sum {m['lane_sum']} implementation {got!r} {err!r}")
            spec = val(m["lane_sum_spec"])
            ref = d.sum(axis=1)[0]
            if not (spec == ref or (spec != spec and ref != ref)):
                ctx.fail("B", "spec:sumRep", case, f"spec lane sum {m['lane_sum_spec']} numpy {ref!r}")
            if not m["excluded"] and m["lane_sum"] != m["lane_sum_spec"]:
                ctx.fail("A", "model:fillContribution", case, "model differs from the specification outside the excluded region")
        if fk == "inf" and missing == 0:
            active = m["code"] == "nan"
    d = np.array([[1.0, np.inf], [2.0, 3.0]])
    got, err = call(lambda: sparse.COO.from_numpy(d, fill_value=np.inf).sum(axis=0).todense())
    wrong = err is None and not np.array_equal(got, d.sum(axis=0), equal_nan=True)
    ctx.case("A:witness", {"witness": "sum(COO([[1,inf],[2,3]], fill=inf), axis=0)", "model_active": active, "code_wrong": wrong}, nontrivial=True)
    if active != wrong:
        ctx.fail("A", "witness:sum-nonfinite-fill", {"model_active": active}, f"model premise {active}, real sum {'wrong' if wrong else 'right'}: {got!r} {err!r}")
    ctx.notes["fill_contribution"] = {"counterexample_active": active, "witness_on_code": "wrong" if wrong else "right"}
    ctx.notes["partial"] = {"fill_contribution": "ExcludedFullLane (no unstored element in the lane and a non-finite fill)" if active else
                            "none: the full statement holds on this tree"}


def replay_witness(ctx, summary):
    """the witnesses of the repaired finding F-diag-fill stay in the corpus: the table says `drops` <=> the code is wrong"""
    import sparse

    d = np.array([[5.0, 1.0], [2.0, 5.0]])
    x = sparse.COO.from_numpy(d, fill_value=5.0)
    res = {}
    for name, thunk, ref in (("sparse.diagonal", lambda: sparse.diagonal(x), lambda: np.diagonal(d)),
                             ("sparse.diagonalize", lambda: sparse.diagonalize(sparse.COO.from_numpy(np.array([5.0, 1.0]), fill_value=5.0)),
                              lambda: np.diag(np.array([5.0, 1.0])))):
        got, err = call(thunk)
        wrong = err is None and same(got, ref(), False) is not None
        res[name] = "wrong" if wrong else ("raises " + type(err).__name__ if err is not None else "right")
        in_table = name in summary["publicDrops"]
        case = {"witness": name, "table_says_drops": in_table, "code": res[name], "fill": "5"}
        ctx.case("A:witness", case, nontrivial=True)
        if in_table != wrong:
            ctx.fail("A", f"witness:{name}", case, f"table says drops={in_table} but the code is {res[name]}")
        if wrong:
            ctx.fail("C", name.split(".")[1], case, f"silent: {name} with fill 5 differs from NumPy on the densified operand")
    ctx.notes["witness_replay"] = res


def export_guard_histories(ctx, rng):
    """zero-fill-only exports (tocsr / tocsc / to_scipy_sparse / tocsr of GCXS) must refuse a non-zero fill value in EVERY state of
    the array: fresh, cache-enabled, already exported once with fill 0 and then re-wrapped with another fill value (the copy constructor
    shares the instance dictionary, memoised exports included), results of element-wise operations on an exported array"""
    import sparse

    def refuses(x, what):
        try:
            with warnings.catch_warnings():
                warnings.simplefilter("ignore")
                r = what(x)
        except ValueError:
            return None
        except Exception as e:  # noqa: BLE001
            return f"raised {type(e).__name__}: {str(e)[:100]} (ValueError expected)"
        return f"returned {type(r).__name__} although the fill value is {x.fill_value!r}: the fill value is silently dropped"

    exports = {"tocsr": lambda x: x.tocsr(), "tocsc": lambda x: x.tocsc(), "to_scipy_sparse": lambda x: x.to_scipy_sparse(),
               "scipy.sparse.csr_matrix(x.to_scipy)": lambda x: x.asformat("gcxs").to_scipy_sparse()}
    for k in range(6 if ctx.quick else 60):
        d = gen.dense(rng, (int(rng.integers(1, 5)), int(rng.integers(1, 5))), 0, density=0.5)
        for cache in (False, True):
            for v in (5, -1.5, float("nan"), float("inf")):
                base = sparse.COO.from_numpy(d.astype(np.float64))
                if cache:
                    base.enable_caching()
                states = {"fresh": lambda: sparse.COO(base.coords, base.data, base.shape, fill_value=v, cache=cache)}
                for ename, ex in exports.items():
                    def rewrap(ex=ex):
                        b = sparse.COO(base.coords.copy(), base.data.copy(), base.shape, cache=cache)
                        ex(b)  # exported once while the fill value was 0
                        return sparse.COO(b, fill_value=v)
                    states[f"exported({ename}) then COO(x, fill_value=v)"] = rewrap
                    def added(ex=ex):
                        b = sparse.COO(base.coords.copy(), base.data.copy(), base.shape, cache=cache)
                        ex(b)
                        return b + v
                    states[f"exported({ename}) then x + v"] = added
                for sname, mk in states.items():
                    try:
                        y = mk()
                    except Exception:  # noqa: BLE001 — constructing the state is not what is tested here
                        continue
                    for ename, ex in exports.items():
                        case = {"dense": d.tolist(), "cache": cache, "fill": repr(v), "state": sname, "export": ename}
                        ctx.case(f"C:export-guard:{ename}", case, nontrivial=True)
                        msg = refuses(y, ex)
                        if msg:
                            ctx.fail("C", f"export:{ename}", case, msg, finding=findings.classify(PID, ename, case, msg))


def run(ctx):
    ctx.trusted = TRUSTED
    ctx.assumptions = ["NumPy on the densified operand is the specification of every swept function (diagonalize: its documented definition)",
                       "operands are 4x4 with at least four stored and four unstored positions; element values are small exact numbers",
                       "a function x format whose zero-fill baseline already fails is other properties' business and is skipped here (listed in baseline_fails)"]
    core.prove(ctx, PID, uses=USES)
    out = ctx.driver.run([["c07_summary"], ["c07_table"]])
    summary, table = out[0]["ok"], out[1]["ok"]
    ctx.notes["fill_policy"] = {k: summary[k] for k in ("sound", "publicDrops", "privateDrops", "guardsOk", "isSolution")}
    hist = {}
    for r in table:
        if r["public"]:
            hist[r["policy"]] = hist.get(r["policy"], 0) + 1
    ctx.notes["policy_histogram_public"] = hist
    # rows that break fill_policy_sound (prove() has already reported the theorem): the search below starts there
    suspects = list(summary["publicDrops"])
    pol = {r["name"]: r["policy"] for r in table}
    for n in summary["zeroOnly"]:
        if pol.get(n) != "requiresZero":
            suspects.append(n)
    for n in summary["joins"]:
        if pol.get(n) != "requiresConsistent":
            suspects.append(n)
    for n in summary["exports"]:
        if pol.get(n) != "checks":
            suspects.append(n)
    ctx.notes["suspect_rows"] = suspects
    rng = gen.rng_for(ctx.seed, PID)
    replay_witness(ctx, summary)
    fill_contribution(ctx)
    observed = sweep(ctx, rng)
    mixed_dtype_joins(ctx, rng)
    export_guard_histories(ctx, rng)
    leg_a(ctx, observed, table)
    coercion(ctx)
    ctx.cov["rule"] = ("leg C: every name of sparse.__all__ that accepts an array (registry harness/c07_ops.py; the check fails if a name is "
                       "unclassified) x fills {0,-0.0,2,NaN,+inf,-inf} (float), {0,2} (int-only functions), {False,True} (bool) x COO/GCXS, "
                       "oracle: equals NumPy on the densified operand everywhere or ValueError; zero-fill-only functions must raise for a "
                       "nonzero fill; joins of differently filled arrays must raise; mixed-fill binary operations; np.asarray/np.array/"
                       "__array__/implicit coercions under SPARSE_AUTO_DENSIFY=0 and =1 (one subprocess each); the sparse/dense mix rule. "
                       "leg A: generated table vs behaviour, generated arrayGuard/denseMix vs behaviour. non-trivial = nonzero fill or a "
                       "coercion/mix case; distinct by content hash")


def replay(ctx, path):
    import sparse

    obj = json.loads(Path(path).read_text())
    f = obj.get("failure") or {}
    case = f.get("case") or {}
    print(json.dumps({"replaying": f.get("family"), "detail": f.get("detail")}, indent=1))
    key = case.get("op")
    if key in c07_ops.OPS and "x" in case:
        op = c07_ops.OPS[key]
        dt = case["dtype"]
        npdt = {"float": np.float64, "int": np.int64, "bool": np.bool_}[dt]
        d, e = np.array(case["x"], dtype=npdt), np.array(case["y"], dtype=npdt)
        fv = fill_value(case["fill"], dt)
        gv = fill_value(case.get("fill_y", case["fill"]), dt)
        x, y = to_sparse(d, fv, case["format"]), to_sparse(e, gv, case["format"])
        res = judge(op, x, y, d, e, fv, case["fill"] not in ZEROISH and case["fill"] != "False")
        print("now:", res)
        return 1 if res else 0
    return 0

"""C15 — tie for the arithmetic rules of SparseV.Model.Width: the model's rule functions against real NumPy.

Exhaustive for the 8-bit types (all 256 x 256 operand pairs per operator; every Python int in [-260, 260] against
all 256 array values, both operand orders and the in-place forms), boundary values for 16/32/64 bits.
A disagreement means the *model* of NumPy is wrong (leg B): it is reported as a broken correspondence, never
as a finding.
"""
from __future__ import annotations

import operator
import warnings

import numpy as np

IDX = ["int8", "uint8", "int16", "uint16", "int32", "uint32", "int64", "uint64"]
OPS = {"add": operator.add, "sub": operator.sub, "mul": operator.mul, "floordiv": operator.floordiv, "mod": operator.mod}
IOPS = {"add": operator.iadd, "sub": operator.isub, "mul": operator.imul, "floordiv": operator.ifloordiv, "mod": operator.imod}


def ty(t):
    t = np.dtype(t)
    return [t.kind == "i", t.itemsize * 8]


def ty_name(j):
    return None if j is None else f"{'int' if j[0] else 'uint'}{j[1]}"


def boundary(t):
    """values of dtype t at and next to its limits, around zero and in the middle"""
    ii = np.iinfo(t)
    lo, hi = int(ii.min), int(ii.max)
    vals = {lo, lo + 1, lo + 2, hi, hi - 1, hi - 2, 0, 1, 2, 3, 5, 7, hi // 2, hi // 2 + 1, hi // 3, 100, 127, 128, 255, 256}
    if lo < 0:
        vals |= {-1, -2, -3, -7, lo // 2, lo // 2 - 1, -100, -128, -129}
    return sorted(v for v in vals if lo <= v <= hi)


PY_INTS = sorted({s * (2 ** e) + d for e in (0, 7, 8, 15, 16, 31, 32, 63, 64, 70) for s in (1, -1) for d in (-1, 0, 1)} | {0, 3, -3, 100, -100, 200, -200, 40000})


def _np(thunk):
    with warnings.catch_warnings(), np.errstate(all="ignore"):
        warnings.simplefilter("ignore")
        try:
            return thunk()
        except OverflowError:
            return "overflow"
        except TypeError:  # includes numpy's UFuncTypeError
            return "type"


def _tolist(a):
    return [int(v) for v in np.asarray(a).ravel().tolist()]


def run(ctx, quick):
    """compare every rule; returns the number of compared values"""
    n = 0
    reqs, checks = [], []

    def ask(req, want, what):
        reqs.append(req)
        checks.append((want, what))

    # ---- representable range ------------------------------------------------------------------------
    for t in IDX:
        ii = np.iinfo(t)
        ask(["c15_range", ty(t)], [int(ii.min), int(ii.max) + 1], f"range {t}")
    # ---- R1 array ∘ array, same dtype ---------------------------------------------------------------
    for t in IDX:
        ii = np.iinfo(t)
        if np.dtype(t).itemsize == 1:
            vals = list(range(int(ii.min), int(ii.max) + 1))  # exhaustive
        else:
            vals = boundary(t)
        a = np.array(vals, dtype=t)
        for name, f in OPS.items():
            want = _np(lambda: f(a[:, None], a[None, :]))
            assert want.dtype == np.dtype(t)
            ask(["c15_arrarr", ty(t), name, vals, vals], [[int(v) for v in row] for row in want.tolist()], f"R1 {t} {name}")
            n += len(vals) ** 2
    # ---- R2 array ∘ Python int (both orders, in-place) ----------------------------------------------
    for t in IDX:
        ii = np.iinfo(t)
        if np.dtype(t).itemsize == 1:
            vals = list(range(int(ii.min), int(ii.max) + 1))
            ks = sorted(set(range(-260, 261)) | set(PY_INTS))
        else:
            vals = boundary(t)
            ks = PY_INTS
        a = np.array(vals, dtype=t)
        for name, f in OPS.items():
            want = []
            for k in ks:
                r = _np(lambda: f(a, k))
                want.append(r if isinstance(r, str) else _tolist(r))
                if not isinstance(r, str):
                    assert r.dtype == np.dtype(t), (t, name, k, r.dtype)
            ask(["c15_arrpy", ty(t), name, vals, ks, False], want, f"R2 {t} array {name} int")
            want = []
            for k in ks:
                r = _np(lambda: f(k, a))
                want.append(r if isinstance(r, str) else _tolist(r))
            ask(["c15_arrpy", ty(t), name, vals, ks, True], want, f"R2 {t} int {name} array")
            want = []
            for k in ks:
                def inplace(k=k):
                    b = a.copy()
                    IOPS[name](b, k)
                    return b
                r = _np(inplace)
                want.append(r if isinstance(r, str) else _tolist(r))
            ask(["c15_arrpy", ty(t), name, vals, ks, False], want, f"R2 {t} array {name}= int (in place)")
            n += 3 * len(vals) * len(ks)
    # ---- R3 promotion table and array ∘ NumPy scalar -------------------------------------------------
    want = []
    for t1 in IDX:
        row = []
        for t2 in IDX:
            r = np.promote_types(t1, t2)
            row.append(ty(r) if r.kind in "iu" else None)
        want.append(row)
    ask(["c15_promote", [ty(t) for t in IDX]], want, "R3 promotion table")
    n += 64
    for t in IDX:
        small = np.dtype(t).itemsize == 1
        vals = list(range(int(np.iinfo(t).min), int(np.iinfo(t).max) + 1)) if small else boundary(t)
        a = np.array(vals, dtype=t)
        for t2 in (["int64"] if quick and not small else IDX):
            ks = [k for k in (sorted(set(range(-260, 261)) | set(PY_INTS)) if small and t2 == "int64" else PY_INTS + boundary(t2))
                  if np.iinfo(t2).min <= k <= np.iinfo(t2).max]
            rt = np.promote_types(t, t2)
            for name in ("add", "mul", "sub"):
                f = OPS[name]
                if rt.kind in "iu":
                    wv = []
                    for k in ks:
                        r = _np(lambda: f(a, np.dtype(t2).type(k)))
                        assert r.dtype == rt, (t, t2, r.dtype, rt)
                        wv.append(_tolist(r))
                    want = {"ty": ty(rt), "vals": wv}
                else:
                    r = f(a, np.dtype(t2).type(ks[0]))
                    assert r.dtype.kind == "f"
                    want = {"ty": None, "vals": [[None] * len(vals) for _ in ks]}
                ask(["c15_arrnp", ty(t), ty(t2), name, vals, ks], want, f"R3 {t} {name} np.{t2}")
                n += len(vals) * len(ks)
            # ---- R4 in-place with a NumPy scalar ---------------------------------------------------
            want = []
            for k in ks:
                def inplace(k=k):
                    b = a.copy()
                    b += np.dtype(t2).type(k)
                    return b
                r = _np(inplace)
                want.append(r if isinstance(r, str) else _tolist(r))
            ask(["c15_iaddnp", ty(t), ty(t2), vals, ks], want, f"R4 {t} += np.{t2}")
            n += len(vals) * len(ks)
    # ---- R5 unchecked conversion ---------------------------------------------------------------------
    src = sorted(set(range(-1000, 1001)) | set(v for v in PY_INTS if -2 ** 63 <= v < 2 ** 63) | {2 ** 63 - 1, -2 ** 63, 65535, 65536, 65537, -65536, 32767, 32768, -32768, -32769, 2 ** 32 + 5})
    a64 = np.array(src, dtype=np.int64)
    for t in IDX:
        ask(["c15_cast", ty(t), src], _tolist(_np(lambda: a64.astype(t))), f"R5 int64.astype({t})")
        b = np.zeros(len(src), dtype=t)
        with warnings.catch_warnings():
            warnings.simplefilter("ignore")
            b[:] = a64
        ask(["c15_cast", ty(t), src], _tolist(b), f"R5 {t}[:] = int64 array")
        n += 2 * len(src)
    # uint64 sources above 2**63
    big = [2 ** 63, 2 ** 63 + 1, 2 ** 64 - 1, 2 ** 64 - 256, 255, 0]
    ab = np.array(big, dtype=np.uint64)
    for t in IDX:
        ask(["c15_cast", ty(t), big], _tolist(ab.astype(t)), f"R5 uint64.astype({t})")
        n += len(big)
    # ---- R6 safe cast to intp -------------------------------------------------------------------------
    want = []
    for t in IDX:
        c = np.array([0, 2], dtype=t)
        r1 = _np(lambda: np.add.reduceat(np.arange(5), c))
        r3 = _np(lambda: np.arange(5)[c])
        r4 = _np(lambda: np.ravel_multi_index(c[None, :], (5,)))
        assert isinstance(r3, np.ndarray) and isinstance(r4, np.ndarray)  # fancy indexing / ravel_multi_index accept every integer dtype
        want.append(not isinstance(r1, str))
    ask(["c15_safeintp", [ty(t) for t in IDX]], want, "R6 ufunc.reduceat accepts the index dtype")
    n += 8
    # ---- R7 can_store, min_scalar_type -----------------------------------------------------------------
    from sparse.numba_backend._utils import can_store, get_out_dtype

    scal = sorted(set(PY_INTS) | {126, 127, 128, 129, 254, 255, 256, 257, 32766, 32767, 32768, 65534, 65535, 65536, 65537, 2 ** 31 - 1, 2 ** 31, 2 ** 32 - 1, 2 ** 32})
    for t in IDX:
        ask(["c15_canstore", ty(t), scal], [bool(can_store(np.dtype(t), s)) for s in scal], f"R7 can_store({t}, .)")
        ask(["c15_canstore", ty(t), scal], [bool(can_store(np.dtype(t).type, s)) for s in scal], f"R7 can_store(np.{t}, .)")
        n += 2 * len(scal)
    want = []
    for s in scal:
        r = np.min_scalar_type(s)
        want.append(ty(r) if r.kind in "iu" else None)
    ask(["c15_minscalar", scal], want, "R7 min_scalar_type")
    n += len(scal)
    # get_out_dtype = can_store + min_scalar_type (checked through the two above; here the composition)
    for t in IDX:
        arr = np.zeros(1, dtype=t)
        for s in (0, 127, 128, 255, 256, 65535, 65536, 2 ** 32, 2 ** 63, 2 ** 64 - 1):
            r = np.dtype(get_out_dtype(arr, s))
            exp = np.dtype(t) if can_store(np.dtype(t), s) else np.min_scalar_type(s)
            if r != exp:
                ctx.fail("B", "rule:get_out_dtype", {"dtype": t, "scalar": s}, f"get_out_dtype gives {r}, can_store/min_scalar_type give {exp}")
            n += 1

    outs = ctx.driver.run(reqs)
    for (want, what), out, req in zip(checks, outs, reqs):
        got = out.get("ok") if isinstance(out, dict) else None
        ctx.case("B:rule", {"rule": what}, nontrivial=True)
        if got != want:
            detail = _first_diff(got, want)
            ctx.fail("B", f"rule:{what}", {"request": req[:3]}, f"model and NumPy disagree: {detail}")
    ctx.count("rule_values_compared", n)
    return n


def _first_diff(got, want, path=""):
    if type(got) is not type(want):
        return f"at {path or 'top'}: model {str(got)[:80]} numpy {str(want)[:80]}"
    if isinstance(got, list):
        if len(got) != len(want):
            return f"at {path}: lengths {len(got)} vs {len(want)}"
        for i, (g, w) in enumerate(zip(got, want)):
            if g != w:
                return _first_diff(g, w, f"{path}[{i}]")
    if isinstance(got, dict):
        for k in want:
            if got.get(k) != want[k]:
                return _first_diff(got.get(k), want[k], f"{path}.{k}")
    return f"at {path}: model {str(got)[:80]} numpy {str(want)[:80]}"

"""C06, leg `expr`: random PROGRAMS (the `Expr` type of lean/SparseV/Model/Expr.lean) run three ways.

* the model:   `evalModel` through the compiled driver (op `program`)      -> representation (shape, coords, data, fill) / error class
* the spec:    `evalSpec`  through the compiled driver (op `program_spec`) -> dense values + fill / error
* the code:    the same program on the real library (COO inputs; a second run with GCXS / DOK inputs
               where the operation is offered on that format)
* NumPy:       the same program on the densified inputs (the oracle the generator carries along)

The theorems `program_canonical`, `program_refines`, `program_errors` (Props/Program.lean) are about
`evalModel` / `evalSpec`; this leg ties both to the code and to NumPy on random programs.
"""
from __future__ import annotations

import warnings

import numpy as np

import impl

MAX_SIZE = 160          # elements of any intermediate dense array
MAX_RANK = 10           # the properties quantify over 0-d .. 5-d; ranks up to 10 are kept in the stream because that is where
                        # check_compressed_axes used to reject sorted axes containing an axis >= 8 (repaired: /repo cbb2544)
MAX_ABS = 10 ** 6       # magnitude bound: keeps every run far from int64 overflow (the model is unbounded)

F1 = {
    "neg": np.negative, "abs": np.abs, "square": np.square, "sign": np.sign,
    "inc": (lambda v: v + 1), "dec": (lambda v: v - 1),
}
F2 = {"add": np.add, "sub": np.subtract, "mul": np.multiply, "max": np.maximum, "min": np.minimum}
RED = {"add": "sum", "max": "max", "min": "min"}

SHAPE_KEEPING = ("flip", "roll", "dok", "gcxs", "ew1z")


class Node:
    """one program node with the NumPy oracle evaluated eagerly"""
    __slots__ = ("kind", "args", "kids", "dense", "fill", "err", "depth")

    def __init__(self, kind, args, kids, dense=None, fill=None, err=None):
        self.kind, self.args, self.kids = kind, args, kids
        self.dense, self.fill, self.err = dense, fill, err
        self.depth = 0 if not kids else 1 + max(k.depth for k in kids)

    # ---- JSON for the driver ------------------------------------------------------------
    def js(self):
        k, a = self.kind, self.args
        kid = [c.js() for c in self.kids]
        if k == "lit":
            return ["lit", {"shape": a["shape"], "coords": a["coords"], "data": a["data"], "fill": a["fill"]}, a["prune"]]
        if k == "ew1":
            return ["ew1", a["f"], kid[0]]
        if k == "ew2":
            return ["ew2", a["f"], kid[0], kid[1]]
        if k == "bcast":
            return ["bcast", kid[0], a["shape"]]
        if k in ("transpose", "flip", "squeeze"):
            return [k, kid[0], a["axes"]]
        if k == "reshape":
            return ["reshape", kid[0], a["shape"]]
        if k == "roll":
            return ["roll", kid[0], a["shifts"], a["axes"]]
        if k == "expand":
            return ["expand", kid[0], a["axis"]]
        if k == "getitem":
            return ["getitem", kid[0], a["idx"]]
        if k == "reduce":
            return ["reduce", a["op"], kid[0], a["axes"]]
        if k in ("concat", "stack"):
            return [k, kid, a["axis"]]
        if k in ("triu", "tril"):
            return [k, kid[0], a["k"]]
        if k == "diagonal":
            return ["diagonal", kid[0], a["offset"], a["axis1"], a["axis2"]]
        if k == "gcxs":
            return ["gcxs", kid[0], a["caxes"]]
        if k == "dok":
            return ["dok", kid[0]]
        raise ValueError(k)

    def kinds(self, acc=None):
        acc = [] if acc is None else acc
        acc.append(self.kind)
        for c in self.kids:
            c.kinds(acc)
        return acc

    def leaves(self, acc=None):
        acc = [] if acc is None else acc
        if self.kind == "lit":
            acc.append(self)
        for c in self.kids:
            c.leaves(acc)
        return acc

    def describe(self):
        """a Python expression a reader can paste"""
        k, a = self.kind, self.args
        s = [c.describe() for c in self.kids]
        if k == "lit":
            return f"COO({np.array(a['coords']).reshape(len(a['coords']), len(a['shape'])).T.tolist()}, {a['data']}, shape={tuple(a['shape'])}, fill_value={a['fill']}, prune={a['prune']})"
        if k == "ew1":
            return f"elemwise({a['f']}, {s[0]})"
        if k == "ew2":
            return f"elemwise({a['f']}, {s[0]}, {s[1]})"
        if k == "bcast":
            return f"broadcast_to({s[0]}, {tuple(a['shape'])})"
        if k == "transpose":
            return f"{s[0]}.transpose({tuple(a['axes'])})"
        if k == "reshape":
            return f"{s[0]}.reshape({tuple(a['shape'])})"
        if k == "flip":
            return f"flip({s[0]}, axis={tuple(a['axes'])})"
        if k == "roll":
            return f"roll({s[0]}, {tuple(a['shifts'])}, axis={tuple(a['axes'])})"
        if k == "squeeze":
            return f"{s[0]}.squeeze(axis={tuple(a['axes'])})"
        if k == "expand":
            return f"expand_dims({s[0]}, axis={a['axis']})"
        if k == "getitem":
            return f"{s[0]}[{idx_py(a['idx'])!r}]"
        if k == "reduce":
            return f"{s[0]}.{RED[a['op']]}(axis={None if a['axes'] is None else tuple(a['axes'])})"
        if k in ("concat", "stack"):
            return f"{'concatenate' if k == 'concat' else 'stack'}([{', '.join(s)}], axis={a['axis']})"
        if k in ("triu", "tril"):
            return f"{k}({s[0]}, {a['k']})"
        if k == "diagonal":
            return f"diagonal({s[0]}, offset={a['offset']}, axis1={a['axis1']}, axis2={a['axis2']})"
        if k == "gcxs":
            return f"{s[0]}.asformat('gcxs', compressed_axes={a['caxes']}).asformat('coo')"
        if k == "dok":
            return f"{s[0]}.asformat('dok').asformat('coo')"
        return k


def idx_py(idx):
    out = []
    for e in idx:
        if e[0] == "i":
            out.append(int(e[1]))
        elif e[0] == "s":
            out.append(slice(e[1], e[2], e[3]))
        else:
            out.append(None)
    return tuple(out)


# -------------------------------------------------------------------------------------------------
# the NumPy oracle of one operation: (dense, fill) or raises
# -------------------------------------------------------------------------------------------------

class Contract(Exception):
    """an error the library's documented contract demands although NumPy has no such notion
    (fill-value consistency, zero fill for triu/tril, scalar results end a program, square diagonal, …)"""


def fill_part(k):
    """what an operand contributes to the fill value of an element-wise result: its fill value; a 0-d
    operand is a scalar for `_Elemwise` (it is densified) and contributes its element"""
    return int(k.dense) if k.dense.ndim == 0 else k.fill


def oracle(kind, a, kids):
    d = [k.dense for k in kids]
    f = [k.fill for k in kids]
    if kind == "ew1":
        g = F1[a["f"]]
        return g(d[0]), int(g(np.int64(fill_part(kids[0]))))
    if kind == "ew2":
        g = F2[a["f"]]
        return g(d[0], d[1]), int(g(np.int64(fill_part(kids[0])), np.int64(fill_part(kids[1]))))
    if kind == "bcast":
        return np.array(np.broadcast_to(d[0], tuple(a["shape"]))), f[0]
    if kind == "transpose":
        if len(a["axes"]) != d[0].ndim:
            raise ValueError("axes don't match array")
        return np.transpose(d[0], a["axes"]), f[0]
    if kind == "reshape":
        return d[0].reshape(tuple(a["shape"])), f[0]
    if kind == "flip":
        return np.flip(d[0], axis=tuple(a["axes"])), f[0]
    if kind == "roll":
        return np.roll(d[0], tuple(a["shifts"]), axis=tuple(a["axes"])), f[0]
    if kind == "squeeze":
        return np.squeeze(d[0], axis=tuple(a["axes"])), f[0]
    if kind == "expand":
        return np.expand_dims(d[0], a["axis"]), f[0]
    if kind == "getitem":
        r = d[0][idx_py(a["idx"])]
        if not isinstance(r, np.ndarray):
            raise Contract("scalar result")
        return r, f[0]
    if kind == "reduce":
        ax = None if a["axes"] is None else tuple(a["axes"])
        if ax is not None and len({x % max(d[0].ndim, 1) for x in ax}) != len(ax):
            raise ValueError("duplicate axis")
        r = getattr(np, RED[a["op"]])(d[0], axis=ax)
        nd = d[0].ndim
        axes = range(nd) if ax is None else [x % nd for x in ax]
        cnt = int(np.prod([d[0].shape[x] for x in axes], dtype=np.int64))
        if not isinstance(r, np.ndarray) or r.ndim == 0:
            raise Contract("scalar result")
        return r, (f[0] * cnt if a["op"] == "add" else f[0])
    if kind in ("concat", "stack"):
        if any(x != f[0] for x in f):
            raise Contract("inconsistent fill values")
        g = np.concatenate if kind == "concat" else np.stack
        return g(d, axis=a["axis"]), f[0]
    if kind in ("triu", "tril"):
        if f[0] != 0:
            raise Contract("zero fill value required")
        if d[0].ndim < 2:
            raise Contract("not implemented for < 2 dimensions")
        return (np.triu if kind == "triu" else np.tril)(d[0], a["k"]), 0
    if kind == "diagonal":
        nd = d[0].ndim
        a1, a2 = a["axis1"], a["axis2"]
        if not (-nd <= a1 < nd and -nd <= a2 < nd):
            raise ValueError("axis out of range")
        if d[0].shape[a1] != d[0].shape[a2]:
            raise Contract("a.shape[axis1] != a.shape[axis2]")
        return np.array(np.diagonal(d[0], a["offset"], a1, a2)), f[0]
    if kind == "gcxs":
        nd, c = d[0].ndim, a["caxes"]
        if c is not None:
            if nd < 2 or len(c) >= nd or any(x >= nd for x in c) or any(c[i] >= c[i + 1] for i in range(len(c) - 1)):
                raise Contract("invalid compressed_axes")
        return d[0], f[0]
    if kind == "dok":
        return d[0], f[0]
    raise ValueError(kind)


def mk(kind, args, kids):
    """node with its oracle value (or the expectation that the program must raise)"""
    for k in kids:
        if k.err:
            return Node(kind, args, kids, err=k.err)
    try:
        with warnings.catch_warnings():
            warnings.simplefilter("ignore")
            dense, fill = oracle(kind, args, kids)
        dense = np.asarray(dense, dtype=np.int64)
        return Node(kind, args, kids, dense=dense, fill=int(fill))
    except (ValueError, IndexError, TypeError, Contract) as e:
        return Node(kind, args, kids, err=f"{type(e).__name__}: {str(e)[:80]}")


# -------------------------------------------------------------------------------------------------
# generators
# -------------------------------------------------------------------------------------------------

EXT = [0, 1, 1, 1, 2, 2, 2, 3, 3, 4]


def rand_shape(rng, lo=0, hi=4, max_size=36):
    for _ in range(30):
        r = int(rng.integers(lo, hi + 1))
        s = [int(rng.choice(EXT)) for _ in range(r)]
        if int(np.prod(s, dtype=np.int64)) <= max_size:
            return s
    return [2] * lo


def gen_lit(rng, shape=None, fill=None, bad_p=0.02):
    """a literal COO input: coordinates in any order, with repeats, with explicit fill-valued data"""
    shape = rand_shape(rng) if shape is None else [int(s) for s in shape]
    fill = int(rng.choice([0, 0, 0, 1, -2, 3])) if fill is None else int(fill)
    size = int(np.prod(shape, dtype=np.int64))
    k = 0 if size == 0 else int(rng.integers(0, min(2 * size, 12) + 1))
    if len(shape) == 0:
        k = int(rng.integers(0, 3))
    coords = [[int(rng.integers(0, d)) for d in shape] for _ in range(k)]
    if k >= 2 and rng.random() < 0.5:
        coords[int(rng.integers(k))] = list(coords[int(rng.integers(k))])  # force a repeat
    data = [int(v) for v in rng.choice([-3, -2, -1, 0, 1, 2, 3, fill, fill], size=k)]
    prune = bool(rng.random() < 0.4)
    args = {"shape": shape, "coords": coords, "data": data, "fill": fill, "prune": prune}
    if coords and shape and rng.random() < bad_p:
        i, ax = int(rng.integers(k)), int(rng.integers(len(shape)))
        coords[i][ax] = shape[ax] + int(rng.integers(0, 3))
        return Node("lit", args, [], err="ValueError: invalid entry in coordinates array")
    dense = np.full(shape, fill, dtype=np.int64)
    acc = {}
    for c, v in zip(coords, data):
        acc[tuple(c)] = acc.get(tuple(c), 0) + v
    for c, v in acc.items():
        dense[c] = v
    return Node("lit", args, [], dense=dense, fill=fill)


def neg_axes(rng, axes, nd):
    return [int(a - nd) if rng.random() < 0.3 else int(a) for a in axes]


def factorizations(n, rng):
    """a random shape of size n"""
    if n == 0:
        s = rand_shape(rng, 1, 3, 10 ** 9)
        s[int(rng.integers(len(s)))] = 0
        return s
    out, rest = [], n
    for _ in range(int(rng.integers(0, 4))):
        divs = [q for q in range(1, rest + 1) if rest % q == 0]
        q = int(rng.choice(divs))
        out.append(q)
        rest //= q
    out.append(rest)
    rng.shuffle(out)
    return [int(v) for v in out]


def compat_shape(rng, shape):
    """a shape that broadcasts with `shape`"""
    s = list(shape)
    drop = int(rng.integers(0, len(s) + 1)) if rng.random() < 0.4 else 0
    s = s[drop:]
    s = [1 if rng.random() < 0.3 else d for d in s]
    if rng.random() < 0.2:
        s = [int(rng.choice([1, 2]))] + ([1] * drop + s if drop else s)
    return s


def derive(rng, x, keep_fill):
    """a shape-preserving (and, if asked, fill-preserving) program on top of a COPY of x"""
    nd = x.dense.ndim
    ch = ["dok", "gcxs"] + (["flip", "roll"] if nd else []) + ([] if keep_fill else ["ew1"])
    k = str(rng.choice(ch))
    if k == "flip":
        return mk("flip", {"axes": neg_axes(rng, sorted(rng.choice(nd, size=int(rng.integers(1, nd + 1)), replace=False).tolist()), nd)}, [x])
    if k == "roll":
        return mk("roll", {"shifts": [int(rng.integers(-4, 5))], "axes": [int(rng.integers(0, nd))]}, [x])
    if k == "gcxs":
        return mk("gcxs", {"caxes": None}, [x])
    if k == "ew1":
        return mk("ew1", {"f": str(rng.choice(list(F1)))}, [x])
    return mk("dok", {}, [x])


def gen_op(rng, x, budget):
    """one more operation on top of program x (x.err is None); returns a Node or None"""
    nd, shape, size = x.dense.ndim, list(x.dense.shape), x.dense.size
    bad = rng.random() < 0.035
    kinds = ["ew1", "ew2", "ew2", "bcast", "reshape", "expand", "dok", "gcxs", "concat", "stack"]
    if nd:
        kinds += ["transpose", "flip", "roll", "getitem", "getitem", "reduce", "reduce", "squeeze"]
    if nd >= 2:
        kinds += ["triu", "tril", "diagonal"]
    kind = str(rng.choice(kinds))
    if kind in ("triu", "tril") and x.fill != 0 and rng.random() < 0.85:
        kind = "transpose"      # nonzero fill: ValueError by contract; keep it rare
    if kind == "reduce" and nd == 1 and rng.random() < 0.85:
        kind = "getitem"        # reducing the only axis gives a scalar, which ends the program
    if bad and nd < 2 and rng.random() < 0.15:
        kind = str(rng.choice(["triu", "tril"]))   # NotImplementedError below two dimensions
    if kind == "ew1":
        return mk("ew1", {"f": str(rng.choice(list(F1)))}, [x])
    if kind == "ew2":
        r = rng.random()
        if r < 0.5:
            y = gen_lit(rng, compat_shape(rng, shape) if not bad else rand_shape(rng), bad_p=0.0)
        elif r < 0.75 and budget > 1:
            y = gen_program(rng, max(1, budget - 1))
            if y.err is None and not bad:
                try:
                    np.broadcast_shapes(tuple(shape), y.dense.shape)
                except ValueError:
                    if y.dense.size == size:
                        y = mk("reshape", {"shape": shape}, [y])
                    else:
                        y = gen_lit(rng, compat_shape(rng, shape), bad_p=0.0)
        else:
            y = derive(rng, x, keep_fill=False)
        kids = [x, y] if rng.random() < 0.5 else [y, x]
        return mk("ew2", {"f": str(rng.choice(list(F2)))}, kids)
    if kind == "bcast":
        lead = [int(rng.choice([1, 2, 3])) for _ in range(int(rng.integers(0, 3)))]
        tgt = lead + [int(rng.choice([2, 3])) if (d == 1 and rng.random() < 0.6) else d for d in shape]
        if bad and tgt:
            tgt[int(rng.integers(len(tgt)))] += 1
        return mk("bcast", {"shape": tgt}, [x])
    if kind == "reshape":
        tgt = factorizations(size, rng) if rng.random() < 0.85 else shape
        if bad:
            tgt = tgt + [2]
        return mk("reshape", {"shape": tgt}, [x])
    if kind == "expand":
        ax = int(rng.integers(-(nd + 1), nd + 1))
        if bad:
            ax = int(rng.choice([nd + 1, -(nd + 2), nd + 3]))
        return mk("expand", {"axis": ax}, [x])
    if kind == "dok":
        return mk("dok", {}, [x])
    if kind == "gcxs":
        c = None
        if nd >= 2 and rng.random() < 0.7:
            r = int(rng.integers(1, nd))
            c = sorted(int(v) for v in rng.choice(nd, size=r, replace=False))
        if bad:
            c = [[1, 0], list(range(max(nd, 1))), [nd + 1], [0]][int(rng.integers(4))]
        return mk("gcxs", {"caxes": c}, [x])
    if kind in ("concat", "stack"):
        n_other = int(rng.integers(1, 3))
        others = []
        if kind == "concat" and nd == 0:
            ax = 0
        else:
            ax = int(rng.integers(-nd, nd)) if (kind == "concat") else int(rng.integers(-(nd + 1), nd + 1))
        for _ in range(n_other):
            if rng.random() < 0.6:
                s = list(shape)
                if kind == "concat" and nd:
                    s[ax] = int(rng.choice([0, 1, 2, 3]))
                fill = x.fill if not (bad and rng.random() < 0.5) else x.fill + 1
                if bad and s and rng.random() < 0.5:
                    s[int(rng.integers(len(s)))] += 1
                others.append(gen_lit(rng, s, fill, bad_p=0.0))
            else:
                others.append(derive(rng, x, keep_fill=True))
        kids = [x] + others
        if rng.random() < 0.5:
            kids = kids[::-1]
        if bad and rng.random() < 0.3:
            ax = nd + 2
        return mk(kind, {"axis": ax}, kids)
    if kind == "transpose":
        p = [int(v) for v in rng.permutation(nd)]
        if bad:
            p = [[0] * nd, p[:-1], p + [nd]][int(rng.integers(3))]
        return mk("transpose", {"axes": neg_axes(rng, p, nd) if not bad else p}, [x])
    if kind == "flip":
        axes = sorted(int(v) for v in rng.choice(nd, size=int(rng.integers(0, nd + 1)), replace=False))
        axes = neg_axes(rng, axes, nd)
        if bad:
            axes = [[0, 0], [nd], [-nd - 1]][int(rng.integers(3))]
        return mk("flip", {"axes": axes}, [x])
    if kind == "roll":
        m = int(rng.integers(1, 4))
        axes = [int(rng.integers(-nd, nd)) for _ in range(m)]
        shifts = [int(rng.integers(-7, 8)) for _ in range(m if rng.random() < 0.7 else 1)]
        if bad:
            if rng.random() < 0.5 and m >= 2:
                shifts = shifts[:1] * (m + 1)
            else:
                axes[0] = nd + 1
        return mk("roll", {"shifts": shifts, "axes": axes}, [x])
    if kind == "squeeze":
        ones = [i for i, d in enumerate(shape) if d == 1]
        if not ones and not bad:
            return mk("expand", {"axis": int(rng.integers(-(nd + 1), nd + 1))}, [x])
        axes = [int(v) for v in rng.choice(ones, size=int(rng.integers(1, len(ones) + 1)), replace=False)] if ones else []
        axes = neg_axes(rng, axes, nd)
        if bad:
            non1 = [i for i, d in enumerate(shape) if d != 1]
            opts = [[nd + 1], [-nd - 2]] + ([[non1[0]]] if non1 else []) + ([[ones[0], ones[0]]] if ones else [])
            axes = opts[int(rng.integers(len(opts)))]
        return mk("squeeze", {"axes": axes}, [x])
    if kind == "getitem":
        idx = []
        n_ax = int(rng.integers(1, nd + 1))
        n_slices = 0
        for a in range(n_ax):
            if rng.random() < 0.2:
                idx.append(["n"])
                n_slices += 1
            d = shape[a]
            if rng.random() < 0.7 or d == 0:
                st = None if rng.random() < 0.35 else int(rng.choice([1, 2, 3, -1, -1, -2, -3, 5]))
                part = lambda: None if rng.random() < 0.3 else int(rng.integers(-d - 2, d + 3))
                idx.append(["s", part(), part(), st])
                n_slices += 1
            else:
                idx.append(["i", int(rng.integers(-d, d))])
        if rng.random() < 0.15:
            idx.append(["n"])
            n_slices += 1
        if n_slices == 0 and n_ax == nd and rng.random() < 0.9:
            idx.insert(int(rng.integers(0, len(idx) + 1)), ["n"])  # keep most results arrays
        if bad:
            r = rng.random()
            if r < 0.35:
                idx = [["i", 0]] * (nd + 1) if all(shape) else idx + [["s", None, None, None]] * (nd + 1)
            elif r < 0.7:
                idx[0] = ["i", int(shape[0] + rng.integers(0, 2))]
            else:
                idx[0] = ["s", None, None, 0]
        return mk("getitem", {"idx": idx}, [x])
    if kind == "reduce":
        op = str(rng.choice(["add", "add", "max", "min"]))
        if nd >= 2 or rng.random() < 0.1:
            m = int(rng.integers(1, nd)) if nd >= 2 else 1
            axes = neg_axes(rng, [int(v) for v in rng.choice(nd, size=m, replace=False)], nd)
        else:
            axes = [0] if rng.random() < 0.5 else None
        if rng.random() < 0.03:
            axes = None
        if bad:
            axes = [[0, 0], [nd], [-nd - 1]][int(rng.integers(3))]
        return mk("reduce", {"op": op, "axes": axes}, [x])
    if kind in ("triu", "tril"):
        return mk(kind, {"k": int(rng.integers(-3, 4))}, [x])
    if kind == "diagonal":
        pairs = [(i, j) for i in range(nd) for j in range(nd) if i != j and (shape[i] == shape[j] or bad)]
        if not pairs:
            return mk("transpose", {"axes": [int(v) for v in rng.permutation(nd)]}, [x])
        a1, a2 = pairs[int(rng.integers(len(pairs)))]
        if bad and rng.random() < 0.4:
            a2 = a1
        a1, a2 = neg_axes(rng, [a1, a2], nd)
        return mk("diagonal", {"offset": int(rng.integers(-3, 4)), "axis1": a1, "axis2": a2}, [x])
    return None


def acceptable(n):
    if n is None:
        return False
    if n.err:
        return True
    if n.dense.ndim > MAX_RANK:
        return False
    return n.dense.size <= MAX_SIZE and (n.dense.size == 0 or int(np.abs(n.dense).max()) <= MAX_ABS) and abs(n.fill) <= MAX_ABS


def gen_program(rng, max_depth):
    x = gen_lit(rng)
    target = int(rng.integers(1, max_depth + 1))
    guard = 0
    while x.err is None and x.depth < target and guard < 60:
        guard += 1
        y = gen_op(rng, x, target - x.depth)
        if acceptable(y) and y.depth <= max_depth:
            x = y
    if x.err is not None and x.depth < max_depth and rng.random() < 0.3:
        x = mk("ew1", {"f": "neg"}, [x])  # an error below propagates through later steps
    return x


# -------------------------------------------------------------------------------------------------
# the program on the real library
# -------------------------------------------------------------------------------------------------

# operations applied directly to an operand held in a non-COO format (the function is offered on it);
# every other operation gets its operands converted to COO first
OFFERED = {
    "gcxs": {"ew1", "ew2", "transpose", "reshape", "getitem", "reduce", "concat", "stack", "flip", "roll", "expand",
             "triu", "tril", "diagonal", "gcxs", "dok"},
    "dok": {"ew1", "ew2", "getitem", "flip", "roll", "expand", "triu", "tril", "diagonal", "gcxs", "dok", "concat", "stack"},
}


def fmt_of(x):
    return type(x).__name__.lower()


def apply_impl(kind, a, xs):
    import sparse

    x = xs[0] if xs else None
    if kind == "ew1":
        return sparse.elemwise(F1[a["f"]], x)
    if kind == "ew2":
        return sparse.elemwise(F2[a["f"]], xs[0], xs[1])
    if kind == "bcast":
        return sparse.broadcast_to(x, tuple(a["shape"]))
    if kind == "transpose":
        return x.transpose(tuple(a["axes"]))
    if kind == "reshape":
        return x.reshape(tuple(a["shape"]))
    if kind == "flip":
        return sparse.flip(x, axis=tuple(a["axes"]))
    if kind == "roll":
        return sparse.roll(x, tuple(a["shifts"]), axis=tuple(a["axes"]))
    if kind == "squeeze":
        return x.squeeze(axis=tuple(a["axes"]))
    if kind == "expand":
        return sparse.expand_dims(x, axis=a["axis"])
    if kind == "getitem":
        return x[idx_py(a["idx"])]
    if kind == "reduce":
        return getattr(x, RED[a["op"]])(axis=None if a["axes"] is None else tuple(a["axes"]))
    if kind == "concat":
        return sparse.concatenate(xs, axis=a["axis"])
    if kind == "stack":
        return sparse.stack(xs, axis=a["axis"])
    if kind == "triu":
        return sparse.triu(x, a["k"])
    if kind == "tril":
        return sparse.tril(x, a["k"])
    if kind == "diagonal":
        return sparse.diagonal(x, offset=a["offset"], axis1=a["axis1"], axis2=a["axis2"])
    if kind == "gcxs":
        return x.asformat("gcxs", compressed_axes=a["caxes"]).asformat("coo")
    if kind == "dok":
        return x.asformat("dok").asformat("coo")
    raise ValueError(kind)


class ScalarResult(TypeError):
    pass


def run_impl(node, leaf_fmt, rng, seen):
    """evaluate on the library; `seen` collects (description, array) of every intermediate result"""
    import sparse

    if node.kind == "lit":
        a = node.args
        nd = len(a["shape"])
        coords = np.array(a["coords"], dtype=np.int64).reshape(len(a["coords"]), nd).T
        x = sparse.COO(coords, np.array(a["data"], dtype=np.int64), shape=tuple(a["shape"]), fill_value=np.int64(a["fill"]), prune=a["prune"])
        seen.append(("lit", x))
        if leaf_fmt == "gcxs" and nd >= 1:           # 0-d GCXS: recorded findings of C05/C08, not this property's business
            ch = [None]
            if nd >= 2:
                import gen
                ch = gen.compressed_axes_choices(nd)
            x = x.asformat("gcxs", compressed_axes=ch[int(rng.integers(len(ch)))])
            seen.append(("lit.asformat(gcxs)", x))
        elif leaf_fmt == "dok" and nd >= 1:
            x = x.asformat("dok")
            seen.append(("lit.asformat(dok)", x))
        return x
    xs = [run_impl(k, leaf_fmt, rng, seen) for k in node.kids]
    if leaf_fmt != "coo":
        fm = {fmt_of(x) for x in xs}
        ok = all((f == "coo") or (f in OFFERED and node.kind in OFFERED[f]) for f in fm) and len(fm - {"coo"}) <= 1
        if not ok or (len(fm) > 1 and node.kind in ("concat", "stack")):
            xs = [x if isinstance(x, sparse.COO) else x.asformat("coo") for x in xs]
    with warnings.catch_warnings():
        warnings.simplefilter("ignore")
        r = apply_impl(node.kind, node.args, xs)
    if not isinstance(r, sparse.SparseArray):
        raise ScalarResult(f"{type(r).__name__} result")
    seen.append((node.kind, r))
    return r

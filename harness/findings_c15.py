"""Regions of the C15 findings.  classify(name, case, msg) -> finding id | None.

`name` is "family:operation", `case` the leg-C case record ({"op", "scenario", "shape", "nnz", "idx_dtype", "limit"}), `msg` the
observed difference.  Every region is the harness-side transcription of a decidable `Excluded_…` predicate of
lean/SparseV/Props/C15.lean, evaluated on the dtype chain the operation goes through; the observed failure must also
have the form the site model predicts.  A finding whose witness no longer fails on the working tree is ignored by
c15.run (the case is then an unknown failure).
"""
from __future__ import annotations

import re

import numpy as np

# theorem -> excluded region (evidence: "partial")
PARTIAL = {
    "SparseV.C15.getitem_partial": "Excluded_getitem t step := ¬ t.fits step",
    "SparseV.C15.invidx_partial": "Excluded_invidx t groups := ¬ t.fits groups.length",
    "SparseV.C15.triu_partial": "Excluded_triu t c0 k := ¬ t.fits k ∨ ¬ t.fits (c0 + k)",
    "SparseV.C15.gcxsJoin_partial": "Excluded_gcxsJoin r rows := ¬ r.fits rows",
    "SparseV.C15.boxShape_partial": "Excluded_boxShape t shape := ¬ ∀ d ∈ shape, t.fits d (outside the property's precondition)",
    "SparseV.C15.reduceRowIds_partial": "Excluded_reduceRowIds tp rows := ¬ tp.fits rows",
    "SparseV.C15.gcxsKey_partial": "Excluded_gcxsKey t := t.signed = false",
    "SparseV.C15.kron_width_independent": "Excluded_uint64 t := t.signed = false ∧ 64 ≤ t.bits",
    "SparseV.C15.pad_width_independent": "Excluded_uint64 t := t.signed = false ∧ 64 ≤ t.bits",
}
# full statements that are false of the unchanged code (each refuted by a `…_counterexample`)
STATEMENTS = ["Statement_getitem", "Statement_invidx", "Statement_triu", "Statement_gcxsJoin", "Statement_boxShape_coordsFit",
              "Statement_reduceRowIds", "Statement_gcxsKey"]

WRONG_VALUE = ("stored coordinates differ", "stored values differ", "nnz ", "result malformed", "dense values differ", "shape ")


def fits(dt, n):
    ii = np.iinfo(dt)
    return int(ii.min) <= int(n) <= int(ii.max)


def out_dtype(dt, n):
    """_utils.get_out_dtype / the inlined upcast"""
    return np.dtype(dt) if fits(dt, n) else np.min_scalar_type(int(n))


def _prod(xs):
    r = 1
    for v in xs:
        r *= int(v)
    return r


def _gcxs_dtype(case, ca):
    """index dtype of x.asformat('gcxs', compressed_axes=ca) as `_from_coo` chooses it"""
    shape = case["shape"]
    rows = _prod(shape[a] for a in ca)
    cols = _prod(shape[a] for a in range(len(shape)) if a not in ca)
    return out_dtype(case["idx_dtype"], max(rows, cols, case["nnz"])), rows, cols


def _ca_of(op):
    m = re.match(r"gcxs\[([\d, ]+)\]", op)
    return tuple(int(v) for v in m.group(1).split(",")) if m else None


def classify(name, case, msg):
    """a case the region predicates cannot even parse is in no region"""
    try:
        return _classify(name, case, msg)
    except Exception:  # noqa: BLE001
        return None


def _classify(name, case, msg):
    fam, _, op = name.partition(":")
    t = np.dtype(case["idx_dtype"])
    shape = case["shape"]
    wrong = msg.startswith(WRONG_VALUE)
    # uint64 index arrays: given by the user, or chosen by the library itself — np.min_scalar_type(n) is uint64 for n >= 2**32, so an
    # operation that flattens an array of 2**32 or more elements whose coordinates are narrower than 64 bits continues in uint64
    size = _prod(shape)
    via_uint64 = t == np.uint64 or (size >= 2 ** 32 and not fits(t, size))
    m_over = re.match(r"raised OverflowError: Python integer (-?\d+) out of bounds for (u?int\d+)", msg)

    # F-getitem-step: Excluded_getitem — the slice step is not representable in the coordinates' dtype
    if fam in ("getitem", "gcxs-getitem") and m_over:
        steps = [int(v) for v in re.findall(r":(-?\d+)[\],]", op)]
        k, dt = int(m_over.group(1)), np.dtype(m_over.group(2))
        if k in steps and not fits(dt, k) and (fam == "getitem" or op.startswith("gcxs1d")):
            return "F-getitem-step"
    # F-triu-k: Excluded_triu — k, or (largest row coordinate + k), is not representable
    if fam in ("triu", "tril"):
        k = int(re.search(r"k=(-?\d+)", op).group(1))
        excluded = (not fits(t, k)) or (not fits(t, k + shape[-2] - 1))
        if excluded and ((m_over and int(m_over.group(1)) == k and m_over.group(2) == t.name) or (wrong and fits(t, k))):
            return "F-triu-k"
    # F-invidx-dtype: Excluded_invidx — more stored elements than the coordinates' dtype counts
    if fam == "reduce" and case["nnz"] > np.iinfo(t).max and (wrong or re.match(r"raised IndexError: index -?\d+ out-of-bounds in \w+\.reduceat", msg)):
        return "F-invidx-dtype"
    if via_uint64 and "Cannot cast array data from dtype('uint64') to dtype('int64') according to the rule 'safe'" in msg and fam in (
            "reduce", "gcxs-reduce", "product", "gcxs-product", "sort", "elemwise"):
        # inv_idx in uint64 is refused by ufunc.reduceat (rule R6): the same site, unsigned 64-bit flavour
        return "F-invidx-dtype"
    # F-gcxs-getitem-unsigned: Excluded_gcxsKey — the GCXS array's indices dtype is unsigned
    if fam == "gcxs-getitem" and "AttributeError: 'NoneType' object has no attribute 'args'" in msg:
        ca = _ca_of(op)
        if ca is not None and _gcxs_dtype(case, ca)[0].kind == "u":
            return "F-gcxs-getitem-unsigned"
    # F-gcxs-join-rows: Excluded_gcxsJoin — the joined array has more rows than its indptr dtype numbers
    if fam == "gcxs-join" and "concatenate" in op and (wrong or "invalid entry in coordinates array" in msg):
        ca = _ca_of(op)
        ma = re.search(r"concatenate (\d+)", op)
        if ca is not None and ma is not None:
            a = int(ma.group(1))
            dt0, _, _ = _gcxs_dtype(case, ca)
            if ca != (a,):  # change_compressed_axes((a,)) -> _transpose -> get_out_dtype
                rows = shape[a]
                cols = _prod(shape) // rows
                dt0 = out_dtype(dt0, max(rows, cols, case["nnz"]))
            dt1 = out_dtype(dt0, 2 * case["nnz"])
            if not fits(dt1, 2 * shape[a]):
                return "F-gcxs-join-rows"
    # F-gcxs-reduce-rows: Excluded_reduceRowIds — row numbers of the regrouped array in the original indptr dtype
    if fam == "gcxs-reduce" and (wrong or "invalid entry" in msg):
        ca = _ca_of(op)
        m = re.search(r"\.(?:sum|max)\((-?\d+)\)", op)
        if ca is not None and m:
            ax = int(m.group(1)) % len(shape)
            dt0, _, _ = _gcxs_dtype(case, ca)
            new_rows = _prod(shape[d] for d in range(len(shape)) if d != ax)
            if not fits(dt0, new_rows):
                return "F-gcxs-reduce-rows"
    # F-numba-shape: Excluded_boxShape — an extent the coordinates' dtype cannot hold (coordinates all fit)
    if fam == "numba" and case["scenario"].startswith("coordsfit") and not fits(t, max(shape)):
        return "F-numba-shape"
    # F-uint64: Excluded_uint64 — NumPy promotes uint64 with intp to float64; the library then indexes with floats
    if via_uint64 and any(p in msg for p in (
            "only int indices permitted", "coords dtype float64", "indptr/indices dtype", "TypingError", "only integers, slices",
            "arrays used as indices must be of integer", "Cannot cast array data from dtype('uint64')", "Cannot cast array data from dtype('float64')",
            "'NoneType' object has no attribute 'args'", "cannot be safely cast", "float64")):
        return "F-uint64"
    return None

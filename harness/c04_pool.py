"""Watchdog pool for C04: worker subprocesses (harness/c04_worker.py) that execute one product call
per request.  A call that does not answer within its deadline is reported as {"hang": deadline} and
its process is killed (SIGKILL) and replaced; a process that dies is reported as {"crash": status}.
Jobs carry an `affinity` so that calls reaching the same numba kernel go to the same worker (each
kernel is then compiled once per run).  Jobs marked `fresh=True` (expected hangs: replay of a known
finding) run in a process of their own so that killing it does not throw compiled kernels away.
"""
from __future__ import annotations

import json
import os
import select
import subprocess
import sys
import threading
import time
import zlib
from pathlib import Path

WORKER = str(Path(__file__).resolve().parent / "c04_worker.py")


class Worker:
    def __init__(self, env=None):
        self.env = env
        self.proc = None
        self.buf = b""
        self.start()

    def start(self):
        env = dict(os.environ)
        if self.env:
            env.update(self.env)
        self.proc = subprocess.Popen([sys.executable, WORKER], stdin=subprocess.PIPE, stdout=subprocess.PIPE,
                                     stderr=subprocess.DEVNULL, bufsize=0, env=env)
        self.buf = b""

    def kill(self):
        try:
            self.proc.kill()
            self.proc.wait(timeout=10)
        except Exception:  # noqa: BLE001
            pass

    def call(self, job: dict, deadline: float) -> dict:
        if self.proc.poll() is not None:
            self.start()
        try:
            self.proc.stdin.write((json.dumps(job, separators=(",", ":")) + "\n").encode())
            self.proc.stdin.flush()
        except BrokenPipeError:
            self.start()
            self.proc.stdin.write((json.dumps(job, separators=(",", ":")) + "\n").encode())
            self.proc.stdin.flush()
        t_start = time.time()
        t_end = t_start + deadline
        fd = self.proc.stdout.fileno()
        while True:
            nl = self.buf.find(b"\n")
            if nl >= 0:
                line, self.buf = self.buf[:nl], self.buf[nl + 1:]
                res = json.loads(line)
                res["_wall"] = round(time.time() - t_start, 3)
                return res
            left = t_end - time.time()
            if left <= 0:
                self.kill()
                self.start()
                return {"hang": deadline}
            r, _, _ = select.select([fd], [], [], min(left, 1.0))
            if r:
                chunk = os.read(fd, 1 << 16)
                if not chunk:
                    rc = self.proc.wait()
                    self.start()
                    return {"crash": rc}
                self.buf += chunk


class Pool:
    def __init__(self, n=6, deadline=40.0, env=None):
        self.n, self.deadline, self.env = n, deadline, env
        self.hangs = 0
        self.crashes = 0

    def run(self, jobs: list[dict], progress=None) -> list[dict]:
        """jobs: dicts with optional private keys `_affinity` (str), `_deadline` (s), `_fresh` (bool).
        Returns the answers in order."""
        results: list = [None] * len(jobs)
        queues: list[list[int]] = [[] for _ in range(self.n)]
        fresh: list[int] = []
        groups: dict[str, list[int]] = {}
        for i, j in enumerate(jobs):
            if j.get("_fresh"):
                fresh.append(i)
            else:
                groups.setdefault(str(j.get("_affinity", zlib.crc32(str(i).encode()) % self.n)), []).append(i)
        # longest group first onto the least loaded queue; a group larger than a fair share is split
        share = max(1, -(-sum(len(g) for g in groups.values()) // self.n))
        chunks = []
        for g in groups.values():
            for s in range(0, len(g), share):
                chunks.append(g[s:s + share])
        for c in sorted(chunks, key=len, reverse=True):
            min(queues, key=len).extend(c)
        lock = threading.Lock()
        done = [0]

        def strip(j):
            return {k: v for k, v in j.items() if not k.startswith("_")}

        def serve(idx_list):
            w = None
            try:
                for i in idx_list:
                    if w is None:
                        w = Worker(self.env)
                    results[i] = w.call(strip(jobs[i]), jobs[i].get("_deadline", self.deadline))
                    with lock:
                        done[0] += 1
                        if "hang" in results[i]:
                            self.hangs += 1
                        if "crash" in results[i]:
                            self.crashes += 1
                        if progress and done[0] % 200 == 0:
                            progress(done[0], len(jobs))
            finally:
                if w is not None:
                    w.kill()

        def serve_fresh(i):
            w = Worker(self.env)
            try:
                results[i] = w.call(strip(jobs[i]), jobs[i].get("_deadline", self.deadline))
                with lock:
                    done[0] += 1
                    if "hang" in results[i]:
                        self.hangs += 1
            finally:
                w.kill()

        threads = [threading.Thread(target=serve, args=(q,), daemon=True) for q in queues if q]
        # expected hangs run concurrently with everything else, at most 8 at a time
        sem = threading.Semaphore(8)

        def guarded(i):
            with sem:
                serve_fresh(i)

        threads += [threading.Thread(target=guarded, args=(i,), daemon=True) for i in fresh]
        for t in threads:
            t.start()
        for t in threads:
            t.join()
        return results

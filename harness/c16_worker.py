"""C16 worker: executes operations of the implementation on huge sparse inputs inside a subprocess that runs under
`resource.setrlimit(RLIMIT_AS, …)`.  Protocol: one JSON case per stdin line, one JSON answer per stdout line.

answer: {"id":…, "out": {"ok": representation} | {"err": class, "type":…, "msg":…}, "peak": tracemalloc peak bytes of the call,
         "secs": wall seconds of the call, "nnz_out": …}
The parent enforces the time limit (a `nogil` numba loop cannot be interrupted from inside) by killing this process.
"""
from __future__ import annotations

import json
import os
import resource
import sys
import time
import tracemalloc
import warnings

warnings.simplefilter("ignore")


def main():
    limit = int(sys.argv[1]) if len(sys.argv) > 1 else 0
    if limit:
        resource.setrlimit(resource.RLIMIT_AS, (limit, limit))
    sys.path.insert(0, os.path.dirname(os.path.abspath(__file__)))
    import numpy as np
    import sparse

    import impl

    UF = {"add": np.add, "subtract": np.subtract, "multiply": np.multiply, "maximum": np.maximum, "minimum": np.minimum,
          "negative": np.negative, "absolute": np.absolute, "square": np.square, "sign": np.sign}

    def typed(values, dtype):
        """integer-valued JSON data as an array of `dtype` (complex: v * (1 + 1j), so that the imaginary parts take part)"""
        a = np.asarray(values, dtype=np.int64)
        if dtype in (None, "int64"):
            return a
        if dtype.startswith("complex"):
            return (a * (1 + 1j)).astype(dtype)
        return a.astype(dtype)

    def coo(j):
        nd = len(j["shape"])
        c = np.asarray(j["coords"], dtype=np.int64).reshape(len(j["data"]), nd).T
        dt = j.get("dtype")
        data = typed(j["data"], dt)
        return sparse.COO(c, data, shape=tuple(j["shape"]), fill_value=data.dtype.type(j["fill"]))

    def num(v):
        """a NumPy scalar as JSON: bool/int -> int, float -> float, complex -> [re, im]"""
        if isinstance(v, bool | np.bool_ | int | np.integer):
            return int(v)
        if isinstance(v, complex | np.complexfloating):
            return [float(v.real), float(v.imag)]
        return float(v)

    def typed_json(r):
        """any result with its values as they are (no cast to int): COO / GCXS / DOK through COO, ndarray, scalar"""
        if isinstance(r, sparse.GCXS | sparse.DOK):
            kind = type(r).__name__
            r = r.tocoo() if isinstance(r, sparse.GCXS) else r.asformat("coo")
        elif isinstance(r, sparse.COO):
            kind = "COO"
        elif isinstance(r, np.ndarray):
            return {"type": "ndarray", "shape": list(r.shape), "dtype": str(r.dtype), "data": [num(v) for v in r.ravel()[:10000]]}
        else:
            return {"type": "scalar", "dtype": str(getattr(r, "dtype", type(r).__name__)), "data": num(r)}
        return {"type": kind, "shape": [int(d) for d in r.shape], "dtype": str(r.dtype), "fill": num(r.fill_value),
                "coords": [[int(v) for v in col] for col in r.coords.T.tolist()] if r.ndim else [[] for _ in range(r.nnz)],
                "data": [num(v) for v in r.data]}

    def dense_gen(g):
        """{"shape", "m", "sign", "dtype"}: d.flat[k] = sign * ((7 k + 3) mod m + 1) — never zero, computable position by position"""
        size = int(np.prod(g["shape"], dtype=np.int64)) if g["shape"] else 1
        d = (g.get("sign", 1) * ((np.arange(size, dtype=np.int64) * 7 + 3) % g["m"] + 1)).astype(g.get("dtype", "int64"))
        return d.reshape(g["shape"])

    def measured(thunk):
        """-> {"out": ..., "secs", "peak"} of one call (typed representation), errors caught per call"""
        tracemalloc.start()
        tracemalloc.reset_peak()
        t0, c0 = time.perf_counter(), time.process_time()
        try:
            r = thunk()
            secs, cpu = time.perf_counter() - t0, time.process_time() - c0
            peak = tracemalloc.get_traced_memory()[1]
            return {"out": {"ok": typed_json(r)}, "secs": round(secs, 4), "cpu": round(cpu, 4), "peak": int(peak)}
        except BaseException as e:  # noqa: BLE001
            if isinstance(e, KeyboardInterrupt | SystemExit):
                raise
            return {"out": {"err": "memory" if isinstance(e, MemoryError) else impl.err_class(e), "type": type(e).__name__, "msg": str(e)[:300]},
                    "secs": round(time.perf_counter() - t0, 4), "cpu": round(time.process_time() - c0, 4), "peak": 0}
        finally:
            tracemalloc.stop()

    def reduction(x, name, axes, dt, keepdims):
        kw = {"axis": tuple(axes), "keepdims": bool(keepdims)}
        if dt is not None:
            kw["dtype"] = np.dtype(dt)
        f = getattr(sparse, name)
        return lambda: f(x, **kw)

    def gcxs_json(g):
        return {
            "shape": [int(d) for d in g.shape],
            "caxes": None if g.compressed_axes is None else [int(a) for a in g.compressed_axes],
            "indptr": [] if g.indptr is None or g.ndim <= 1 else np.asarray(g.indptr).tolist(),
            "indices": np.asarray(g.indices).ravel().tolist() if g.ndim >= 1 else [],
            "data": np.asarray(g.data).tolist(),
            "fill": int(g.fill_value),
        }

    def gcxs(j):
        if j["caxes"] is None:
            return sparse.GCXS((np.asarray(j["data"], dtype=np.int64), np.asarray(j["indices"], dtype=np.int64), ()),
                               shape=tuple(j["shape"]), compressed_axes=None, fill_value=j["fill"])
        return sparse.GCXS((np.asarray(j["data"], dtype=np.int64), np.asarray(j["indices"], dtype=np.int64), np.asarray(j["indptr"], dtype=np.int64)),
                           shape=tuple(j["shape"]), compressed_axes=tuple(j["caxes"]), fill_value=j["fill"])

    def index(js):
        out = []
        for e in js:
            k = e[0]
            if k == "i":
                out.append(e[1])
            elif k == "s":
                out.append(slice(e[1], e[2], e[3]))
            elif k == "n":
                out.append(None)
            elif k == "e":
                out.append(Ellipsis)
            elif k == "a":
                out.append(np.asarray(e[1], dtype=np.int64))
            elif k == "b":
                out.append(np.asarray(e[1], dtype=bool))
        return tuple(out)

    def operand(o, fmt=None):
        if "coo" in o:
            x = coo(o["coo"])
            fmt = o.get("format", fmt)      # an operand may name its own format (a 1-d GCXS has no compressed axes)
            return x if fmt is None else as_fmt(x, fmt)
        if "scalar" in o:
            return o["scalar"]
        d = o["dense"]
        return np.asarray(d["flat"], dtype=np.int64).reshape(d["shape"])

    def as_fmt(x, fmt):
        """fmt: None | "coo" | ["gcxs", caxes|None] | "dok" """
        if fmt is None or fmt == "coo":
            return x
        if fmt == "dok":
            return sparse.DOK.from_coo(x)
        return sparse.GCXS.from_coo(x, compressed_axes=None if fmt[1] is None else tuple(fmt[1]))

    def rep(r, want_coo=False):
        if isinstance(r, sparse.COO):
            return impl.coo_json(r)
        if isinstance(r, sparse.GCXS):
            if want_coo:
                # GCXS results of operations without a GCXS model are compared through their own tocoo()
                return {"gcxs": {"shape": [int(d) for d in r.shape], "caxes": None if r.compressed_axes is None else [int(a) for a in r.compressed_axes]},
                        "coo": impl.coo_json(r.tocoo())}
            return {"gcxs": gcxs_json(r)}
        if isinstance(r, sparse.DOK):
            return {"dok": impl.coo_json(r.asformat("coo"))}
        if isinstance(r, np.ndarray):
            if r.size > 10_000:
                return {"ndarray_shape": list(r.shape)}
            return {"ndarray": r.tolist()}
        if isinstance(r, int | np.integer | np.bool_):
            return {"scalar": int(r)}
        return {"scalar": int(r) if float(r) == int(r) else float(r)}

    def run(c):
        op = c["op"]
        fmt = c.get("format")
        if op == "noop":
            return {"scalar": 0}
        if op == "calibrate":
            import loadtol

            return loadtol.reference()
        if op in ("transpose", "reshape", "flip", "roll", "squeeze", "expand_dims", "getitem", "reduce", "triu", "tril", "diagonal",
                  "from_coo", "roundtrip", "method", "asformat"):
            x = as_fmt(coo(c["x"]), fmt)
        if op == "transpose":
            return lambda: x.transpose(tuple(c["axes"]))
        if op == "reshape":
            return lambda: x.reshape(tuple(c["shape"]))
        if op == "flip":
            return lambda: sparse.flip(x, axis=tuple(c["axes"]))
        if op == "roll":
            return lambda: sparse.roll(x, tuple(c["shifts"]), axis=tuple(c["axes"]))
        if op == "squeeze":
            return lambda: sparse.squeeze(x, axis=tuple(c["axes"]))
        if op == "expand_dims":
            return lambda: sparse.expand_dims(x, axis=c["axis"])
        if op == "getitem":
            idx = index(c["index"])
            return lambda: x[idx]
        if op == "elemwise":
            ops = [operand(o, fmt) for o in c["operands"]]
            f = UF[c["func"]]
            return lambda: f(*ops)
        if op == "reduce":
            f = UF[c["ufunc"]]
            ax = None if c["axes"] is None else tuple(c["axes"])
            return lambda: x.reduce(f, axis=ax, keepdims=c["keepdims"])
        if op in ("concat", "stack"):
            xs = [as_fmt(coo(j), fmt) for j in c["xs"]]
            return (lambda: sparse.concatenate(xs, axis=c["axis"])) if op == "concat" else (lambda: sparse.stack(xs, axis=c["axis"]))
        if op in ("triu", "tril"):
            return lambda: getattr(sparse, op)(x, c["k"])
        if op == "diagonal":
            return lambda: sparse.diagonal(x, offset=c["offset"], axis1=c["axis1"], axis2=c["axis2"])
        if op == "from_coo":
            ca = c["caxes"]
            return lambda: sparse.GCXS.from_coo(x, compressed_axes=None if ca is None else tuple(ca))
        if op == "tocoo":
            g = gcxs(c["g"])
            return lambda: g.tocoo()
        if op == "asformat":
            kw = c.get("kwargs", {})
            kw = {k: (tuple(v) if isinstance(v, list) else v) for k, v in kw.items()}
            return lambda: x.asformat(c["to"], **kw)
        if op == "roundtrip":
            # COO -> DOK -> COO (dict of coordinate tuples)
            return lambda: sparse.DOK.from_coo(x).asformat("coo")
        if op == "method":
            # any method / function by name: {"name": "var", "where": "method"|"sparse", "args": […], "kwargs": {…}}
            args = [tuple(a) if isinstance(a, list) else a for a in c.get("args", [])]
            kw = {k: (tuple(v) if isinstance(v, list) else v) for k, v in c.get("kwargs", {}).items()}
            if c.get("where") == "sparse":
                return lambda: getattr(sparse, c["name"])(x, *args, **kw)
            return lambda: getattr(x, c["name"])(*args, **kw)
        if op == "reduce_batch":
            # {"x": typed coo, "items": [[name, axes, dtype|null, keepdims], ...]}: every item measured on its own; each (name, dtype argument) is
            # first run on a small array of the same dtype and rank, so that compilation is not the item's time or memory
            x = as_fmt(coo(c["x"]), fmt)
            small = coo(dict(c["x"], shape=[3] * len(c["x"]["shape"]), coords=[[0] * len(c["x"]["shape"]), [1] * len(c["x"]["shape"])], data=c["x"]["data"][:2]))
            seen = set()
            for name, axes, dt, kd in c["items"]:
                if (name, dt, len(axes)) not in seen:
                    seen.add((name, dt, len(axes)))
                    try:
                        reduction(small, name, axes, dt, kd)()
                    except Exception:  # noqa: BLE001
                        pass
            return {"items": [measured(reduction(x, name, axes, dt, kd)) for name, axes, dt, kd in c["items"]]}
        if op == "mixed":
            # one sparse operand (any format) and one small dense ndarray: {"x", "format", "dense": generator spec, "func", "order": "xd"|"dx"}
            x = as_fmt(coo(c["x"]), fmt)
            d = dense_gen(c["dense"])
            f = getattr(np, c["func"])
            args = (x, d) if c["order"] == "xd" else (d, x)
            if c.get("operator"):
                import operator as _op

                f = getattr(_op, c["operator"])
            return lambda: f(*args)
        if op == "fn":
            # a function of the namespace on one array or a list of arrays: {"name", "xs": [coo…], "as_list": bool, "args": […], "kwargs": {…}};
            # {"array": […]} in args is an integer ndarray; a 0-d sparse result is reported as its scalar
            xs = [as_fmt(coo(j), fmt) for j in c["xs"]]
            args = [np.asarray(a["array"], dtype=np.int64) if isinstance(a, dict) and "array" in a else (tuple(a) if isinstance(a, list) else a)
                    for a in c.get("args", [])]
            kw = {k: (tuple(v) if isinstance(v, list) else v) for k, v in c.get("kwargs", {}).items()}
            f = getattr(sparse, c["name"])
            first = xs if c.get("as_list") else xs[0]

            def call():
                r = f(first, *args, **kw)
                if isinstance(r, sparse.SparseArray) and r.ndim == 0:
                    return r.todense()[()]
                return r
            return call
        if op == "product":
            a = as_fmt(coo(c["a"]), c.get("format_a"))
            b = as_fmt(coo(c["b"]), c.get("format_b"))
            kind = c["kind"]
            if kind == "matmul":
                return lambda: a @ b
            if kind == "dot":
                return lambda: sparse.dot(a, b)
            return lambda: sparse.tensordot(a, b, axes=c.get("axes", 1))
        raise ValueError(f"unknown op {op}")

    out = sys.stdout
    for line in sys.stdin:
        line = line.strip()
        if not line:
            continue
        c = json.loads(line)
        ans = {"id": c.get("id")}
        try:
            thunk = run(c)
            if isinstance(thunk, dict):
                ans.update(out=thunk and {"ok": thunk}, peak=0, secs=0.0)
            else:
                if c.get("warm"):
                    thunk()  # compile the kernels first: JIT time and memory are not the operation's
                if c.get("untraced"):
                    # time only: tracemalloc charges ~10 µs to every allocation, and a kernel that allocates per row (the row sort of
                    # _dot_csr_csr) on 10^6 rows would be timed for its tracing, not for its work
                    t0, c0 = time.perf_counter(), time.process_time()
                    r = thunk()
                    secs, cpu = time.perf_counter() - t0, time.process_time() - c0
                    peak = 0
                else:
                    tracemalloc.start()
                    tracemalloc.reset_peak()
                    t0, c0 = time.perf_counter(), time.process_time()
                    try:
                        r = thunk()
                        secs, cpu = time.perf_counter() - t0, time.process_time() - c0
                        peak = tracemalloc.get_traced_memory()[1]
                    finally:
                        tracemalloc.stop()
                ans.update(out={"ok": typed_json(r) if c.get("typed") else rep(r, bool(c.get("want_coo")))}, peak=int(peak), secs=round(secs, 4), cpu=round(cpu, 4), result_type=type(r).__name__,
                           nnz_out=int(getattr(r, "nnz", 1)), maxrss_kb=resource.getrusage(resource.RUSAGE_SELF).ru_maxrss)
        except BaseException as e:  # noqa: BLE001
            if isinstance(e, KeyboardInterrupt | SystemExit):
                raise
            ans["out"] = {"err": "memory" if isinstance(e, MemoryError) else impl.err_class(e), "type": type(e).__name__, "msg": str(e)[:300]}
        out.write(json.dumps(ans, separators=(",", ":")) + "\n")
        out.flush()


if __name__ == "__main__":
    main()

"""Regions of the known findings of property C20 (see KNOWN_FINDINGS.txt).

classify(name, case, msg) -> finding id | None.  `name` is the leg-C family, `case` the case record written
by harness/c20.py, `msg` the observed failure.  A region is the decidable `Excluded…` predicate of the
corresponding Lean statement (evaluated by the Lean driver, the harness stores its value in the case, or
re-stated here on the operation's ranks) together with "the model predicts the observed wrong behaviour";
anything else is reported as a VIOLATION.
"""
from __future__ import annotations


def classify(name, case, msg):
    if not isinstance(case, dict):
        return None
    if name == "to_numpy:order":
        # SparseV.C20.ExcludedOrder order shape (driver op c20_excluded_order) and model(arg_order) == backend output
        if case.get("excluded_order") is True and case.get("model_agrees") is True:
            return "F-to-numpy-order"
        return None
    # Excluded histories of the ownership theorems (SparseV.Own.ExcludedHistory): a rank-1 -> rank-1 reshape, whose
    # owning result aliases its operand.  Region: exactly those operations, and only the aliasing symptoms.
    if name.startswith("reshape:") and case.get("op") == "reshape" and case.get("operand_ranks") == [1] \
            and case.get("result_rank") == 1 and "aliasing" in msg:
        return "F-reshape-1d-alias"
    if name == "ownership:aliasing" and case.get("aliased_results") \
            and set(case["aliased_results"]) <= set(case.get("rank1_reshapes", [])):
        return "F-reshape-1d-alias"
    # … and the aliasing result reads released memory once its operand's buffer is gone (use after free)
    if name == "ownership:survivors" and case.get("aliased_results") \
            and set(case["aliased_results"]) <= set(case.get("rank1_reshapes", [])) \
            and set(case.get("bad_survivors", ["?"])) <= set(case["aliased_results"]):
        return "F-reshape-1d-alias"
    # ---- inputs consumed by every operation (harness/c20.py gen_consume / check_consume)
    if name.startswith("consume:"):
        op = case.get("op")                      # None: the worker was killed while the task ran
        kernel_op = op is None or op.startswith(("add", "asformat", "reshape"))
        noncontig = case.get("parts_layout") in ("strided", "negative") or \
            any(l in ("strided", "negative") for l in (case.get("array_layouts") or []))
        # F-c20-strided-constituent-arrays.  Region: a constituent array that is not C-contiguous — given to
        # from_constituent_arrays, or the attribute of a scipy input (asarray(copy=None/False) hands it on as it is) — and an
        # operation executed by a compiled kernel (the kernels take identity-layout memrefs; get_constituent_arrays / to_scipy,
        # which honour the strides, are right).  copy=True copies the scipy attributes and is outside the region.
        if noncontig and kernel_op and not (name.startswith("consume:scipy:") and case.get("copy") is True):
            return "F-c20-strided-constituent-arrays"
        # F-c20-noncanonical-scipy-operand.  Region: a scipy input with has_canonical_format == False (asarray then builds level
        # formats with the NonOrdered / NonUnique properties) and an operation executed by a compiled kernel; for duplicate entries
        # also the meaning of the backend array itself (SparseV.C20.ExcludedDuplicates: the level walk reads the first of two
        # entries with the same index, scipy means their sum — scipy_meaning_sum_counterexample / _partial).
        if name.startswith("consume:scipy:") and case.get("scipy_canonical") is False and not noncontig:
            if kernel_op or (op == "meaning" and "duplicate" in str(case.get("input"))):
                return "F-c20-noncanonical-scipy-operand"
    return None

"""C13, second half: shared state other than the COO caches.

S  (sentinel, leg C)   "a read-only call writes shared state": every read operation of the public API (the operation tables of
   harness/extra_ops.py for C01-C05 and C08-C10, in-place spellings excluded) is run ALONE on operands of every format — DOK
   operands that really hold explicitly stored fill values and GCXS / COO ones included — under instrumentation: the operands'
   storage (every attribute, buffers byte for byte, the DOK dictionary as a multiset) and the process-global state (warnings
   filters, NumPy error state and print options, os.environ, cwd, the global random states, recursion limit, switch interval, gc,
   the library's settings, stdout / stderr / hooks) are compared before and after, and `warnings.filters` is sampled at EVERY
   executed line of sparse/ during the call.  A lasting change of an operand or of global state, or a transiently installed
   HARMFUL filter, is a failure "operation X on operand Y changes Z"; it needs no lucky interleaving.
   harmful = action "error" and (no message, or the message matches a warning the library can emit) — exactly the predicate
   `SparseV.Shared.harmful` of the Lean model, evaluated by the model driver.  A transient "ignore" filter (can_store, density,
   html_table) can only make another thread LOSE a warning: the property speaks of results and errors, so it is recorded, not
   reported, and the preemption leg below checks on the real code that it is as harmless as the theorem says.
P  (preemption, leg C)  two or three threads on SHARED operands under the traced cooperative scheduler of c13.py with every
   executed line of sparse/ as a scheduling point: thread 0 is preempted after k quanta, thread 1 runs its whole call, thread 0
   finishes (every k, or the k inside shared-state code plus an even sample); for pairs of calls that both enter a
   catch_warnings block also the non-nested order (A in, B in, A out, B out) followed by a call that warns.  Every result and
   error is compared with the sequential baseline, every shared operand's storage and the global state with the state before.
   Worker threads touch no global state themselves (no catch_warnings / errstate in the harness's threads).
A  (correspondence)  the dictionary system and the filter system of Model/SharedReads.lean against the real code: all
   interleavings of DOK.todense / DOK.asformat / a writer (DOK.__setitem__, which validates CPython's dictionary-iterator rule
   as transcribed) at the lines that touch `self.data`, and of two can_store blocks / a block and a warning call at the lines of
   the with-block — per quantum the parking line and the installed filter list, per call the outcome, at the end the dictionary
   / the filter list.  The protocols are the ones the model derives from the GENERATED tables (driver ops c13_dok_protos,
   c13_blocks), so the tables are tied to the behaviour of the code they were read from.
"""
from __future__ import annotations

import ast
import gc
import hashlib
import os
import random
import sys
import threading
import time
import warnings
from pathlib import Path

import numpy as np

import core
import gen

PID = "C13"
SPARSE_DIR = str(Path(core.REPO) / "sparse") + os.sep
DICT_MSG = "dictionary changed size during iteration"
DICT_ERR = "RuntimeError: dictionary changed size / keys changed during iteration"


# ------------------------------------------------------------------------------------------------
# process-global state, operand storage
# ------------------------------------------------------------------------------------------------

def filter_key(f):
    a, msg, cat, mod, ln = f
    pat = lambda r: "" if r is None else getattr(r, "pattern", r)  # noqa: E731  (compiled, plain string (default filters) or None)
    return (a, pat(msg), cat.__name__, pat(mod), ln)


def filters_now():
    return tuple(filter_key(f) for f in warnings.filters)


def global_state():
    import sparse.numba_backend._settings as st

    return {
        "warnings.filters": filters_now(),
        "warnings.defaultaction": warnings.defaultaction,
        "warnings.showwarning": getattr(warnings.showwarning, "__qualname__", repr(warnings.showwarning)),
        "np.geterr": tuple(sorted(np.geterr().items())),
        "np.geterrcall": repr(np.geterrcall()),
        "np.printoptions": repr(sorted(np.get_printoptions().items())),
        "os.environ": hashlib.sha1(repr(sorted(os.environ.items())).encode()).hexdigest()[:12],
        "os.getcwd": os.getcwd(),
        "random.state": hashlib.sha1(repr(random.getstate()).encode()).hexdigest()[:12],
        "np.random.state": hashlib.sha1(np.random.get_state()[1].tobytes() + bytes([np.random.get_state()[2] % 251])).hexdigest()[:12],
        "sys.recursionlimit": sys.getrecursionlimit(),
        "sys.switchinterval": sys.getswitchinterval(),
        "gc": (gc.isenabled(), gc.get_threshold()),
        "sparse._settings": tuple(sorted((k, repr(v)) for k, v in vars(st).items() if k.isupper())),
        "sys.stdio+hooks": (id(sys.stdout), id(sys.stderr), id(sys.excepthook), id(threading.excepthook)),
    }


def diff_state(a, b):
    out = []
    for k in a:
        if a[k] != b[k]:
            if k == "warnings.filters":
                out.append(f"warnings.filters: {[f for f in b[k] if f not in a[k]]} added, {[f for f in a[k] if f not in b[k]]} removed")
            else:
                out.append(f"{k}: {a[k]!r:.80} -> {b[k]!r:.80}")
    return out


def _arr(v):
    v = np.asarray(v)
    return (str(v.dtype), v.shape, v.tobytes(), bool(v.flags.writeable))


def storage(x):
    """every attribute of a sparse array (the caches excepted: C11 proves them unobservable), ndarray buffers byte for byte,
    the DOK dictionary as an order-insensitive multiset of (key, value bytes) plus its length"""
    import sparse

    if isinstance(x, np.ndarray):
        return {"<ndarray>": _arr(x)}
    if not isinstance(x, sparse.SparseArray):
        return {"<py>": repr(x)[:200]}
    res = {"<class>": type(x).__name__}
    for k, v in sorted(vars(x).items()):
        if k == "_cache":
            continue
        if isinstance(v, np.ndarray):
            res[k] = _arr(v)
        elif isinstance(v, dict):
            res[k] = ("dict", len(v), tuple(sorted((tuple(int(i) for i in kk) if isinstance(kk, tuple) else kk, _arr(vv)[:3]) for kk, vv in v.items())))
        elif isinstance(v, np.generic):
            res[k] = _arr(v)[:3]
        else:
            res[k] = repr(v)[:200]
    return res


def diff_storage(a, b):
    out = []
    for k in sorted(set(a) | set(b)):
        u, v = a.get(k), b.get(k)
        if u != v:
            if isinstance(u, tuple) and u and u[0] == "dict" and isinstance(v, tuple):
                gone = [e[0] for e in u[2] if e not in v[2]]
                new = [e[0] for e in v[2] if e not in u[2]]
                out.append(f"dictionary `{k}`: {u[1]} -> {v[1]} entries; removed keys {gone[:6]}, added/changed keys {new[:6]}")
            elif isinstance(u, tuple) and len(u) == 4 and isinstance(u[2], bytes) and isinstance(v, tuple):
                what = [n for n, p, q in zip(("dtype", "shape", "bytes", "writeable"), u, v) if p != q]
                out.append(f"buffer `{k}` changed ({'/'.join(what)})")
            else:
                out.append(f"attribute `{k}`: {u!r:.80} -> {v!r:.80}")
    return out


# ------------------------------------------------------------------------------------------------
# harmful filters (the model's predicate, via the driver)
# ------------------------------------------------------------------------------------------------

class Harm:
    """harmful(filter) as SparseV.Shared.harmful decides it, with the library catalogue extended by the warnings observed in this run"""

    def __init__(self, ctx):
        self.ctx, self.cache, self.extra = ctx, {}, []

    def observed(self, cat, text):
        w = [cat, text.lower()[:80]]
        if w not in self.extra:
            self.extra.append(w)
            self.cache.clear()

    def __call__(self, fkey):
        a, msg, cat, mod, ln = fkey
        if a != "error":
            return False
        k = (a, msg, cat)
        if k not in self.cache:
            if mod or ln or not all(c.isalnum() or c in " _-" for c in msg):
                self.cache[k] = True  # not in the model's language: conservative
            else:
                out = self.ctx.driver.run([["c13_harmful", [a, msg.lower(), cat], self.extra]])[0]
                self.cache[k] = bool(out.get("ok", True))
        return self.cache[k]


# ------------------------------------------------------------------------------------------------
# S: the sentinel
# ------------------------------------------------------------------------------------------------

INPLACE = ("+=", "-=", "*=", "/=", "//=", "%=", "**=", "&=", "|=", "^=", "<<=", ">>=", "@=", "out=")
READ_TABLES = ("C01", "C02", "C03", "C04", "C05", "C08", "C09", "C10")


def read_ops():
    import extra_ops as E

    ops = []
    for pid in READ_TABLES:
        for op in E.TABLES[pid]:
            if any(t in op.name for t in INPLACE):
                continue
            ops.append((pid, op))
    return ops


def with_stored_fill(rng, x):
    """the same array value, but with explicitly stored fill-valued entries (a legal array: `every stored subset`)"""
    import sparse

    if not isinstance(x, sparse.SparseArray) or x.ndim == 0 or x.size == 0:
        return x, False
    coo = x.asformat("coo") if not isinstance(x, sparse.COO) else x
    dense = coo.todense()
    stored = np.zeros(x.shape, dtype=bool)
    if coo.nnz:
        stored[tuple(coo.coords)] = True
    extra = (~stored) & (rng.random(size=x.shape) < 0.4)
    if not extra.any():
        extra[tuple(0 for _ in x.shape)] = not stored[tuple(0 for _ in x.shape)]
    st = stored | extra
    if not (st & ~stored).any():
        return x, False
    co = np.argwhere(st)
    c2 = sparse.COO(co.T.reshape(x.ndim, len(co)), dense[st], shape=x.shape, fill_value=coo.fill_value, sorted=True, has_duplicates=False, prune=False)
    if isinstance(x, sparse.DOK):
        return sparse.DOK.from_coo(c2), True
    if isinstance(x, sparse.GCXS):
        return sparse.GCXS.from_coo(c2, compressed_axes=x.compressed_axes), True
    return c2, True


CANON = {"b": "bool", "i": "int64", "u": "int64", "f": "float64", "c": "complex128"}


def build_canonical(rng, E, specs, fmt, single=False):
    """quick tier: the operands of the drawn case in canonical dtypes (bool / int64 / float64 / complex128, default index type) —
    whether a read writes shared state does not depend on the element type, and every further (kernel, dtype) pair costs a
    numba compilation of about two seconds"""
    import sparse

    xs, ds, descs = [], [], []
    for j, sp in enumerate(specs):
        if "raw" in sp:
            xs.append(sp["raw"]); ds.append(sp["raw"]); descs.append({"raw": E.jsonable(sp["raw"])})
            continue
        d = np.asarray(sp["dense"])
        dt = CANON.get(d.dtype.kind, str(d.dtype))
        if single:  # products: one kernel per operand-format pair instead of one per pair of element types
            dt, d = "float64", (d.real if d.dtype.kind == "c" else d)
        with np.errstate(all="ignore"), warnings.catch_warnings():
            warnings.simplefilter("ignore")
            d = d.astype(dt)
            f = np.asarray(sp["fill"]).astype(dt)[()]
        f0 = sp.get("format") or fmt
        if f0 == "dok" and d.ndim == 0:
            f0 = "coo"
        c = sparse.COO.from_numpy(d, fill_value=f)
        if f0 == "coo":
            x, how = c, "coo:from_numpy"
        elif f0 == "gcxs":
            ca = None
            if d.ndim >= 2:
                ch = gen.compressed_axes_choices(d.ndim)
                ca = tuple(int(a) for a in ch[int(rng.integers(len(ch)))])
            x, how = sparse.GCXS.from_coo(c, compressed_axes=ca), f"gcxs{list(ca) if ca else ''}:from_coo"
        else:
            if rng.random() < 0.5 and d.ndim:
                x, how = sparse.DOK(d.shape, {tuple(int(i) for i in k): d[tuple(k)] for k in c.coords.T}, dtype=d.dtype, fill_value=f), "dok:dict"
            else:
                x, how = sparse.DOK.from_coo(c), "dok:from_coo"
        try:
            x._how = how
        except Exception:  # noqa: BLE001
            pass
        xs.append(x); ds.append(d)
        descs.append({"format": how, "dense": E.jsonable(d), "fill": repr(f)})
    return xs, ds, descs


class LineSampler:
    """sys.settrace sampler: `warnings.filters` at every executed line (and return) of sparse/ frames"""

    def __init__(self):
        self.last = tuple(warnings.filters)
        self.base = self.last
        self.events = []  # (function, line, filter keys) whenever the installed list differs from the previous sample

    def _sample(self, frame):
        cur = tuple(warnings.filters)
        if cur != self.last:
            self.last = cur
            self.events.append((frame.f_code.co_name, frame.f_lineno, tuple(filter_key(f) for f in cur)))

    def local(self, frame, event, arg):
        if event in ("line", "return"):
            self._sample(frame)
        return self.local

    def glob(self, frame, event, arg):
        if event == "call" and frame.f_code.co_filename.startswith(SPARSE_DIR):
            return self.local
        return None


def observe(thunk, operands):
    """run thunk alone under the sampler -> (result | exception, effects dict)"""
    before_g = global_state()
    before_s = [storage(x) for x in operands]
    smp = LineSampler()
    base_keys = filters_now()
    old = sys.gettrace()
    sys.settrace(smp.glob)
    try:
        try:
            res = ("ok", thunk())
        except Exception as e:  # noqa: BLE001
            res = ("err", e)
    finally:
        sys.settrace(old)
    after_g = global_state()
    eff = {"global": diff_state(before_g, after_g), "filters_added": [k for k in after_g["warnings.filters"] if k not in before_g["warnings.filters"]], "operands": [diff_storage(a, storage(x)) for a, x in zip(before_s, operands)],
           "transient": [(fn, ln, [k for k in keys if k not in base_keys]) for fn, ln, keys in smp.events if any(k not in base_keys for k in keys)]}
    return res, eff


def sentinel(ctx, harm, tables=READ_TABLES):
    import extra_ops as E
    import sparse

    import scipy.sparse  # noqa: F401  (its import installs an "ignore" filter for np.matrix: an effect of the import, not of a call)

    rng = gen.rng_for(ctx.seed, "C13-sentinel:" + ",".join(tables))
    E.MODE["quick"] = bool(ctx.quick)
    ops = [(pid, op) for pid, op in read_ops() if pid in tables]
    pairs = [(pid, op, f) for pid, op in ops for f in op.formats]
    rounds = 2 if ctx.quick else 8
    # round 0: every (operation, format) pair on plainly built operands; odd rounds: on operands that hold explicitly stored fill values.
    # Quick tier: DOK pairs first in each round (the dictionary is the only storage a Python-level read can edit in place), and the worker
    # stops STARTING cases when its wall budget is spent (numba compiles each further (kernel, type) pair for ~2 s): coverage then depends on
    # the machine's load, a verdict never does — every reported failure was observed.
    if ctx.quick:
        pairs.sort(key=lambda t: t[2] != "dok")
    deadline = getattr(ctx, "deadline", None)
    stats = {"operations": len(ops), "pairs": len(pairs), "planned": rounds * len(pairs), "cases": 0, "stored_fill_operands": 0, "raised": 0, "transient_filter_sites": {}, "warnings_seen": 0}
    reported = set()
    t0 = time.time()
    order = [(rnd, p) for rnd in ((1, 0) if ctx.quick else range(rounds)) for p in pairs]
    for rnd, (pid, op, fmt) in order:
        if deadline is not None and time.time() > deadline:
            stats["cut_short"] = True
            break
        spec = None
        for _ in range(6):
            spec = op.gen(rng)
            if spec is None:
                continue
            first = next((o for o in spec["operands"] if "dense" in o), None)
            if not (fmt == "dok" and first is not None and first["dense"].ndim == 0):
                break
        if spec is None:
            continue
        try:
            with warnings.catch_warnings(), np.errstate(all="ignore"):
                warnings.simplefilter("ignore")
                if ctx.quick:
                    xs, ds, descs = build_canonical(rng, E, spec["operands"], fmt, single=(pid == "C04"))
                else:
                    xs, ds, descs = E.build_operands(rng, spec["operands"], fmt, spec.get("mixed_formats", False))
                stored = False
                if rnd % 2 == 1:  # every other round: the operands hold explicitly stored fill values
                    ys = []
                    for x in xs:
                        y, did = with_stored_fill(rng, x)
                        ys.append(y)
                        stored |= did
                    xs = ys
        except Exception:  # noqa: BLE001  (operand construction is C05's business)
            continue
        a = dict(spec.get("args", {}))
        a["_fill"] = next((s["fill"] for s in spec["operands"] if "fill" in s), None)
        case = {"sentinel": True, "table": pid, "op": op.name, "format": fmt, "stored_fill": stored, "operands": descs,
                "args": E.jsonable({k: v for k, v in a.items() if not k.startswith("_")})}
        with warnings.catch_warnings(record=True) as log:
            warnings.simplefilter("always")
            res, eff = observe(lambda: op.sp(sparse, xs, a), xs)
        for w in log:
            harm.observed(w.category.__name__, str(w.message))
        stats["warnings_seen"] += len(log)
        stats["cases"] += 1
        stats["stored_fill_operands"] += int(stored)
        stats["raised"] += int(res[0] == "err")
        ctx.case(f"C:sentinel:{pid}:{op.name}:{fmt}", case, nontrivial=any(np.size(d) for d in ds))
        for j, d in enumerate(eff["operands"]):
            if d and ("operand", op.name, fmt) not in reported:
                reported.add(("operand", op.name, fmt))
                ctx.fail("C", "read-writes-operand", dict(case, operand=j),
                         f"`{op.name}` run ALONE on a {type(xs[j]).__name__} operand ({getattr(xs[j], '_how', descs[j].get('format'))}"
                         f"{', holding explicitly stored fill values' if stored else ''}) changes its storage: {'; '.join(d)[:400]}")
        # a lasting edit of the filter list is judged like a transient one: only a harmful entry can change another call's outcome
        added = eff["filters_added"]
        if added and not any(harm(k) for k in added):
            stats.setdefault("lasting_benign_filters", {}).setdefault(op.name, [str(k[:3]) for k in added])
        bad = [g for g in eff["global"] if not g.startswith("warnings.filters:") or any(harm(k) for k in added)]
        if bad and ("global", op.name) not in reported:
            reported.add(("global", op.name))
            ctx.fail("C", "read-writes-global", case, f"`{op.name}` run alone leaves process-global state changed: {'; '.join(bad)[:400]}")
        for fn, ln, keys in eff["transient"]:
            site = f"{fn}:{ln}"
            rec = stats["transient_filter_sites"].setdefault(site, {"filters": sorted({str(k[:3]) for k in keys}), "count": 0, "ops": []})
            rec["count"] += 1
            if op.name not in rec["ops"] and len(rec["ops"]) < 12:
                rec["ops"].append(op.name)
            hk = [k for k in keys if harm(k)]
            if hk and ("filter", fn) not in reported:
                reported.add(("filter", fn))
                ctx.fail("C", "read-installs-error-filter", dict(case, site=site, filters=[list(k[:3]) for k in hk]),
                         f"`{op.name}` run alone: while `{fn}` (line {ln}) executes, the process-global warnings filter list holds {hk[0][:3]} — "
                         f"action 'error' matching warnings that calls of the library emit: a call in ANOTHER thread that merely warns when run alone "
                         f"(1/s, log(s), g/g, matmul with NaN) raises while this call is in there")
    stats["wall_s"] = round(time.time() - t0, 1)
    ctx.notes["sentinel"] = stats
    return stats


def sentinel_main(seed, quick, tables, budget):
    """`c13_shared.py --sentinel`: one worker over some of the operation tables; prints one JSON line"""
    import json

    ctx = core.Ctx(PID, "quick" if quick else "thorough", seed)
    ctx.deadline = (time.time() + budget) if budget > 0 else None
    harm = Harm(ctx)
    try:
        stats = sentinel(ctx, harm, tables=tuple(tables))
    except Exception as e:  # noqa: BLE001
        import traceback

        print(json.dumps({"infra": f"{type(e).__name__}: {e}", "trace": traceback.format_exc()[-800:]}))
        return 0
    print(json.dumps({"stats": stats, "failures": ctx.failures[:40], "by_family": ctx.cov.get("by_family", {}), "evaluations": ctx.cov["evaluations"]}, default=str))
    return 0


# thorough tier: every table, four workers, no budget.  Quick tier: ONE worker over the tables whose calls need few numba kernels beyond
# those the other legs compile anyway (element-wise, conversions, shape calls, reductions: 190 of the 241 operations); indexing, products,
# joins and searches reach the same detector through the shared worlds of the preemption and stress legs (storage and global state are
# compared after every one of their runs).
WORKER_GROUPS = (("C01", "C05", "C08"), ("C03", "C09"), ("C02", "C10"), ("C04",))
QUICK_GROUPS = (("C01", "C05", "C08", "C03"),)


def start_sentinels(ctx):
    import subprocess

    env = dict(os.environ)
    env.setdefault("NUMBA_CACHE_DIR", "/var/tmp/verif-numba-cache")
    budget = 40 if ctx.quick else 0
    procs = []
    for grp in (QUICK_GROUPS if ctx.quick else WORKER_GROUPS):
        procs.append((grp, subprocess.Popen([sys.executable, str(Path(__file__).resolve()), "--sentinel", str(ctx.seed), "1" if ctx.quick else "0", ",".join(grp), str(budget)],
                                            stdout=subprocess.PIPE, stderr=subprocess.PIPE, text=True, env=env)))
    return time.time(), procs


def collect_sentinels(ctx, started):
    import json
    import subprocess

    t0, procs = started
    total = {"workers": [], "cases": 0, "planned": 0, "operations": 0, "pairs": 0, "stored_fill_operands": 0, "transient_filter_sites": {}, "lasting_benign_filters": {}}
    for grp, proc in procs:
        try:
            out, err = proc.communicate(timeout=max(20.0, (150 if ctx.quick else 6000) - (time.time() - t0)))
        except subprocess.TimeoutExpired:
            proc.kill()
            proc.communicate()
            ctx.broke("infrastructure:sentinel", f"worker {grp}: deadline exceeded")
            continue
        try:
            res = json.loads(out.strip().splitlines()[-1])
        except Exception:  # noqa: BLE001
            ctx.broke("infrastructure:sentinel", f"worker {grp} rc={proc.returncode}: {err[-400:]}")
            continue
        if "infra" in res:
            ctx.broke("infrastructure:sentinel", f"worker {grp}: {res['infra']} {res.get('trace', '')[-300:]}")
            continue
        st = res["stats"]
        total["workers"].append({"tables": list(grp), "cases": st["cases"], "planned": st.get("planned"), "wall_s": st.get("wall_s"), "cut_short": st.get("cut_short", False)})
        for k in ("cases", "operations", "pairs", "stored_fill_operands"):
            total[k] += st.get(k, 0)
        total["planned"] += st.get("planned", 0)
        for site, rec in st["transient_filter_sites"].items():
            t = total["transient_filter_sites"].setdefault(site, {"filters": rec["filters"], "count": 0, "ops": []})
            t["count"] += rec["count"]
            t["ops"] = (t["ops"] + rec["ops"])[:12]
        total["lasting_benign_filters"].update(st.get("lasting_benign_filters", {}))
        fam = ctx.cov.setdefault("by_family", {})
        for k, v in res.get("by_family", {}).items():
            fam[k] = fam.get(k, 0) + v
        ctx.cov["evaluations"] += res.get("evaluations", 0)
        for f in res["failures"]:
            ctx.fail(f["leg"], f["family"], f["case"], f["detail"], finding=f.get("finding"))
    total["wall_s"] = round(time.time() - t0, 1)
    ctx.notes["sentinel"] = total
    return total


# ------------------------------------------------------------------------------------------------
# P: preemption-bounded exploration on shared operands
# ------------------------------------------------------------------------------------------------

def shared_world(seed):
    """shared operands (rebuilt for every run: a schedule must not inherit the previous one's damage) and named read-only calls"""
    import sparse

    rng = gen.rng_for(seed, "C13-shared-world")
    dA = gen.dense(rng, (4, 5), 0, density=0.5).astype(np.float64)
    st = (dA != 0) | (rng.random(size=dA.shape) < 0.35)
    st[0, 0], st[3, 4] = True, True
    dA[0, 0], dA[3, 4] = 0.0, 2.5
    co = np.argwhere(st)
    Cz = sparse.COO(co.T.copy(), dA[st], shape=dA.shape, prune=False, sorted=True, has_duplicates=False)  # holds explicitly stored zeros
    d3 = gen.dense(rng, (2, 3, 4), 0, density=0.6).astype(np.float64)
    d3[0, 0, 0], d3[1, 2, 3] = 0.0, 4.0
    dT = gen.dense(rng, (5, 3), 0, density=0.6).astype(np.float64)
    dT[1, 1] = np.nan
    o = {
        "Ds": sparse.DOK.from_coo(Cz),                                   # DOK that really stores fill values
        "Dd": sparse.DOK(dA.shape, {tuple(int(i) for i in k): dA[tuple(k)] for k in np.argwhere(dA != 0)}, dtype=dA.dtype),
        "Dn": sparse.DOK.from_numpy(d3),
        "Cz": Cz,
        "Gz": sparse.GCXS.from_coo(Cz, compressed_axes=(0,)),
        "S2": sparse.COO.from_numpy(dA),
        "S": sparse.COO.from_numpy(d3),
        "G": sparse.GCXS.from_numpy(dA, compressed_axes=(0,)),
        "G3": sparse.GCXS.from_numpy(d3, compressed_axes=(1,)),
        "T": sparse.COO.from_numpy(dT),
    }
    calls = {
        # reads of a shared DOK (every one of them goes through DOK.asformat('coo') or iterates the dictionary)
        "dok:todense": lambda o: o["Ds"].todense(),
        "dok:asformat-coo": lambda o: o["Ds"].asformat("coo"),
        "dok:asformat-gcxs": lambda o: o["Ds"].asformat("gcxs"),
        "dok:to_coo.T": lambda o: o["Ds"].to_coo().T,
        "dok:getitem": lambda o: o["Ds"][1:, ::2],
        "dok:fancy-getitem": lambda o: o["Ds"][[0, 3, 1], [0, 4, 1]],
        "dok:add": lambda o: o["Ds"] + o["Ds"],
        "dok:sum": lambda o: o["Ds"].to_coo().sum(axis=0),
        "dok:reshape": lambda o: o["Ds"].reshape((5, 4)),
        "dok:nnz": lambda o: o["Ds"].nnz,
        "dok:plain-todense": lambda o: o["Dd"].todense(),
        "dok:plain-mul": lambda o: o["Dd"] * 2.0,
        "dok:3d-getitem": lambda o: o["Dn"][1, :, 1:],
        # calls that consult the index-type helper (a catch_warnings block inside)
        "cs:reshape": lambda o: o["S"].reshape((6, 4)),
        "cs:concatenate": lambda o: sparse.concatenate([o["S2"], o["Cz"]], axis=1),
        "cs:to-gcxs": lambda o: o["S"].asformat("gcxs", compressed_axes=(1,)),
        "cs:gcxs-tocoo": lambda o: o["G3"].tocoo(),
        "cs:change-axes": lambda o: o["G3"].change_compressed_axes((2,)),
        "cs:gcxs-getitem": lambda o: o["G3"][1:, ::2, 3],
        "cs:gcxs-stored-fill-sum": lambda o: o["Gz"].sum(axis=1),
        "cs:density": lambda o: o["S"].density,
        # calls that merely WARN when run alone (non-finite fill values, NaN operand)
        "warn:reciprocal": lambda o: 1.0 / o["S2"],
        "warn:log": lambda o: np.log(o["S2"]),
        "warn:self-divide": lambda o: o["G"] / o["G"],
        "warn:matmul-nan": lambda o: sparse.matmul(o["S2"], o["T"]),
    }
    return o, calls


def canon(tag, r):
    """comparable form of a call's result, computed by the MAIN thread after the run"""
    import sparse

    if tag != "ok":
        return ("err", f"{type(r).__name__}: {str(r)[:90]}")
    if isinstance(r, sparse.SparseArray):
        return ("ok", type(r).__name__, r.shape, str(r.dtype), _arr(r.fill_value)[:3], r.todense().tobytes())
    if type(r).__module__.startswith("scipy.sparse"):
        return ("ok", type(r).__name__, r.shape, str(r.dtype), bool(r.has_canonical_format), r.toarray().tobytes(),
                r.indices.tobytes(), r.indptr.tobytes(), r.data.tobytes())
    r2 = np.asarray(r)
    return ("ok", type(r).__name__, r2.shape, str(r2.dtype), r2.tobytes())


def short(o):
    return repr(tuple(v if not isinstance(v, bytes) else f"<{len(v)} bytes #{hash(v) & 0xffff:x}>" for v in o))[:170]


class Phases:
    """policy: [(thread, quanta | None = until it finishes), …], then the lowest enabled id"""

    def __init__(self, phases):
        self.phases = [[t, n] for t, n in phases]

    def choose(self, enabled, at, last, q):
        while self.phases:
            t, n = self.phases[0]
            if t not in enabled or n == 0:
                self.phases.pop(0)
                continue
            if n is not None:
                self.phases[0][1] = n - 1
            return t
        return min(enabled)

    def fast(self, tid):
        """the running thread may skip its scheduling points while the current phase lets it run until it finishes"""
        return bool(self.phases) and self.phases[0][0] == tid and self.phases[0][1] is None


def _wanted(code):
    return code.co_filename.startswith(SPARSE_DIR)


class Probe:
    """classify(frame) for the scheduler: the parking point, whether it lies in code that handles the DOK dictionary, and whether the
    installed warnings filter list differs from the one installed before the run (sampled by the parked thread itself)"""

    def __init__(self):
        self.base = tuple(warnings.filters)

    def __call__(self, frame):
        f = frame.f_code.co_filename
        return ("line", os.path.basename(f), frame.f_code.co_name, frame.f_lineno, tuple(warnings.filters) != self.base, f.endswith("_dok.py"))


def run_shared(seed, names, phases, deadline_s=40.0, post=None):
    """one schedule: thread i runs calls[names[i]] on a FRESH shared world -> dict(outs, sched, infos, storage diffs, global diffs, post outcome)"""
    import c13

    o, calls = shared_world(seed)
    before_s = {k: storage(v) for k, v in o.items()}
    before_g = global_state()
    probe = Probe()
    coop = c13.Coop(len(names), Phases(phases), _wanted, probe, deadline_s)
    outs = coop.run([[(lambda f=calls[n]: f(o))] for n in names])
    res = {"outs": [canon(*th[0]) if th else ("err", "harness: no outcome") for th in outs],
           "sched": [t for t, _ in coop.quanta], "infos": [i for _, i in coop.quanta]}
    res["post"] = None
    if post is not None:  # a call made by the main thread after every worker has finished
        try:
            res["post"] = canon("ok", calls[post](o))
        except Exception as e:  # noqa: BLE001
            res["post"] = canon("err", e)
    res["storage"] = {k: d for k, v in o.items() if (d := diff_storage(before_s[k], storage(v)))}
    after_g = global_state()
    res["global"] = diff_state(before_g, after_g)
    res["filters_added"] = [k for k in after_g["warnings.filters"] if k not in before_g["warnings.filters"]]
    return res


def preempt_leg(ctx, harm):
    import c13

    rng = gen.rng_for(ctx.seed, "C13-preempt")
    o, calls = shared_world(ctx.seed)
    stats = {"pairs": 0, "runs": 0, "quanta": 0, "solo_quanta": {}, "in_block_points": {}, "lasting_benign_filters": 0, "nonnested_runs": 0}
    t0 = time.time()
    with warnings.catch_warnings():
        warnings.simplefilter("ignore")  # installed by the MAIN thread around every run; worker threads never touch the filters
        # warm-up (compilation), sequential baseline, and the solo trace of every call
        base, solo = {}, {}
        for n, f in calls.items():
            for _ in range(2):
                o1, c1 = shared_world(ctx.seed)
                try:
                    base[n] = canon("ok", c1[n](o1))
                except Exception as e:  # noqa: BLE001
                    base[n] = canon("err", e)
            try:
                r = run_shared(ctx.seed, [n], [(0, 10 ** 9)])  # counted phase: every line is recorded
            except c13.SchedulerTimeout as e:
                ctx.broke("infrastructure:scheduler", str(e))
                return
            solo[n] = r["infos"]
            stats["solo_quanta"][n] = len(r["infos"])
            if r["outs"][0] != base[n]:
                ctx.fail("C", "preempt", {"shared": True, "threads": 1, "progs": [[n]]}, f"`{n}` under the tracer alone: {short(r['outs'][0])}; untraced {short(base[n])}")
        failures = [0]

        def judge(names, phases, r, extra=None):
            case = {"shared": True, "threads": len(names), "progs": [[n] for n in names], "phases": [list(p) for p in phases], "schedule": r["sched"],
                    "scheduling_points": "every executed line of sparse/", **(extra or {})}
            stats["runs"] += 1
            stats["quanta"] += len(r["sched"])
            ctx.case("C:preempt:" + "+".join(n.split(":")[0] for n in names), {k: v for k, v in case.items() if k != "schedule"} | {"quanta": len(r["sched"])},
                     nontrivial=len(set(r["sched"])) > 1)
            msgs = []
            for i, n in enumerate(names):
                if r["outs"][i] != base[n]:
                    msgs.append(f"thread {i} `{n}`: concurrently {short(r['outs'][i])}; alone {short(base[n])}")
            for k, d in r["storage"].items():
                msgs.append(f"shared operand {k} ({type(o[k]).__name__}) is changed by read-only calls: {'; '.join(d)[:300]}")
            if extra and extra.get("post") and r["post"] != base[extra["post"]]:
                msgs.append(f"`{extra['post']}` called AFTER all threads had finished: {short(r['post'])}; alone {short(base[extra['post']])}")
            g = [x for x in r["global"] if not x.startswith("warnings.filters:") or any(harm(k) for k in r["filters_added"])]
            if r["filters_added"] and not g:
                stats["lasting_benign_filters"] += 1
            if g:
                msgs.append(f"process-global state differs after the run: {'; '.join(g)[:300]}")
            if msgs and failures[0] < 12:
                failures[0] += 1
                where = ""
                pre = [i for t, i in zip(r["sched"], r["infos"]) if t == 0]
                k = phases[0][1]
                if isinstance(k, int) and 0 < k < len(solo[names[0]]):
                    nxt = solo[names[0]][k] if k < len(solo[names[0]]) else None
                    where = f" [thread 0 preempted after {k} quanta, parked before {nxt[1]}:{nxt[2]}:{nxt[3]}]" if nxt and nxt[0] == "line" else ""
                ctx.fail("C", "preempt", case, "; ".join(msgs)[:900] + where)
            return not msgs

        def points(n, want, cap):
            """preemption points of call n: every quantum index whose parking point satisfies `want`, plus an even sample"""
            infos = solo[n]
            hot = [k for k, i in enumerate(infos) if k and i[0] == "line" and want(i)]
            m = len(infos)
            even = sorted({int(v) for v in np.linspace(1, max(1, m - 1), num=min(cap, max(1, m - 1)))})
            if len(hot) > 2 * cap:
                hot = [hot[int(j)] for j in sorted(rng.choice(len(hot), size=2 * cap, replace=False))]
            return sorted(set(hot) | set(even))

        dok = [n for n in calls if n.startswith("dok:")]
        cs = [n for n in calls if n.startswith("cs:")]
        wn = [n for n in calls if n.startswith("warn:")]
        cap = 4 if ctx.quick else 60
        plan = []
        # (1) two reads of shared DOKs: preempt the first wherever it is inside _dok.py (the code that handles the dictionary)
        victims = ["dok:todense", "dok:asformat-coo", "dok:getitem", "dok:add", "dok:plain-todense"] if ctx.quick else dok
        for p in dok:
            for q in victims:
                plan.append((p, q, lambda i: i[5]))
        # (2) a call that edits the warnings filters transiently vs a call that warns: preempt wherever the installed list differs
        for p in cs:
            for q in wn:
                plan.append((p, q, lambda i: i[4]))
        # (3) the other way round, and warners vs DOK reads (nothing shared: must be independent)
        for p in wn[:2]:
            for q in (cs[:2] + dok[:1]):
                plan.append((p, q, lambda i: False))
        try:
            for p, q, want in plan:
                stats["pairs"] += 1
                for k in points(p, want, cap):
                    phases = [(0, k), (1, None), (0, None)]
                    judge([p, q], phases, run_shared(ctx.seed, [p, q], phases))
            # (4) two blocks left in NON-NESTED order (A in, B in, A out, B out), then a call that warns, made after both finished
            inb = {n: [k for k, i in enumerate(solo[n]) if k and i[0] == "line" and i[4]] for n in cs}
            stats["in_block_points"] = {n: len(v) for n, v in inb.items()}
            users = [n for n in cs if inb[n]]
            trip = [(a, b) for a in users for b in users][: (6 if ctx.quick else 64)]
            for a, b in trip:
                for ka in inb[a][: (3 if ctx.quick else 12)]:
                    for kb in inb[b][: (3 if ctx.quick else 12)]:
                        phases = [(0, ka), (1, kb), (0, None), (1, None)]
                        w = wn[(ka + kb) % len(wn)]
                        stats["nonnested_runs"] += 1
                        judge([a, b], phases, run_shared(ctx.seed, [a, b], phases, post=w), extra={"post": w})
        except c13.SchedulerTimeout as e:
            ctx.broke("infrastructure:scheduler", str(e))
    stats["wall_s"] = round(time.time() - t0, 1)
    ctx.notes["preempt"] = stats


# ------------------------------------------------------------------------------------------------
# A: the dictionary system and the filter system against the real code
# ------------------------------------------------------------------------------------------------

def _mentions_self_data(node):
    return any(isinstance(n, ast.Attribute) and n.attr == "data" and isinstance(n.value, ast.Name) and n.value.id == "self" for n in ast.walk(node))


def dok_lines():
    """{method: {line: kind}} for the statements of DOK.todense / asformat / _setitem that touch self.data: 'for' (header of a statement
    loop over the live dictionary), 'body' (first statement of its body), 'stmt' (any other statement)"""
    tree = ast.parse((Path(core.REPO) / "sparse" / "numba_backend" / "_dok.py").read_text())
    cls = next(c for c in tree.body if isinstance(c, ast.ClassDef) and c.name == "DOK")
    res = {}
    for fn in cls.body:
        if isinstance(fn, ast.FunctionDef) and fn.name in ("todense", "asformat", "_setitem"):
            lines = {}
            for st in ast.walk(fn):
                if isinstance(st, ast.For) and _mentions_self_data(st.iter):
                    lines[st.lineno] = "for"
                    lines.setdefault(st.body[0].lineno, "body")
                elif isinstance(st, ast.stmt) and not isinstance(st, ast.FunctionDef | ast.For | ast.If | ast.While | ast.With | ast.Try):
                    if _mentions_self_data(st):
                        lines.setdefault(st.lineno, "stmt")
                elif isinstance(st, ast.If | ast.While) and _mentions_self_data(st.test):
                    lines.setdefault(st.lineno, "stmt")
            res[fn.name] = lines
    return res


def dict_classifier(lines, codes):
    """parking points of the dictionary rig.  A statement that spans several source lines (`return COO.from_iter(\n self.data, …)`) gets a
    second line event on its first line when the call itself executes: the same statement, so no second parking point"""
    last = {}

    def classify(fr):
        k = lines[codes[fr.f_code]].get(fr.f_lineno)
        tid = threading.get_ident()
        if not k:
            return None
        here = (id(fr), fr.f_lineno)
        if k == "stmt" and last.get(tid) == here:
            return None
        last[tid] = here
        return (k,)

    return classify


KIND_MODEL = {"stmt": "line", "for": "line", "scan": "line", "body": "body", "del": "del", "done": "done", "idle": "done"}
KIND_REAL = {"stmt": "line", "for": "line", "body": "body"}


def leg_dict_model(ctx, rng):
    import c13
    import sparse

    pr = ctx.driver.run([["c13_dok_protos"]])[0]
    if "ok" not in pr:
        ctx.broke("correspondence:dok-protocols", f"driver: {pr}")
        return
    protos = pr["ok"]["protos"]
    ctx.notes["dok_protocols"] = {"protos": protos, "read_methods": pr["ok"]["read_methods"], "all_read": pr["ok"]["all_read"]}
    try:
        lines = dok_lines()
    except Exception as e:  # noqa: BLE001
        ctx.broke("correspondence:dok-lines", f"DOK.todense / asformat / _setitem are not where the rig expects them: {e}")
        return
    codes = {getattr(sparse.DOK, m).__code__: m for m in lines}
    stats = {"runs": 0, "quanta": 0, "errors_with_writer": 0}
    N = 8
    pending = []

    def fresh(d0):
        x = sparse.DOK((N,), dtype=np.float64)
        for k, v in d0:
            x.data[(k,)] = np.float64(v)  # as DOK.from_coo does: stored as is, fill values included
        return x

    def thunk(x, call):
        if call[0] == "todense":
            return lambda: x.todense()
        if call[0] == "asformat":
            return lambda: x.asformat("coo")
        k, v = call[1], call[2]
        return lambda: x.__setitem__(k, np.float64(v))

    def model_op(call, d_keys):
        if call[0] in ("todense", "asformat"):
            return protos.get(call[0])
        k, v = call[1], call[2]
        if v != 0:
            return [["set", k, v]]
        return ["snap", ["del", k]] if k in d_keys else ["snap"]

    def dense_of(items):
        a = np.zeros(N)
        for k, v in items:
            a[k] = v
        return a

    def one(d0, progs, coarse, family):
        x = fresh(d0)
        pol = c13.Explicit(coarse)
        coop = c13.Coop(len(progs), pol, lambda c: c in codes, dict_classifier(lines, codes), 20.0)
        try:
            with warnings.catch_warnings():
                warnings.simplefilter("ignore")
                outs = coop.run([[thunk(x, c) for c in p] for p in progs])
        except c13.SchedulerTimeout as e:
            ctx.broke("infrastructure:scheduler", str(e))
            return []
        sched = [t for t, _ in coop.quanta]
        real = []
        for p, o in zip(progs, outs):
            row = []
            for c, (tag, v) in zip(p, o):
                if tag != "ok":
                    # both iterator errors are RuntimeError ('… changed size …': ma_used differs; '… keys changed …': an entry found although none is expected)
                    row.append(DICT_ERR if (isinstance(v, RuntimeError) and "dictionary" in str(v) and "during iteration" in str(v)) else f"{type(v).__name__}: {v}")
                elif c[0] == "todense":
                    row.append(("value", v.tolist()))
                elif c[0] == "asformat":
                    row.append(("value", v.todense().tolist()))
                else:
                    row.append(("value", None))
            real.append(row)
        # model ops need to know which keys are present when a fill-valued write starts: the rig only writes fill values in single-writer configurations
        keys0 = {k for k, _ in d0}
        mprogs = [[model_op(c, keys0) for c in p] for p in progs]
        case = {"shared": True, "dict": d0, "progs": progs, "schedule": sched, "threads": len(progs)}
        stats["runs"] += 1
        stats["quanta"] += len(sched)
        pending.append({"family": family, "case": case, "real": real, "final": [[int(k[0]), float(v)] for k, v in x.data.items()],
                        "parked": [KIND_REAL.get(a[1][0], a[1][0]) for a in coop.arrivals],
                        "req": ["c13_dict_coarse", [[k, int(v)] for k, v in d0], mprogs, sched, len(d0) + 6], "modelled": all(m is not None for p in mprogs for m in p)})
        return pol.trace

    def flush():
        todo = [p for p in pending if p["modelled"]]
        outs = ctx.driver.run([p["req"] for p in todo])
        for p, out in zip(todo, outs):
            case, progs = p["case"], p["case"]["progs"]
            ctx.case(p["family"], case, nontrivial=len(set(case["schedule"])) > 1)
            if "ok" not in out:
                ctx.fail("A", "model:dict-schedule", case, f"driver: {out}")
                continue
            m = out["ok"]
            model = []
            for th, prog in zip(m["rets"], progs):
                row = []
                for (op, res), c in zip(th, prog):
                    if res[0] != "ok":
                        row.append(DICT_ERR if res[1] == "runtime" else f"KeyError ({res[1]})")
                    elif c[0] in ("todense", "asformat"):
                        row.append(("value", dense_of(res[1]).tolist()))
                    else:
                        row.append(("value", None))
                model.append(row)
            final_model = [[e[0], float(e[1])] for e in m["dict"] if e is not None]
            parked_model = [KIND_MODEL.get(k, k) for k in m["arrived"]]
            if p["real"] != model or p["final"] != final_model or p["parked"] != parked_model or not m["done"]:
                ctx.fail("A", "model:dict-schedule", case, f"implementation calls={p['real']} dict={p['final']} parked={p['parked']}; "
                                                           f"model calls={model} dict={final_model} parked={parked_model} done={m['done']}")
            writer = any(c[0] == "set" for pr_ in progs for c in pr_)
            for ti, row in enumerate(p["real"]):
                for ci, r in enumerate(row):
                    if isinstance(r, str):
                        if writer:
                            stats["errors_with_writer"] += 1  # a concurrent WRITER is outside the property: this only validates the iterator rule
                        else:
                            ctx.fail("C", "dict-schedule", case, f"thread {ti} call {progs[ti][ci]} under schedule {case['schedule']}: {r} (alone it returns); only read-only calls ran")
            if not writer and p["final"] != [[k, float(v)] for k, v in case["dict"]]:
                ctx.fail("C", "dict-schedule", case, f"read-only calls changed the shared dictionary: {case['dict']} -> {p['final']}")
        pending.clear()

    d3 = [[1, 5], [4, 0], [6, 7]]  # one explicitly stored fill value
    configs = [
        ("read-read", d3, [[["todense"]], [["asformat"]]]),
        ("todense-todense", d3, [[["todense"]], [["todense"]]]),
        ("asformat-asformat", d3[:2], [[["asformat"]], [["asformat"], ["todense"]]]),
        ("writer-new-key", d3[:2], [[["todense"]], [["set", 3, 9]]]),
        ("writer-overwrite", d3[:2], [[["todense"]], [["set", 4, 2]]]),
        ("writer-delete", d3, [[["todense"]], [["set", 6, 0]]]),
        ("writer-vs-asformat", d3[:2], [[["asformat"]], [["set", 3, 9]]]),
    ]
    if not ctx.quick:
        configs += [("three-readers", d3, [[["todense"]], [["asformat"]], [["todense"]]]),
                    ("two-writers", d3[:2], [[["todense"]], [["set", 3, 9]], [["set", 2, 8]]]),
                    ("delete-then-add", d3, [[["todense"]], [["set", 6, 0], ["set", 2, 8]]])]
    budget = 400 if ctx.quick else 20000
    for cname, d0, progs in configs:
        runs, complete = c13.explore_all(lambda prefix: one(d0, progs, prefix, f"A:dict:{cname}") or [], budget)
        ctx.notes.setdefault("exhaustive_configurations", {})[f"dict:{cname}"] = {"interleavings": runs, "complete": complete}
    # the Lean witness of pruning_read_counterexample on the real code: which system does the working tree implement?
    w = ctx.driver.run([["c13_shared_witnesses"]])[0]["ok"]["prune"]
    d0 = [[e[0], e[1]] for e in w["dict"] if e is not None]
    x = fresh(d0)
    ph = Phases([(0, 3), (1, None), (0, None)])  # todense: to its loop, one item fetched; asformat: whole call; todense: the rest
    coop = c13.Coop(2, ph, lambda c: c in codes, dict_classifier(lines, codes), 20.0)
    with warnings.catch_warnings():
        warnings.simplefilter("ignore")
        outs = coop.run([[lambda: x.todense()], [lambda: x.asformat("coo")]])
    raised = outs[0][0][0] != "ok"
    pruned = len(x.data) != len(d0)
    reads_only = bool(pr["ok"]["all_read"])
    ctx.notes["prune_witness"] = {"dict": d0, "todense_raised": raised, "dictionary_pruned": pruned, "generated_table_says_reads_only": reads_only,
                                  "outcome": [o[0][0] if o[0][0] == "ok" else f"{type(o[0][1]).__name__}: {o[0][1]}" for o in outs]}
    case = {"shared": True, "witness": "pruning_read_counterexample", "dict": d0, "progs": [[["todense"]], [["asformat"]]], "phases": [[0, 3], [1, None], [0, None]]}
    ctx.case("A:dict:witness", case)
    if raised or pruned:
        ctx.fail("C", "dict-schedule", case, f"the schedule of pruning_read_counterexample on the working tree: todense (thread 0) {ctx.notes['prune_witness']['outcome'][0]}, "
                                             f"asformat('coo') (thread 1) left {len(x.data)} of {len(d0)} entries in the shared dictionary — alone both return and change nothing")
    if (raised or pruned) == reads_only:
        ctx.fail("A", "model:dict-witness", case, f"the generated table says reads_only={reads_only} but the witness replay raised={raised}, pruned={pruned}")
    flush()
    ctx.notes["dict_exploration"] = stats


def can_store_lines():
    """lines of the with-block of _utils.can_store: the `with` line and every statement inside it"""
    tree = ast.parse((Path(core.REPO) / "sparse" / "numba_backend" / "_utils.py").read_text())
    fn = next(f for f in tree.body if isinstance(f, ast.FunctionDef) and f.name == "can_store")
    w = [n for n in ast.walk(fn) if isinstance(n, ast.With)]
    if len(w) != 1:
        raise ValueError(f"can_store has {len(w)} with-blocks")
    return {w[0].lineno: "with", **{st.lineno: "stmt" for st in w[0].body}}


def abstract_filters():
    return [[a if a in ("ignore", "error") else "other", m.lower(), c] for a, m, c, _, _ in filters_now()]


def leg_filter_model(ctx, rng, harm):
    import c13
    from sparse.numba_backend import _utils

    bl = ctx.driver.run([["c13_blocks"]])[0]
    if "ok" not in bl:
        ctx.broke("correspondence:filter-blocks", f"driver: {bl}")
        return
    blocks = bl["ok"]["blocks"]
    ctx.notes["catch_blocks"] = {"blocks": blocks, "global_writes": bl["ok"]["global_writes"], "catalogue": bl["ok"]["catalogue"]}
    cs = next((b for b in blocks if b["function"] == "can_store"), None)
    if cs is None:
        ctx.broke("correspondence:filter-blocks", "no catch_warnings block in can_store in the generated table")
        return
    try:
        lines = can_store_lines()
    except Exception as e:  # noqa: BLE001
        ctx.broke("correspondence:can_store-lines", str(e))
        return
    code = _utils.can_store.__code__
    fs = cs["filters"]
    block_op = ["block", fs]
    warn_op = ["warn", "RuntimeWarning", "divide by zero encountered in divide"]
    nsteps = {"block": 4 + len(fs), "warn": 2}
    stats = {"runs": 0, "quanta": 0, "not_restored": 0}
    pending = []

    def emit():
        return np.float64(1.0) / np.float64(0.0)  # one C call that emits RuntimeWarning('divide by zero encountered in divide')

    def one(kinds, coarse, family):
        pol = c13.Explicit(coarse)
        trace = []

        def classify(fr):
            k = lines.get(fr.f_lineno)
            return (k, fr.f_lineno) if k else None

        coop = c13.Coop(len(kinds), pol, lambda c: c is code, classify, 20.0)
        orig_park, orig_finish = coop.park, coop.finish

        def park(tid, info):  # the installed list as the thread that just ran leaves it
            if coop.started:
                trace.append(abstract_filters())
            orig_park(tid, info)

        def finish(tid):
            trace.append(abstract_filters())
            orig_finish(tid)

        coop.park, coop.finish = park, finish
        with warnings.catch_warnings():
            warnings.resetwarnings()  # the model's initial list: empty (no filter: the default action, shown once — silenced below)
            warnings.showwarning = lambda *a, **k: None
            try:
                outs = coop.run([[(lambda: _utils.can_store(np.int64, 5)) if k == "block" else emit] for k in kinds])
            except c13.SchedulerTimeout as e:
                ctx.broke("infrastructure:scheduler", str(e))
                return []
            final = abstract_filters()
        sched = [t for t, _ in coop.quanta]
        fine, seen = [], {}
        for t in sched:
            first = t not in seen
            seen[t] = True
            fine += [t] * (2 if (kinds[t] == "warn") else 1)
        ends = []  # index into the model's trace after each quantum
        n = 0
        for t in sched:
            n += 2 if kinds[t] == "warn" else 1
            ends.append(n - 1)
        real = [("ok" if tag == "ok" else f"{type(v).__name__}: {v}") for o in outs for tag, v in o]
        case = {"shared": True, "threads": len(kinds), "progs": [[block_op if k == "block" else warn_op] for k in kinds], "schedule": sched, "initial_filters": []}
        stats["runs"] += 1
        stats["quanta"] += len(sched)
        pending.append({"family": family, "case": case, "real": real, "trace": trace, "final": final, "ends": ends,
                        "req": ["c13_filter_run", [], case["progs"], fine]})
        return pol.trace

    def flush():
        outs = ctx.driver.run([p["req"] for p in pending])
        for p, out in zip(pending, outs):
            case = p["case"]
            ctx.case(p["family"], case, nontrivial=len(set(case["schedule"])) > 1)
            if "ok" not in out:
                ctx.fail("A", "model:filter-schedule", case, f"driver: {out}")
                continue
            m = out["ok"]
            model = ["ok" if r[1][0] == "ok" else "RuntimeWarning" for th in m["rets"] for r in th]
            real = [r if r == "ok" else r.split(":")[0] for r in p["real"]]
            mtrace = [m["trace"][i] for i in p["ends"] if i < len(m["trace"])]
            if real != model or p["final"] != m["filters"] or p["trace"] != mtrace or not m["done"]:
                ctx.fail("A", "model:filter-schedule", case, f"implementation calls={real} final={p['final']} per-quantum={p['trace']}; "
                                                             f"model calls={model} final={m['filters']} per-quantum={mtrace} done={m['done']}")
            for ti, r in enumerate(p["real"]):
                if r != "ok":
                    ctx.fail("C", "filter-schedule", case, f"thread {ti} ({case['progs'][ti][0][0]}) under schedule {case['schedule']}: raised {r}; alone it returns "
                                                           f"(and warns) — the filter list held {[f for t in p['trace'] for f in t if f[0] == 'error'][:1]} installed by can_store in another thread")
            left = [f for f in p["final"] if f not in case["initial_filters"]]
            if left:
                stats["not_restored"] += 1
                bad = [f for f in left if harm((f[0], f[1], f[2], "", 0))]
                if bad:
                    ctx.fail("C", "filter-schedule", case, f"after every thread has left its block the process-global filter list still holds {bad} (schedule {case['schedule']}): "
                                                           f"from now on every call that merely warns raises")
        pending.clear()

    budget = 150 if ctx.quick else 5000
    for cname, kinds in (("block-warn", ["block", "warn"]), ("block-block", ["block", "block"]), ("block-block-warn", ["block", "block", "warn"])):
        runs, complete = c13.explore_all(lambda prefix: one(kinds, prefix, f"A:filters:{cname}") or [], budget)
        ctx.notes.setdefault("exhaustive_configurations", {})[f"filters:{cname}"] = {"interleavings": runs, "complete": complete}
    for j in range(60 if ctx.quick else 1500):
        kinds = [str(k) for k in rng.choice(["block", "block", "warn"], size=int(rng.integers(2, 5)))]
        if "block" not in kinds:
            kinds[0] = "block"
        one(kinds, [int(v) for v in rng.integers(len(kinds), size=int(rng.integers(4, 24)))], "A:filters:sampled")
    flush()
    ctx.notes["filter_exploration"] = stats


def leg_models(ctx, rng, harm):
    """leg A for the dictionary and filter systems"""
    leg_dict_model(ctx, rng)
    leg_filter_model(ctx, rng, harm)


if __name__ == "__main__":
    if len(sys.argv) >= 6 and sys.argv[1] == "--sentinel":
        sys.path.insert(0, str(Path(__file__).resolve().parent))
        os.environ.setdefault("PYTHONHASHSEED", "0")
        sys.exit(sentinel_main(int(sys.argv[2]), sys.argv[3] == "1", sys.argv[4].split(","), float(sys.argv[5])))

"""C15 — the integer type used to store coordinates never affects values.

Steps (see DESIGN.md §7 C15):
  0. leg-C workers are started first (one process per index dtype and operation group, each with a deadline);
  1. Lean: build SparseV.Props.C15 + svdriver, audit axioms;
  2. rules tie (leg B): the model's NumPy-2 arithmetic rules against real NumPy, exhaustive for 8 bits;
  3. defect probes: the witness of every known finding is replayed on the working tree; per site this selects the
     model variant (as written / as in proposed_fixes) that leg A must agree with;
  4. leg A: every site's model against the real code on inputs at the limits of each dtype;
  5. leg C: results of the workers — every operation family with coordinates in each of the eight index dtypes
     against the int64 run: EQUAL, or a ValueError that names an index dtype.
"""
from __future__ import annotations

import json
import os
import shutil
import subprocess
import sys
import tempfile
import time
import warnings
from pathlib import Path

import numpy as np

import c15_legc
import c15_rules
import core
import findings
import gen
import impl

PID = "C15"
HERE = Path(__file__).resolve().parent
IDX = c15_legc.IDX
TRUSTED = [
    "Lean 4 kernel; axioms propext, Classical.choice, Quot.sound only (audited per theorem each run)",
    "tie for the arithmetic rules (SparseV.Model.Width R1-R7: array∘array wraps, array∘Python-int converts or raises OverflowError, "
    "array∘NumPy-scalar promotes, in-place same-kind casting, astype/setitem wrap, can_store, min_scalar_type): compared with real NumPy by "
    "this run, exhaustively for int8/uint8 (all 256x256 operand pairs per operator, every Python int in [-260,260]) and on boundary values for 16/32/64 bits",
    "tie T2: one hand model per width-sensitive site (getitem, _calc_counts_invidx, reshape, concatenate, roll, flip, kron, pad, triu/tril, "
    "GCXS dtype choice, GCXS joiners + uncompress_dimension, idx_dtype guards, numba shape boxing, GCXS reduce row numbers, GCXS getitem keys) "
    "compared with the implementation on coordinates/dtype/error class at the limits of every dtype by this run",
    "which variant of a site model (as written / proposed fix) is compared is decided by replaying the finding's witness on the working tree",
    "the int64 run of the same operation is the reference for leg C; NumPy's own dense semantics are the business of C01-C10",
]
DEADLINE_QUICK = 1500
DEADLINE_THOROUGH = 7200

# operation groups of leg C: each (dtype, group) pair is one worker process (numba compiles per coordinate dtype)
GROUPS = {
    "coo-a": ["getitem", "reduce"],
    "coo-b": ["reshape", "transpose", "shape", "concatenate", "stack", "roll", "flip", "kron", "pad", "triu", "tril", "diagonal",
              "elemwise", "sort", "convert", "request", "numba", "product"],
    "gcxs-a": ["gcxs-getitem"],
    "gcxs-b": ["gcxs-shape", "gcxs-reduce", "gcxs-elemwise", "gcxs-join", "gcxs-product"],
}


def ty(t):
    return c15_rules.ty(t)


# --------------------------------------------------------------------------------------------------
# leg C workers
# --------------------------------------------------------------------------------------------------

SUBSET16 = ["getitem", "reduce", "reshape", "concatenate", "roll", "flip", "kron", "pad", "triu", "tril", "convert", "request", "numba"]
MAX_PROCS = 14


class Workers:
    """leg-C worker processes: at most MAX_PROCS at a time, output to files in a scratch directory under /var/tmp
    (removed at the end), one deadline for all of them."""

    def __init__(self, ctx):
        self.ctx = ctx
        self.dir = Path(tempfile.mkdtemp(prefix="verif-c15-", dir="/var/tmp"))
        self.jobs = []
        if ctx.quick:
            for t in ("int8", "uint8"):
                for g, fams in GROUPS.items():
                    if g == "gcxs-a":  # a numba typing failure is not cached: every failing call recompiles (~1 s)
                        self.jobs.append((t, g + "/127", "127", "", fams))
                        self.jobs.append((t, g + "/255", "255", "", fams))
                    else:
                        self.jobs.append((t, g, "127,255", "", fams))
            # 16-bit limits for a subset of the operations and of the scenarios (own limit of the type only)
            for t, lim in (("int16", "32767"), ("uint16", "65535")):
                self.jobs.append((t, "coo-a/16", lim, "subset", [f for f in GROUPS["coo-a"] if f in SUBSET16]))
                self.jobs.append((t, "coo-b/16", lim, "subset", [f for f in GROUPS["coo-b"] if f in SUBSET16]))
        else:
            for t in IDX:
                if t == "int64":
                    continue
                for g, fams in GROUPS.items():
                    for lim in ("127", "255", "32767", "65535"):  # one process per limit: each is 1-3 minutes of CPU
                        if np.iinfo(t).max >= (17 if int(lim) < 1000 else 257):  # some scenario of that limit fits the dtype
                            self.jobs.append((t, f"{g}/{lim}", lim, "", fams))
        self.jobs.sort(key=lambda j: 0 if j[1].startswith('gcxs-a') else 1)  # longest first
        self.pending = list(self.jobs)
        self.started, self.seconds = {}, {}
        self.running = []
        self.done = []
        self.env = dict(os.environ)
        self.env.setdefault("NUMBA_NUM_THREADS", "1")
        self.env.setdefault("OMP_NUM_THREADS", "1")
        self.deadline = ctx.t0 + (DEADLINE_QUICK if ctx.quick else DEADLINE_THOROUGH)
        self.pump()

    def pump(self):
        for job in list(self.running):
            if job[-1].poll() is not None:
                self.running.remove(job)
                self.done.append(job)
                self.seconds[f"{job[0]}/{job[1]}"] = round(time.time() - self.started[id(job[-1])], 1)
        while self.pending and len(self.running) < MAX_PROCS:
            t, g, lims, sub, fams = self.pending.pop(0)
            outp = self.dir / f"{t}-{g.replace('/', '_')}.jsonl"
            errp = self.dir / f"{t}-{g.replace('/', '_')}.err"
            cmd = [sys.executable, str(HERE / "c15_legc.py"), t, self.ctx.tier, str(self.ctx.seed), lims, sub, ",".join(fams), str(outp)]
            p = subprocess.Popen(cmd, stdout=subprocess.DEVNULL, stderr=open(errp, "w"), env=self.env)
            self.started[id(p)] = time.time()
            self.running.append((t, g, outp, errp, p))

    def wait(self):
        while self.pending or self.running:
            if time.time() > self.deadline:
                self.kill()
                raise RuntimeError("leg C workers exceeded the deadline")
            self.pump()
            time.sleep(0.2)

    def kill(self):
        for *_, p in self.running:
            if p.poll() is None:
                p.kill()

    def cleanup(self):
        self.kill()
        shutil.rmtree(self.dir, ignore_errors=True)


def collect_workers(ctx, w):
    w.wait()
    stats = {"equal": 0, "rejected": 0, "differ": 0}
    per_dtype = {}
    for t, g, outp, errp, p in w.done:
        pending = last = None
        for line in (outp.read_text().splitlines() if outp.exists() else []):
            try:
                r = json.loads(line)
            except ValueError:  # a line cut short by a crash
                break
            if "begin" in r:
                pending = r
                last = {"family": r["family"], "case": r["begin"]}
                continue
            pending = None
            last = r
            case = r["case"]
            stats[r["status"]] += 1
            d = per_dtype.setdefault(t, {"equal": 0, "rejected": 0, "differ": 0})
            d[r["status"]] += 1
            ctx.case(f"C:{r['family']}:{t}", case, nontrivial=case["nnz"] > 0)
            if r["status"] == "differ":
                name = f"{r['family']}:{case['op']}"
                ctx.fail("C", name, case, r["detail"], finding=findings.classify(PID, name, case, r["detail"]))
        if p.returncode != 0:
            if last is not None and p.returncode < 0:
                # the interpreter died (signal) in or right after this case — heap corruption through a wrapped index shows up
                # a little later than it is caused: a failing input of the property, not an infrastructure problem
                name = f"{last['family']}:{last['case']['op']}"
                stats["differ"] += 1
                ctx.fail("C", name, last["case"], f"the interpreter was killed by signal {-p.returncode} {'while running' if pending else 'right after'} this case "
                         f"(worker {t}/{g}; the int64 run returns); the remaining cases of this worker were not run")
            else:
                raise RuntimeError(f"leg C worker {t}/{g} failed (exit {p.returncode}): {errp.read_text()[-800:]}")
    ctx.notes["oracle"] = {"cases": stats, "per_dtype": per_dtype, "workers": len(w.done), "worker_seconds": w.seconds}


# --------------------------------------------------------------------------------------------------
# defect probes: replay every finding's witness on the working tree
# --------------------------------------------------------------------------------------------------

def _coo(coords, data, shape, t):
    import sparse

    return sparse.COO(np.asarray(coords, dtype=np.int64).astype(t), np.asarray(data), shape=tuple(shape), has_duplicates=False, sorted=True)


_NJ = {}


def _shape_of():
    if "f" not in _NJ:
        import numba

        @numba.njit
        def shape_of(a):
            return a.shape
        _NJ["f"] = shape_of
    return _NJ["f"]


def probe_defects():
    """-> {finding id: True when the defect is present in the working tree}"""
    import sparse
    from sparse.numba_backend._coo.core import _calc_counts_invidx

    res = {}
    with warnings.catch_warnings():
        warnings.simplefilter("ignore")
        # F-getitem-step: x[5::-1] on uint8 coordinates
        x = _coo([[0, 3, 5, 8]], [1, 2, 3, 4], (10,), np.uint8)
        try:
            r = x[5::-1]
            res["F-getitem-step"] = not np.array_equal(r.todense(), x.todense()[5::-1])
        except OverflowError:
            res["F-getitem-step"] = True
        # F-invidx-dtype: 256 + 1 group numbers in uint8
        inv, cnt = _calc_counts_invidx(np.array([0] * 256 + [1], dtype=np.uint8))
        res["F-invidx-dtype"] = [int(v) for v in inv] != [0, 256]
        # F-triu-k: int8, element (100, 0), triu(k=100)
        x = _coo([[100], [0]], [7], (120, 120), np.int8)
        try:
            res["F-triu-k"] = sparse.triu(x, 100).nnz != 0
        except OverflowError:
            res["F-triu-k"] = True
        # F-gcxs-getitem-unsigned
        g = sparse.GCXS.from_coo(_coo([[0, 1, 2], [1, 0, 2]], [1, 2, 3], (3, 3), np.uint8), compressed_axes=(0,))
        try:
            res["F-gcxs-getitem-unsigned"] = not np.array_equal(g[1:].todense(), g.todense()[1:])
        except Exception:  # noqa: BLE001
            res["F-gcxs-getitem-unsigned"] = True
        # F-gcxs-join-rows: two int8 arrays of 100 rows
        a = sparse.GCXS.from_coo(_coo([[99], [1]], [5], (100, 3), np.int8), compressed_axes=(0,))
        try:
            c = sparse.concatenate([a, a], axis=0)
            rr = c.tocoo()
            res["F-gcxs-join-rows"] = [[int(v) for v in col] for col in rr.coords.T] != [[99, 1], [199, 1]]
        except Exception:  # noqa: BLE001
            res["F-gcxs-join-rows"] = True
        # F-gcxs-reduce-rows: (2,126,3) int8 coordinates compressed along the last axis: indptr is uint8 (252 columns),
        # summing over axis 0 regroups into 378 rows
        x = _coo([[0, 0, 1, 1], [0, 125, 63, 125], [0, 1, 0, 2]], [1, 2, 3, 4], (2, 126, 3), np.int8)
        g = sparse.GCXS.from_coo(x, compressed_axes=(2,))
        try:
            r = g.sum(axis=0)
            res["F-gcxs-reduce-rows"] = not np.array_equal(r.todense(), x.todense().sum(axis=0))
        except Exception:  # noqa: BLE001
            res["F-gcxs-reduce-rows"] = True
        # F-numba-shape: uint8 coordinates, extent 256
        x = _coo([[0, 255]], [1, 2], (256,), np.uint8)
        res["F-numba-shape"] = tuple(int(v) for v in _shape_of()(x)) != (256,)
        # F-uint64: x + y with uint64 coordinates
        x = _coo([[0, 2]], [1, 2], (4,), np.uint64)
        y = _coo([[1, 2]], [1, 2], (4,), np.uint64)
        try:
            res["F-uint64"] = not np.array_equal((x + y).todense(), x.todense() + y.todense())
        except Exception:  # noqa: BLE001
            res["F-uint64"] = True
    return res


# --------------------------------------------------------------------------------------------------
# leg A: site models against the real code
# --------------------------------------------------------------------------------------------------

def _err(e):
    return {"err": impl.err_class(e)}


def _ints(a):
    return [int(v) for v in np.asarray(a).ravel().tolist()]


def _tyname(j):
    return c15_rules.ty_name(j)


def leg_a(ctx, defects):
    import sparse
    from sparse.numba_backend._compressed.convert import uncompress_dimension
    from sparse.numba_backend._coo.core import _calc_counts_invidx
    from sparse.numba_backend._slicing import normalize_index

    rng = gen.rng_for(ctx.seed, PID + "A")
    numba_types = ["int8", "uint8"] if ctx.quick else IDX
    # GCXS kernels with uint64 index arrays fail wholesale (finding F-uint64, leg C); their sites are compared for uint64 only once that is fixed
    gcxs_types = [t for t in numba_types if t != "uint64" or not defects.get("F-uint64", True)]
    all_types = IDX
    reqs, metas = [], []  # metas: (site, case, impl outcome, post(out) -> comparable)

    def add(site, case, req, got, post=lambda o: o):
        reqs.append(req)
        metas.append((site, case, got, post))

    def lim(t):
        return min(int(np.iinfo(t).max), 70000 if not ctx.quick else (70000 if np.dtype(t).itemsize <= 2 else 3000))

    fx = {k: (not v) for k, v in defects.items()}  # True = the proposed fix (or an equivalent one) is in the tree
    # dtype an index array of dtype t is stored with (W16: the proposed uint64 fix stores uint64 as intp)
    st = ctx.driver.run([["c15_storedty", fx["F-uint64"], [ty(t) for t in IDX]]])[0]["ok"]
    eff = {t: _tyname(j) for t, j in zip(IDX, st)}

    def mt(t):
        return ty(eff[np.dtype(t).name])

    def en(j):
        n = _tyname(j)
        return eff.get(n, n)

    with warnings.catch_warnings():
        warnings.simplefilter("ignore")
        # ---- W1 getitem ---------------------------------------------------------------------------
        for t in numba_types:
            M = int(np.iinfo(t).max)
            n = min(M, 300)
            pts = sorted({0, 1, 2, 5, n // 2, n - 3, n - 2, n - 1} | {int(v) for v in rng.integers(0, n, size=6)})
            x = _coo([pts], list(range(1, len(pts) + 1)), (n,), t)
            slices = [slice(None, None, -1), slice(5, None, -1), slice(n - 1, 0, -2), slice(1, None), slice(2, n - 1, 3), slice(None, None, 2),
                      slice(None, None, n - 1), slice(None, None, M), slice(None, None, M + 1), slice(None, None, -M), slice(None, None, -(M + 1)),
                      slice(None, None, 200), slice(None, None, -200), slice(n - 2, None), slice(None, -3, -1), slice(3, 3), slice(-1, None, 7)]
            slices += [gen.rand_slice(rng, n) for _ in range(8 if ctx.quick else 40)]
            for s in slices:
                if s.step is not None and abs(s.step) >= 2 ** 63:
                    continue  # a step beyond intp is an OverflowError for every coordinates' dtype (normalisation stores it in an intp array)
                ns = normalize_index((s,), (n,))[0]  # the library's own normalisation (C02 relates it to Python's)
                start, stop, step = ns.start, ns.stop, ns.step
                sel = [c for c in pts if c in range(start, stop, step)]
                if (start, stop, step) == (0, n, 1):
                    continue
                try:
                    r = x[s]
                    got = {"ok": sorted(_ints(r.coords[0]))}
                except Exception as e:  # noqa: BLE001
                    got = _err(e)
                add("W1:getitem", {"dtype": t, "n": n, "slice": [s.start, s.stop, s.step], "selected": sel},
                    ["c15_getitem", mt(t), fx["F-getitem-step"], sel, start, step], got,
                    lambda o: {"ok": sorted(o["ok"])} if "ok" in o else o)
        # ---- W2 _calc_counts_invidx ---------------------------------------------------------------
        for t in all_types:
            M = int(np.iinfo(t).max)
            cases = [[0, 0, 2, 2, 2, 5], [3], [], [1, 2, 3, 4]]
            if M <= 70000:
                cases += [[0] * M + [1], [0] * (M - 1) + [1], [0] * (M + 1) + [1, 1, 2], [0] * 5 + [1] * M + [2] * 3]
                if np.dtype(t).kind == "i":
                    cases.append([0] * (2 * M + 3) + [1])
            cases.append([int(v) for v in np.sort(rng.integers(0, 5, size=40))])
            for gcase in cases:
                inv, cnt = _calc_counts_invidx(np.array(gcase, dtype=t))
                add("W2:invidx", {"dtype": t, "groups_len": len(gcase), "distinct": len(set(gcase))},
                    ["c15_invidx", ty(t), fx["F-invidx-dtype"], gcase], {"ok": [_ints(inv), _ints(cnt)]})
        # ---- W3 reshape ---------------------------------------------------------------------------
        for t in all_types:
            M = lim(t)
            for s1, s2 in [((2, M), (2 * M,)), ((M, 2), (2, M)), ((M,), (1, M)), ((3, M - 1), (M - 1, 3)), ((2, M), (M, 2)), ((2, M), (4, M // 2)) if M % 2 == 0 else ((3, M), (M, 3)),
                           ((5, 7), (35,)), ((M,), (M, 1, 1))]:
                size = int(np.prod(s1, dtype=np.int64))
                lins = sorted({0, 1, size // 2, size - 2, size - 1} | {int(v) for v in rng.integers(0, size, size=5)})
                c1 = np.stack(np.unravel_index(np.array(lins), s1))
                x = _coo(c1, list(range(1, len(lins) + 1)), s1, t)
                try:
                    r = x.reshape(s2)
                    got = {"ok": {"ty": r.coords.dtype.name, "coords": [_ints(row) for row in r.coords]}}
                except Exception as e:  # noqa: BLE001
                    got = _err(e)
                add("W3:reshape", {"dtype": t, "from": list(s1), "to": list(s2)}, ["c15_reshape", mt(t), list(s2), lins], got,
                    lambda o: {"ok": {"ty": en(o["ok"]["ty"]), "coords": o["ok"].get("coords")}} if "ok" in o else o)
        # ---- W4 concatenate -----------------------------------------------------------------------
        for t in all_types:
            M = lim(t)
            for n1, n2 in [(M - 1, 1), (M - 1, 2), (M, 1), (M // 2, M // 2), (M // 2 + 1, M // 2 + 1), (3, 4), (M, M)]:
                p1 = sorted({0, n1 - 1, n1 // 2})
                p2 = sorted({0, n2 - 1, n2 // 2})
                for nd in (1, 2):
                    if nd == 1:
                        a = _coo([p1], list(range(1, len(p1) + 1)), (n1,), t)
                        b = _coo([p2], list(range(1, len(p2) + 1)), (n2,), t)
                        axis, shape = 0, [n1 + n2]
                    else:
                        a = _coo([[1] * len(p1), p1], list(range(1, len(p1) + 1)), (2, n1), t)
                        b = _coo([[0] * len(p2), p2], list(range(1, len(p2) + 1)), (2, n2), t)
                        axis, shape = 1, [2, n1 + n2]
                    try:
                        r = sparse.concatenate([a, b], axis=axis)
                        got = {"ok": {"ty": r.coords.dtype.name, "coords": sorted(_ints(r.coords[axis]))}}
                    except Exception as e:  # noqa: BLE001
                        got = _err(e)
                    add("W4:concatenate", {"dtype": t, "n1": n1, "n2": n2, "ndim": nd}, ["c15_concat", mt(t), shape, [p1, p2], [0, n1]], got,
                        lambda o: {"ok": {"ty": en(o["ok"]["ty"]), "coords": sorted(o["ok"]["coords"])}} if "ok" in o else o)
        # ---- W5 roll ------------------------------------------------------------------------------
        for t in all_types:
            M = lim(t)
            for shape in [(M,), (M - 1,), (M // 2,), (M // 2, 3), (5, M // 2 + 1)]:
                e0 = shape[0]
                idxs = sorted({tuple(int(v) for v in col) for col in
                               np.stack([rng.integers(0, d, size=6) for d in shape]).T} | {tuple(d - 1 for d in shape), (0,) * len(shape)})
                x = _coo(np.array(idxs).T, list(range(1, len(idxs) + 1)), shape, t)
                variants = [(1, 0), (-1, 0), (e0 - 1, 0), (M - e0, 0), (M - e0 + 1, 0), (-e0, 0), (M, 0), (-M, 0), (2 * e0 + 3, 0), ((3,), (0,))]
                if len(shape) == 2:
                    variants += [((1, 2), (0, 1)), ((-1, shape[1] - 1), (0, 1)), ((1, 1), (0, 0)), ((M - e0, 1), (0, 1)), ((M - e0 + 1, 1), (0, 1)),
                                 (2, (0, 1)), ((-2, -1), (1, 0))]
                for sh, axv in variants:
                    shs = sh if isinstance(sh, tuple) else (sh,)
                    axs = axv if isinstance(axv, tuple) else (axv,)
                    if len(shs) == 1:
                        shs = shs * len(axs)
                        kind = "np"
                    else:
                        kind = "py"
                    try:
                        r = sparse.roll(x, sh, axis=axv)
                        got = {"ok": sorted([int(v) for v in col] for col in r.coords.T.tolist())}
                    except Exception as e:  # noqa: BLE001
                        got = _err(e)
                    add("W5:roll", {"dtype": t, "shape": list(shape), "shift": sh, "axis": axv, "kind": kind},
                        ["c15_roll", mt(t), kind, list(shape), [[int(s), int(a)] for s, a in zip(shs, axs)], [list(i) for i in idxs]], got,
                        lambda o: {"ok": sorted(o["ok"])} if "ok" in o else o)
        # ---- W6 flip ------------------------------------------------------------------------------
        for t in all_types:
            M = lim(t)
            for n in (M, M - 1, 7, 1):
                pts = sorted({0, n - 1, n // 2, n // 3})
                x = _coo([pts], list(range(1, len(pts) + 1)), (n,), t)
                try:
                    got = {"ok": sorted(_ints(sparse.flip(x, axis=0).coords[0]))}
                except Exception as e:  # noqa: BLE001
                    got = _err(e)
                add("W6:flip", {"dtype": t, "n": n}, ["c15_flip", mt(t), n, pts], got, lambda o: {"ok": sorted(o["ok"])} if "ok" in o else o)
        # ---- W7 kron, W8 pad -----------------------------------------------------------------------
        def int_or_float(r):
            if r.coords.dtype.kind != "i" and r.coords.dtype.kind != "u":
                return {"ok": {"ty": None}}
            return {"ok": {"ty": r.coords.dtype.name, "coords": sorted(_ints(r.coords[0]))}}

        def norm_kp(o):
            if "ok" not in o:
                return o
            if o["ok"]["ty"] is None:
                return {"ok": {"ty": None}}
            return {"ok": {"ty": en(o["ok"]["ty"]), "coords": sorted(o["ok"]["coords"])}}

        def float_or_err(thunk):
            try:
                return int_or_float(thunk())
            except TypeError:  # NumPy refuses float64 "indices": the model says "no integer index"
                return {"ok": {"ty": None}}
            except Exception as e:  # noqa: BLE001
                return _err(e)

        for ta in all_types:
            for tb in (all_types if not ctx.quick else [ta, "int8", "uint64"]):
                na, nb = min(lim(ta), 1000), min(lim(tb), 300)
                pa, pb = sorted({0, na - 1, na // 2}), sorted({0, nb - 1, 1})
                a = _coo([pa], [1] * len(pa), (na,), ta)
                b = _coo([pb], [1] * len(pb), (nb,), tb)
                add("W7:kron", {"dtype_a": ta, "dtype_b": tb, "na": na, "nb": nb},
                    ["c15_kron", mt(ta), mt(tb), nb, [[ca, cb] for ca in pa for cb in pb]], float_or_err(lambda: sparse.kron(a, b)), norm_kp)
        for t in all_types:
            M = lim(t)
            for n, before in [(M, 1), (M - 1, 0), (M, M), (5, 3), (M, 2 ** 20)]:
                pts = sorted({0, n - 1, n // 2})
                x = _coo([pts], [1] * len(pts), (n,), t)
                add("W8:pad", {"dtype": t, "n": n, "before": before}, ["c15_pad", mt(t), before, pts],
                    float_or_err(lambda: sparse.pad(x, (before, 1))), norm_kp)
        # ---- W9 triu / tril -------------------------------------------------------------------------
        for t in all_types:
            M = lim(t)
            n = M
            pairs = sorted({(0, 0), (0, n - 1), (n - 1, 0), (n - 1, n - 1), (n // 2, n // 2), (n // 2 + 1, n // 2), (1, 0), (0, 1), (min(100, n - 1), 0), (0, min(100, n - 1)),
                            (3, 2), (n - 2, n - 1)})
            x = _coo(np.array(pairs).T, list(range(1, len(pairs) + 1)), (n, n), t)
            for k in (0, 1, -1, 2, n - 1, -(n - 1), 100, -100, int(np.iinfo(t).max), -int(np.iinfo(t).max), int(np.iinfo(t).max) + 1, int(np.iinfo(t).min), int(np.iinfo(t).min) - 1,
                      int(np.iinfo(t).max) - n // 2, 3 - n):
                for lower, f in ((False, sparse.triu), (True, sparse.tril)):
                    try:
                        r = f(x, k)
                        got = {"ok": [[int(v) for v in col] for col in r.coords.T.tolist()]}
                    except Exception as e:  # noqa: BLE001
                        got = _err(e)
                    add("W9:tri", {"dtype": t, "n": n, "k": k, "lower": lower},
                        ["c15_tri", mt(t), fx["F-triu-k"], lower, k, [list(p) for p in pairs]], got,
                        lambda o, pairs=pairs: {"ok": [list(p) for p, keep in zip(pairs, o["ok"]) if keep]} if "ok" in o else o)
        # ---- W10 GCXS index dtype ---------------------------------------------------------------------
        for t in all_types:
            M = lim(t)
            for rows, cols, k in [(3, M, 5), (M, 3, 5), (3, M - 1, M + 2), (16, 17, min(M + 1, 272)), (16, 17, min(M, 272)), (2, 2, 3)]:
                k = min(k, rows * cols)
                lin = np.arange(k, dtype=np.int64) if k > 20 else np.array(sorted({0, rows * cols - 1, *[int(v) for v in rng.integers(0, rows * cols, size=k)]}), dtype=np.int64)
                cc = np.stack(np.unravel_index(lin, (rows, cols)))
                x = _coo(cc, np.arange(1, len(lin) + 1), (rows, cols), t)
                true_indptr = np.concatenate([[0], np.cumsum(np.bincount(cc[0], minlength=rows))]).tolist()
                for req in [None, t] + (["int8", "uint8", "int16"] if t == "int64" else []):
                    try:
                        g = sparse.GCXS.from_coo(x, compressed_axes=(0,), idx_dtype=np.dtype(req).type if req else None)
                        got = {"ok": {"ty": g.indices.dtype.name, "vals": _ints(g.indptr)}}
                        if g.indptr.dtype != g.indices.dtype:
                            got["ok"]["ty"] = f"{g.indices.dtype.name}/{g.indptr.dtype.name}"
                    except Exception as e:  # noqa: BLE001
                        got = _err(e)
                    add("W10:gcxsty", {"dtype": t, "req": req, "rows": rows, "cols": cols, "nnz": len(lin)},
                        ["c15_gcxsty", mt(req) if req else None, mt(t), rows, cols, len(lin), [int(v) for v in true_indptr]], got,
                        lambda o: {"ok": {"ty": en(o["ok"]["ty"]), "vals": o["ok"]["vals"]}} if "ok" in o else o)
        # ---- W11 GCXS joiners + uncompress_dimension --------------------------------------------------
        for t in gcxs_types:
            M = lim(t)
            for r1, r2, k1, k2 in [(M // 2 + 1, M // 2 + 1, 2, 2), (M - 1, 1, 2, 1), (M, 1, 1, 1), (3, 4, 2, 3), (10, 10, min(M // 2 + 1, 30), min(M // 2 + 1, 30)),
                                   (16, 17, min(M // 2 + 1, 40), min(M // 2 + 2, 45))]:
                def mk(rows, k):
                    lin = np.array(sorted({rows * 3 - 1, 0, *[int(v) for v in rng.integers(0, rows * 3, size=max(k - 2, 0))]}), dtype=np.int64)
                    cc = np.stack(np.unravel_index(lin, (rows, 3)))
                    return sparse.GCXS.from_coo(_coo(cc, np.arange(1, len(lin) + 1), (rows, 3), t), compressed_axes=(0,)), cc
                (a, ca), (b, cb) = mk(r1, k1), mk(r2, k2)
                if a.indptr.dtype != b.indptr.dtype:
                    continue
                entries = [[int(p), 0] for p in a.indptr] + [[int(p), int(a.nnz)] for p in b.indptr[1:]]
                row_ids = [int(v) for v in ca[0]] + [int(v) + r1 for v in cb[0]]
                try:
                    c = sparse.concatenate([a, b], axis=0)
                    rows_impl = _ints(uncompress_dimension(c.indptr))
                    got = {"ok": {"ty": c.indptr.dtype.name, "indptr": _ints(c.indptr), "rows": rows_impl}}
                except Exception as e:  # noqa: BLE001
                    got = _err(e)
                add("W11:gcxs-join", {"dtype": t, "indptr_dtype": a.indptr.dtype.name, "rows": [r1, r2], "nnz": [int(a.nnz), int(b.nnz)]},
                    ["c15_joinptr", ty(a.indptr.dtype), fx["F-gcxs-join-rows"], int(a.nnz + b.nnz), r1 + r2, entries, row_ids], got,
                    lambda o: {"ok": {"ty": en(o["ok"]["ty"]), "indptr": o["ok"]["indptr"], "rows": o["ok"]["rows"]}} if "ok" in o else o)
        # ---- W12 idx_dtype= ---------------------------------------------------------------------------
        for t in all_types:
            M = int(np.iinfo(t).max)
            if M > 10 ** 6:
                shapes = [(5, 7), (3000, 2)]
            else:
                shapes = [(M,), (M + 1,), (M - 1, 2), (2, M + 1), (5, 7)]
            for shape in shapes:
                pts = sorted({0, shape[0] - 1, shape[0] // 2})
                cc = [pts] + [[0] * len(pts)] * (len(shape) - 1)
                for how in ("COO", "random"):
                    try:
                        if how == "COO":
                            r = sparse.COO(np.array(cc, dtype=np.int64), np.ones(len(pts)), shape=shape, idx_dtype=np.dtype(t).type)
                            got = {"ok": _ints(r.coords[0])} if r.coords.dtype == np.dtype(eff[t]) else {"ok": f"dtype {r.coords.dtype}"}
                            want_c = pts
                        else:
                            ref = sparse.random(shape, nnz=3, random_state=5)
                            r = sparse.random(shape, nnz=3, random_state=5, idx_dtype=np.dtype(t).type)
                            got = {"ok": _ints(r.coords[0])} if r.coords.dtype == np.dtype(eff[t]) else {"ok": f"dtype {r.coords.dtype}"}
                            want_c = _ints(ref.coords[0])
                    except ValueError:
                        got = {"err": "value"}
                        want_c = pts
                    except Exception as e:  # noqa: BLE001
                        got = _err(e)
                        want_c = pts
                    add("W12:idx_dtype", {"dtype": t, "shape": list(shape), "via": how}, ["c15_idxcast", mt(t), list(shape), want_c], got)
        # ---- W13 numba shape boxing ---------------------------------------------------------------------
        for t in numba_types:
            M = int(np.iinfo(t).max)
            if M > 10 ** 6:
                shapes = [(5, 7), (3000,)]
            else:
                shapes = [(M,), (M + 1,), (M - 1, 2), (3, 2 * M + 5), (5, 7)]
            for shape in shapes:
                x = _coo([[0] * 1] * len(shape), [1], shape, t)
                try:
                    got = {"ok": [int(v) for v in _shape_of()(x)]}
                except Exception as e:  # noqa: BLE001
                    got = _err(e)
                add("W13:boxshape", {"dtype": t, "shape": list(shape)}, ["c15_boxshape", mt(t), fx["F-numba-shape"], list(shape)], got)
        # ---- W14 GCXS reduce row numbers ------------------------------------------------------------------
        for t in gcxs_types:
            M = lim(t)
            for n in sorted({M // 2 + 1, M // 2, 5, (M + 3) // 3 + 1}):
                pts = sorted({(0, 0, 0), (1, n - 1, 2), (0, n - 1, 1), (1, 0, 2), (1, n // 2, 0), (0, n // 2, 2)})
                x = _coo(np.array(pts).T, list(range(1, len(pts) + 1)), (2, n, 3), t)
                for ca, axis in (((2,), (2,)), ((0,), (0,)), ((2,), (0,))):
                    try:
                        g = sparse.GCXS.from_coo(x, compressed_axes=ca)
                        out = g._reduce_calc(np.add, axis)
                        xx, _, ids = out[4]
                        nonempty = (np.diff(np.asarray(xx.indptr).astype(np.int64)) != 0)
                        got = {"ok": _ints(ids)}
                        rows = int(xx._compressed_shape[0])
                        tp = g.indptr.dtype
                    except Exception as e:  # noqa: BLE001
                        got, rows, tp, nonempty = _err(e), 0, np.dtype(t), np.zeros(0, dtype=bool)
                    add("W14:gcxs-reduce", {"dtype": t, "shape": [2, n, 3], "compressed_axes": list(ca), "axis": list(axis), "indptr_dtype": tp.name, "rows": rows},
                        ["c15_reducerows", ty(tp), fx["F-gcxs-reduce-rows"], rows], got,
                        lambda o, nonempty=nonempty: {"ok": [v for v, keep in zip(o["ok"], nonempty.tolist()) if keep]} if "ok" in o else o)
        # ---- W15 GCXS getitem keys --------------------------------------------------------------------------
        for t in gcxs_types:
            x = _coo([[0, 1, 2, 2], [1, 0, 2, 3]], [1, 2, 3, 4], (3, 4), t)
            g = sparse.GCXS.from_coo(x, compressed_axes=(0,))
            for key, keys in ((slice(1, None), [1, 2]), ((slice(None), slice(1, 3)), [0, 1, 2])):
                try:
                    r = g[key]
                    got = {"ok": "agrees" if np.array_equal(r.todense(), x.todense()[key]) else "wrong values"}
                except Exception as e:  # noqa: BLE001
                    got = _err(e)
                add("W15:gcxs-getitem", {"dtype": t, "indices_dtype": g.indices.dtype.name, "key": str(key)},
                    ["c15_gcxskey", ty(g.indices.dtype), fx["F-gcxs-getitem-unsigned"], keys], got,
                    lambda o: {"ok": "agrees"} if "ok" in o else o)

    outs = ctx.driver.run(reqs)
    for (site, case, got, post), out in zip(metas, outs):
        ctx.case(f"A:{site}", case, nontrivial=True)
        if "bad" in out:
            ctx.fail("A", f"model:{site}", case, f"driver: {out}")
            continue
        if "ok" not in out:
            out = {"err": out} if isinstance(out, str) else out
        model = post(out)
        if model != got:
            ctx.fail("A", f"model:{site}", case, f"model {json.dumps(model)[:300]} implementation {json.dumps(got)[:300]}")


# --------------------------------------------------------------------------------------------------

def run(ctx):
    ctx.trusted = TRUSTED
    ctx.assumptions = [
        "the int64 run of an operation is the reference result (its agreement with NumPy is the subject of C01-C10)",
        "index dtypes are the eight NumPy integer dtypes; intp is int64 on this platform",
        "arrays have fewer than 2**63 stored elements and extents (needed only by the `…Fixed` theorems, whose arithmetic is in intp)",
    ]
    w = Workers(ctx)
    try:
        core.prove(ctx, PID, uses=[])
        w.pump()
        nvals = c15_rules.run(ctx, ctx.quick)
        core.log(f"C15 rules: {nvals} values compared")
        w.pump()
        defects = probe_defects()
        ctx.notes["defects_present"] = defects
        ctx.notes["model_variant"] = {k: ("as written" if v else "fixed") for k, v in defects.items()}
        w.pump()
        leg_a(ctx, defects)
        core.log(f"C15 leg A done: {sum(1 for f in ctx.failures if f['leg'] == 'A')} disagreements")
        collect_workers(ctx, w)
        core.log(f"C15 leg C done: {ctx.notes['oracle']['cases']}")
    finally:
        w.cleanup()
    import findings_c15

    # fingerprints of the hand-modelled functions (normalised AST): a change is not a verdict, it is recorded as source drift
    b = "sparse/numba_backend/"
    ctx.notes["model_fingerprints"] = {
        **core.source_fingerprint(b + "_coo/indexing.py", ["getitem"]),
        **core.source_fingerprint(b + "_coo/core.py", ["_calc_counts_invidx", "COO.reshape", "COO.__init__"]),
        **core.source_fingerprint(b + "_coo/common.py", ["concatenate", "roll", "flip", "kron", "triu", "tril"]),
        **core.source_fingerprint(b + "_common.py", ["pad"]),
        **core.source_fingerprint(b + "_compressed/compressed.py", ["_from_coo", "GCXS._reduce_calc"]),
        **{"gcxs." + k: v for k, v in core.source_fingerprint(b + "_compressed/common.py", ["concatenate", "stack"]).items()},
        **core.source_fingerprint(b + "_compressed/convert.py", ["uncompress_dimension", "_transpose", "_1d_reshape", "compute_flat"]),
        **{"gcxs." + k: v for k, v in core.source_fingerprint(b + "_compressed/indexing.py", ["getitem"]).items()},
        **core.source_fingerprint(b + "_utils.py", ["can_store", "get_out_dtype", "random"]),
    }
    ctx.notes["partial"] = findings_c15.PARTIAL
    ctx.notes["stated_not_proved"] = findings_c15.STATEMENTS
    # a finding whose witness no longer fails must not be used to excuse anything
    for f in ctx.failures:
        if f.get("finding") and not defects.get(f["finding"], True):
            f["finding"] = None
    ctx.cov["rule"] = (
        "rules: every value of every arithmetic rule compared with NumPy (exhaustive for 8-bit types); leg A: per site, inputs at the limits of each dtype "
        "(extent/nnz/shift/offset at max-1, max, max+1), model vs implementation on coordinates, dtype and error class; leg C: scenarios "
        "(1-d sparse/full, 3 x n, n x 3, n x n, 2 x n x 3, nnz-limited) with extent or nnz at L-1, L, L+1 for L in {127,255,32767,65535} x every operation "
        "x every index dtype that holds the shape, against the int64 run; non-trivial = stores at least one element; distinct by content hash")


def replay(ctx, path):
    """re-run one recorded failing case: exit 1 when it still fails"""
    obj = json.loads(Path(path).read_text())
    f = obj.get("failure") or (obj.get("correspondence_failures") or [None])[0]
    if not f:
        print("nothing to replay in", path)
        return 2
    case = f["case"]
    if f["leg"] != "C":
        print("leg", f["leg"], "case:", json.dumps(case)[:400], "\nrecorded:", f["detail"])
        return 1
    import io

    buf = io.StringIO()
    c15_legc.run_worker(case["idx_dtype"], "thorough", ctx.seed, [case["limit"]], False, None, out=buf, only_case=(case["scenario"], case["op"]))
    recs = [json.loads(l) for l in buf.getvalue().splitlines() if l.strip()]
    recs = [r for r in recs if "begin" not in r]
    if not recs:
        print("case not found:", json.dumps(case))
        return 2
    r = recs[0]
    print(f"replay {r['family']}:{case['op']} on {case['scenario']} with {case['idx_dtype']} coordinates: {r['status']} {r['detail']}")
    return 0 if r["status"] != "differ" else 1

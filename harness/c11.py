"""C11 — operations never modify their operands; caching is unobservable.

Leg A  (correspondence, tie T2)
  A1  random call sequences (length <= 40) of transpose/reshape/tocsr/tocsc on cache-enabled COO arrays —
      the root array and the cache-enabled results it hands out — against the cache state machine of
      SparseV.Model.Cache: hit / miss / early `self` return observed through object identity of the
      returned values, the keys held by both deques and the `_csr/_csc` memo attributes after every call.
  A2  the buffer-protocol table of SparseV.Model.Buffer (fetched from the driver, not copied) against
      np.shares_memory on the real operation: observed sharing must be inside the predicted may-alias
      map, a field predicted fresh must never share; then a sentinel is written through every field the
      table says is fresh and the operands' bytes are compared again.
Leg C  (property oracle)
  C1  every public operation x {COO, cache-enabled COO, GCXS (all compressed axes), DOK} x fills: the
      operands' storage (coords/data/indices/indptr bytes, dtypes, shape, fill value, flags.writeable,
      DOK dict) before and after must be identical, whether the call returns or raises; delayed
      corruption: a sentinel is written through every result buffer that does not share memory with an
      operand, and a second operation is applied to the result, then the operands are compared again.
  C2  the same random call sequence on an array with and without caching: every outcome equal
      (type, shape, dtype, fill value, dense values, error class), cached values still correct at the end;
      nested: further operations (every permutation incl. the non-self-inverse ones of rank 3-4, reductions over
      every axis, tensordot / dot over every axis, reshapes; two levels deep) applied to the RESULTS of cached calls,
      each compared with the uncached run and with NumPy.
  C1 also runs a "special operands" family (zero-mean lanes, all-equal lanes, symmetric +-values, explicitly stored
      fill values, single element, fully dense, empty) through EVERY operation, with reductions over every axis.
"""
from __future__ import annotations

import copy
import io
import pickle
import sys
import warnings

import numpy as np

import core
import findings
import gen
import impl

PID = "C11"
TRUSTED = [
    "Lean 4 kernel; axioms propext, Classical.choice, Quot.sound only (audited per theorem each run)",
    "tie T2 (cache): SparseV.Model.Cache.step hand-written after COO.transpose/reshape/tocsr/tocsc, compared with the "
    "implementation after every call of random call sequences on hit/miss/self (object identity), deque keys, memo attributes",
    "tie T2 (storage): the protocol table SparseV.Model.Buffer.protocols is a hand transcription of the listed functions; "
    "its alias map is compared with np.shares_memory on the real operations by this run",
    "numba kernels writing into their arguments are outside the model: covered by the byte comparison of leg C only",
    "np.shares_memory (exact mode) and ndarray.tobytes are trusted to observe storage",
]
SENTINEL = 77


# ------------------------------------------------------------------------------------------------
# observing storage
# ------------------------------------------------------------------------------------------------

def buffers(x, prefix=""):
    """named ndarray buffers reachable from an operand or a result"""
    import scipy.sparse as sp
    import sparse

    if isinstance(x, sparse.COO | sparse.GCXS):
        # every ndarray attribute (coords/data, data/indices/indptr; an `out=` target of another format holds the result's)
        return {prefix + k: v for k, v in sorted(vars(x).items()) if isinstance(v, np.ndarray) and k != "fill_value"}
    if isinstance(x, np.ndarray):
        return {prefix + "array": x}
    if sp.issparse(x):
        d = {}
        for f in ("data", "indices", "indptr", "row", "col"):
            v = getattr(x, f, None)
            if isinstance(v, np.ndarray):
                d[prefix + f] = v
        return d
    if isinstance(x, tuple | list):
        d = {}
        for i, e in enumerate(x):
            d.update(buffers(e, f"{prefix}{i}."))
        return d
    return {}


def _arr(a):
    a = np.asarray(a)
    return (str(a.dtype), a.shape, a.tobytes(), bool(a.flags.writeable))


def snapshot(x):
    """everything C11 says an operation must leave alone"""
    import scipy.sparse as sp
    import sparse

    if isinstance(x, sparse.COO):
        return ("coo", x.shape, str(x.dtype), _arr(x.fill_value)[:3], _arr(x.coords), _arr(x.data))
    if isinstance(x, sparse.GCXS):
        ip = _arr(x.indptr) if isinstance(x.indptr, np.ndarray) else repr(x.indptr)
        return ("gcxs", x.shape, str(x.dtype), _arr(x.fill_value)[:3], x.compressed_axes, _arr(x.data), _arr(x.indices), ip)
    if isinstance(x, sparse.DOK):
        items = sorted((tuple(int(i) for i in k), _arr(v)[:3]) for k, v in x.data.items())
        return ("dok", x.shape, str(x.dtype), _arr(x.fill_value)[:3], items)
    if isinstance(x, np.ndarray):
        return ("nd",) + _arr(x)
    if sp.issparse(x):
        return ("sp", x.shape, x.format) + tuple(_arr(v) for v in buffers(x).values())
    if isinstance(x, tuple | list):
        return tuple(snapshot(e) for e in x)
    return ("py", repr(x))


def diff_snap(a, b):
    names = {"coo": ["kind", "shape", "dtype", "fill", "coords", "data"],
             "gcxs": ["kind", "shape", "dtype", "fill", "compressed_axes", "data", "indices", "indptr"],
             "dok": ["kind", "shape", "dtype", "fill", "items"], "nd": ["kind", "dtype", "shape", "bytes", "writeable"]}
    if a == b:
        return None
    lab = names.get(a[0], [])
    for i, (u, v) in enumerate(zip(a, b)):
        if u != v:
            f = lab[i] if i < len(lab) else f"field{i}"
            if isinstance(u, tuple) and len(u) == 4 and isinstance(u[2], bytes):
                what = [n for n, p, q in zip(("dtype", "shape", "bytes", "writeable"), u, v) if p != q]
                return f"{f} changed ({'/'.join(what)}): {np.frombuffer(u[2], dtype=u[0]).tolist()!r:.120} -> " \
                       f"{np.frombuffer(v[2], dtype=v[0]).tolist()!r:.120}"
            return f"{f} changed: {u!r:.120} -> {v!r:.120}"
    return "snapshot length changed"


def shares(a, b):
    if a.size == 0 or b.size == 0:
        return False
    try:
        return bool(np.shares_memory(a, b))
    except Exception:  # noqa: BLE001  (too hard problem: be conservative)
        return bool(np.may_share_memory(a, b))


def poison(buf):
    """write a sentinel through a buffer (view-safe, any dtype); returns True if something was written"""
    if not isinstance(buf, np.ndarray) or buf.size == 0 or not buf.flags.writeable:
        return False
    try:
        if buf.dtype.kind == "b":
            np.logical_not(buf, out=buf)
        else:
            buf[...] = np.asarray(SENTINEL).astype(buf.dtype)
        return True
    except Exception:  # noqa: BLE001
        return False


# ------------------------------------------------------------------------------------------------
# leg A1: the cache state machine
# ------------------------------------------------------------------------------------------------

def key_json(kind, arg=None):
    return [kind] if arg is None else [kind, [int(v) for v in arg]]


def call_pool(rng, shp):
    """a small pool of calls so that repeats and evictions happen: (model key, raw python args)"""
    nd = len(shp)
    size = int(np.prod(shp, dtype=np.int64))
    pool = []
    perms = {tuple(range(nd))}
    for _ in range(12):
        perms.add(tuple(int(a) for a in rng.permutation(nd)))
        if len(perms) >= 6:
            break
    for p in sorted(perms):
        raw = tuple(a - nd if rng.random() < 0.3 else a for a in p)
        form = int(rng.integers(3))
        pool.append(("t", p, raw if form == 0 else list(raw) if form == 1 else np.array(raw, dtype=np.int64), True))
    if nd:
        pool.append(("t", tuple(reversed(range(nd))), None, True))  # transpose() : axes=None
    targets = {tuple(shp)}
    for _ in range(12):
        from c08 import rand_factorisation
        targets.add(tuple(rand_factorisation(rng, size)) if size else tuple(int(v) for v in rng.permutation([0, int(rng.integers(1, 4))])))
        if len(targets) >= 6:
            break
    for t in sorted(targets):
        raw = list(t)
        if size and t and rng.random() < 0.3:
            raw[int(rng.integers(len(t)))] = -1
        # (reshape compares the caller's tuple with self.shape BEFORE resolving -1: `literal` is part of the call)
        pool.append(("r", t, tuple(raw) if rng.random() < 0.6 else raw, -1 not in raw))
    pool += [("csr", None, None, True), ("csc", None, None, True)]
    return pool


def do_call(x, kind, raw):
    if kind == "t":
        return x.transpose() if raw is None else x.transpose(raw)
    if kind == "r":
        return x.reshape(raw)
    return x.tocsr() if kind == "csr" else x.tocsc()


def leg_a_cache(ctx, rng, n):
    import sparse

    reqs, metas = [], []
    for k in range(n):
        shp = gen.shape(rng, 2, 4, extents=[1, 2, 2, 3, 3, 4], max_size=120) if rng.random() < 0.7 else gen.shape(rng, 0, 3)
        fill = int(rng.choice([0, 0, 0, 2]))
        d = gen.dense(rng, shp, fill)
        root = sparse.COO.from_numpy(d, fill_value=fill)
        root.enable_caching()
        objs = [root]  # cache-enabled arrays reachable so far
        hist = {0: []}  # object index -> [(kind, key, observed)]
        keep = [root]  # every returned object stays alive: identity comparisons are meaningful
        pools = {0: call_pool(rng, shp)}
        length = int(rng.integers(1, 41))
        for _ in range(length):
            oi = 0 if rng.random() < 0.75 else int(rng.integers(len(objs)))
            x = objs[oi]
            kind, key, raw, lit = pools[oi][int(rng.integers(len(pools[oi])))]
            try:
                r, err = do_call(x, kind, raw), None
            except Exception as e:  # noqa: BLE001
                r, err = None, impl.err_class(e)
            seen_before = next((j for j, o in enumerate(keep) if o is r), None) if err is None else None
            c = x._cache
            obs = {
                "ok": err is None, "err": err, "self": r is x, "seen": seen_before,
                "tr": [key_json("t", ax) for ax, _ in c.get("transpose", ())],
                "rs": [key_json("r", sh) for sh, _ in c.get("reshape", ())],
                "csr": hasattr(x, "_csr"), "csc": hasattr(x, "_csc"),
                "held": err is None and r is not x and (
                    any(v is r for _, v in c.get("transpose" if kind == "t" else "reshape", ())) if kind in "tr"
                    else r is getattr(x, "_" + kind, None)),
            }
            if err is None:
                keep.append(r)
                obs["idx"] = len(keep) - 1
                if isinstance(r, sparse.COO) and r is not x and r._cache is not None and seen_before is None and len(objs) < 6:
                    objs.append(r)
                    hist[len(objs) - 1] = []
                    pools[len(objs) - 1] = call_pool(rng, r.shape)
            hist[oi].append((kind, key, obs, lit))
        for oi, h in hist.items():
            if not h:
                continue
            x = objs[oi]
            errs = [["csr"]] if (x.ndim != 2 or fill != 0) else []
            calls = [key_json(kind, key) + ([lit] if kind == "r" else []) for kind, key, _, lit in h]
            reqs.append(["c11_cache_run", [int(v) for v in x.shape], errs, calls])
            metas.append({"shape": list(x.shape), "fill": fill, "calls": calls, "nested": oi != 0, "obs": [o for _, _, o, _ in h]})
    outs = ctx.driver.run(reqs)
    hits = misses = evictions = 0
    for meta, out in zip(metas, outs):
        case = {k: meta[k] for k in ("shape", "fill", "calls", "nested")}
        distinct = len({json_key(c) for c in meta["calls"]})
        ctx.case("A:cache", case, nontrivial=len(meta["calls"]) > 1)
        if "ok" not in out:
            ctx.fail("A", "model:cache", case, f"driver: {out}")
            continue
        m = out["ok"]
        if not m["equal_uncached"]:
            ctx.fail("A", "model:cache", case, "model run differs from uncached map (theorem instance)")
        last_miss = {}
        prev_tr, prev_rs = [], []
        for i, (mo, ro, call) in enumerate(zip(m["obs"], meta["obs"], meta["calls"])):
            ck = json_key(call[:2])
            why = None
            if mo["ok"] != ro["ok"]:
                why = f"model ok={mo['ok']} implementation {'returned' if ro['ok'] else 'raised ' + str(ro['err'])}"
            elif ro["ok"] and mo["self"] != ro["self"]:
                why = f"model self={mo['self']} implementation self={ro['self']}"
            elif mo["tr"] != ro["tr"] or mo["rs"] != ro["rs"]:
                why = f"deque keys: model tr={mo['tr']} rs={mo['rs']} implementation tr={ro['tr']} rs={ro['rs']}"
            elif mo["csr"] != ro["csr"] or mo["csc"] != ro["csc"]:
                why = f"memo attrs: model csr={mo['csr']} csc={mo['csc']} implementation csr={ro['csr']} csc={ro['csc']}"
            elif ro["ok"] and not ro["self"]:
                if not ro["held"]:
                    why = "the cache does not hold the returned object after the call"
                elif mo["hit"]:
                    hits += 1
                    # (a csr hit right after a csc miss returns the memo that csc created: never handed out before)
                    if ck in last_miss and ro["seen"] != last_miss[ck]:
                        why = f"model predicts a hit; implementation returned object #{ro.get('idx')} (seen before: {ro['seen']}), the cached one is #{last_miss[ck]}"
                    elif ck not in last_miss and call[0] != "csr":
                        why = "model predicts a hit for a key that never missed"
                else:
                    misses += 1
                    if ro["seen"] is not None:
                        why = f"model predicts a miss; implementation returned the earlier object #{ro['seen']}"
                    last_miss[ck] = ro.get("idx")
            if len(prev_tr) == 3 and mo["tr"][:1] != prev_tr[:1]:
                evictions += 1
            if len(prev_rs) == 3 and mo["rs"][:1] != prev_rs[:1]:
                evictions += 1
            prev_tr, prev_rs = mo["tr"], mo["rs"]
            if why:
                ctx.fail("A", "model:cache", dict(case, step=i), why)
                break
        ctx.cov["cache_distinct_keys_max"] = max(ctx.cov.get("cache_distinct_keys_max", 0), distinct)
    ctx.count("cache_hits", hits)
    ctx.count("cache_misses", misses)
    ctx.count("cache_evictions", evictions)


def json_key(c):
    return repr(c)


# ------------------------------------------------------------------------------------------------
# leg A2: the protocol table against np.shares_memory
# ------------------------------------------------------------------------------------------------

def _coo(rng, min_rank=1, max_rank=3, fill=0, dtype=np.int64, min_nnz=2):
    import sparse

    for _ in range(30):
        shp = gen.shape(rng, min_rank, max_rank, extents=[2, 2, 3, 3, 4], max_size=80)
        d = gen.dense(rng, shp, fill, density=float(rng.choice([0.4, 0.7, 1.0])), dtype=dtype)
        x = sparse.COO.from_numpy(d, fill_value=fill)
        if x.nnz >= min_nnz:
            return x
    return x


def protocol_bindings(rng):
    """name -> thunk returning (operand buffers by table name, result buffers by table name, operands to snapshot)"""
    import sparse

    def two(x):
        return {"coords": x.coords, "data": x.data}

    def pair(a, b):
        return {"a.coords": a.coords, "a.data": a.data, "b.coords": b.coords, "b.data": b.data}

    def b_roll():
        x = _coo(rng)
        ax = int(rng.integers(x.ndim))
        r = sparse.roll(x, int(rng.integers(1, 4)), axis=ax)
        return two(x), two(r), [x]

    def b_flip():
        x = _coo(rng)
        r = sparse.flip(x, axis=int(rng.integers(x.ndim)))
        return two(x), two(r), [x]

    def b_transpose():
        x = _coo(rng, 2, 3)
        p = list(range(x.ndim))
        p[0], p[-1] = p[-1], p[0]
        return two(x), two(x.transpose(p)), [x]

    def b_reshape():
        x = _coo(rng, 2, 3)
        return two(x), two(x.reshape((x.size,))), [x]

    def b_squeeze():
        x = _coo(rng, 1, 2)
        x1 = sparse.COO(np.vstack([x.coords, np.zeros((1, x.nnz), dtype=x.coords.dtype)]), x.data, x.shape + (1,), fill_value=x.fill_value)
        return two(x1), two(x1.squeeze()), [x1]

    def b_expand():
        x = _coo(rng)
        return two(x), two(sparse.expand_dims(x, axis=int(rng.integers(x.ndim + 1)))), [x]

    def b_concat():
        a = _coo(rng)
        b = a + 1 if rng.random() < 0.5 else a.copy()
        b = sparse.COO(b.coords.copy(), b.data.copy(), b.shape, fill_value=a.fill_value)
        return pair(a, b), two(sparse.concatenate([a, b], axis=int(rng.integers(a.ndim)))), [a, b]

    def b_stack():
        a = _coo(rng)
        b = sparse.COO(a.coords.copy(), a.data.copy() + 1, a.shape, fill_value=a.fill_value)
        return pair(a, b), two(sparse.stack([a, b], axis=int(rng.integers(a.ndim + 1)))), [a, b]

    def b_sort_indices():
        x = _coo(rng)
        order = rng.permutation(x.nnz)
        c, d = x.coords[:, order].copy(), x.data[order].copy()
        r = sparse.COO(c, d, x.shape, has_duplicates=False, sorted=False)
        return {"coords": c, "data": d}, two(r), [c, d]

    def b_sum_duplicates():
        x = _coo(rng)
        c, d = np.concatenate([x.coords, x.coords], axis=1), np.concatenate([x.data, x.data])
        r = sparse.COO(c, d, x.shape, has_duplicates=True, sorted=False)
        return {"coords": c, "data": d}, two(r), [c, d]

    def b_todense():
        x = _coo(rng)
        return two(x), {"dense": x.todense()}, [x]

    def b_tocsr():
        x = _coo(rng, 2, 2)
        m = x.tocsr()
        return two(x), {"indices": m.indices, "indptr": m.indptr, "data": m.data}, [x]

    def b_sort():
        x = _coo(rng)
        return two(x), two(sparse.sort(x, axis=int(rng.integers(x.ndim)))), [x]

    def b_argmax():
        x = _coo(rng)
        return two(x), two(sparse.argmax(x, axis=int(rng.integers(x.ndim)), keepdims=True)), [x]

    def b_reduce():
        x = _coo(rng, 2, 3)
        r = x.max(axis=int(rng.integers(x.ndim)))
        return two(x), two(r), [x]

    def b_ufunc_out():
        a = _coo(rng)
        out = sparse.COO(a.coords.copy(), a.data.copy(), a.shape)
        oc, od = out.coords, out.data
        np.add(a, 1 * a, out=out)
        return {"a.coords": a.coords, "a.data": a.data, "out.coords": oc, "out.data": od}, two(out), [a, oc, od]

    def b_copy_shallow():
        x = _coo(rng)
        return two(x), two(x.copy(deep=False)), [x]

    def b_copy_deep():
        x = _coo(rng)
        return two(x), two(x.copy()), [x]

    def gx(min_rank=2, max_rank=3):
        x = _coo(rng, min_rank, max_rank)
        return gen.to_format(rng, x.todense(), "gcxs", 0)[0]

    def three(g):
        return {"data": g.data, "indices": g.indices, "indptr": g.indptr}

    def b_2d_transpose():
        g = gx(2, 2)
        return three(g), three(g._2d_transpose()), [g]

    def b_gtodense():
        x = _coo(rng, 1, 1)
        g = sparse.GCXS.from_coo(x.copy())
        return {"data": g.data, "indices": g.indices}, {"dense": g.todense()}, [g]

    def b_gtocoo():
        g = gx()
        return three(g), two(g.tocoo()), [g]

    def b_from_coo():
        x = _coo(rng, 2, 3)
        return two(x), three(sparse.GCXS.from_coo(x)), [x]

    def b_from_coo_1d():
        x = _coo(rng, 1, 1)
        g = sparse.GCXS.from_coo(x)
        return two(x), {"data": g.data, "indices": g.indices}, [x]

    return {
        "coo.roll": b_roll, "coo.flip": b_flip, "coo.transpose": b_transpose, "coo.reshape": b_reshape,
        "coo.squeeze": b_squeeze, "coo.expand_dims": b_expand, "coo.concatenate": b_concat, "coo.stack": b_stack,
        "coo._sort_indices": b_sort_indices, "coo._sum_duplicates": b_sum_duplicates, "coo.todense": b_todense,
        "coo.tocsr": b_tocsr, "coo.sort": b_sort, "coo.argmax": b_argmax, "coo.reduce": b_reduce,
        "coo.ufunc_out": b_ufunc_out, "coo.copy_shallow": b_copy_shallow, "coo.copy_deep": b_copy_deep,
        "gcxs._2d_transpose": b_2d_transpose, "gcxs.todense": b_gtodense, "gcxs.tocoo": b_gtocoo,
        "gcxs.from_coo": b_from_coo, "gcxs.from_coo_1d": b_from_coo_1d,
    }


def leg_a_alias(ctx, rng, reps):
    out = ctx.driver.run([["c11_protocols"]])[0]
    if "ok" not in out:
        ctx.broke("correspondence:protocol-table", f"driver: {out}")
        return
    table = out["ok"]
    binds = protocol_bindings(rng)
    observed = {}
    for row in table:
        name = row["name"]
        if not (row["writes_fresh"] and row["well_scoped"]):
            ctx.broke(f"protocol:{name}", "table entry writes into an operand buffer or is ill scoped")
        if name not in binds:
            ctx.broke(f"correspondence:{name}", "protocol in the Lean table has no binding to the implementation")
            continue
        alias = {f: o for f, o in row["alias"]}
        for rep in range(reps):
            case = {"protocol": name, "rep": rep}
            try:
                with warnings.catch_warnings():
                    warnings.simplefilter("ignore")
                    ops, res, operands = binds[name]()
            except Exception as e:  # noqa: BLE001
                ctx.fail("A", f"protocol:{name}", case, f"implementation raised {type(e).__name__}: {e}")
                break
            case["operand_shapes"] = {k: list(v.shape) for k, v in ops.items()}
            ctx.case(f"A:protocol:{name}", case, nontrivial=all(v.size for v in ops.values()))
            if set(res) != set(alias) or not set(ops) >= {o for o in alias.values() if o}:
                ctx.fail("A", f"protocol:{name}", case, f"fields: table {sorted(alias)} / {row['operands']} vs binding {sorted(res)} / {sorted(ops)}")
                break
            before = [snapshot(o) for o in operands]
            bad = None
            for f, rbuf in res.items():
                for o, obuf in ops.items():
                    if shares(rbuf, obuf):
                        observed.setdefault(name, set()).add((f, o))
                        if alias[f] != o:
                            bad = f"result.{f} shares memory with operand {o}; the table predicts {alias[f] or 'fresh'}"
            if bad:
                ctx.fail("A", f"protocol:{name}", case, bad)
                break
            after = [snapshot(o) for o in operands]
            for i, (b, a) in enumerate(zip(before, after)):
                msg = diff_snap(b, a)
                if msg:
                    ctx.fail("C", f"unchanged:{name}", case, f"operand {i}: {msg}", finding=findings.classify(PID, name, case, msg))
            # delayed corruption: write through every buffer the table says is fresh
            wrote = 0
            for f, rbuf in res.items():
                if alias[f] is None:
                    wrote += poison(rbuf)
            after2 = [snapshot(o) for o in operands]
            ctx.count("sentinel_writes", wrote)
            for i, (b, a) in enumerate(zip(before, after2)):
                msg = diff_snap(b, a)
                if msg:
                    ctx.fail("C", f"delayed:{name}", case, f"writing through the result's fresh buffers changed operand {i}: {msg}",
                             finding=findings.classify(PID, name, case, msg))
    ctx.notes["alias_map_observed"] = {k: sorted(map(list, v)) for k, v in sorted(observed.items())}
    ctx.notes["alias_map_predicted"] = {r["name"]: r["alias"] for r in table}


# ------------------------------------------------------------------------------------------------
# leg C1: every public operation leaves its operands alone
# ------------------------------------------------------------------------------------------------

UNARY = ["abs", "negative", "positive", "sign", "sqrt", "square", "sin", "tan", "expm1", "log1p", "exp", "cos", "floor", "ceil",
         "trunc", "round", "real", "imag", "conj", "isnan", "isinf", "isfinite", "isposinf", "isneginf", "logical_not",
         "bitwise_invert", "asinh", "tanh"]
BINARY = ["add", "subtract", "multiply", "divide", "floor_divide", "remainder", "pow", "maximum", "minimum", "atan2", "equal",
          "not_equal", "less", "less_equal", "greater", "greater_equal", "logical_and", "logical_or", "logical_xor",
          "bitwise_and", "bitwise_or", "bitwise_xor", "bitwise_left_shift", "logaddexp"]
REDUCE = ["sum", "prod", "max", "min", "any", "all", "mean", "var", "std", "nansum", "nanprod", "nanmax", "nanmin", "nanmean",
          "argmax", "argmin"]


def rand_index(rng, shp):
    idx = []
    used_adv = False
    for d in shp:
        r = rng.random()
        if r < 0.25 and d:
            idx.append(int(rng.integers(-d, d)))
        elif r < 0.65:
            idx.append(gen.rand_slice(rng, d))
        elif r < 0.75 and not used_adv and d:
            idx.append(np.array([int(v) for v in rng.integers(-d, d, size=int(rng.integers(1, 4)))]))
            used_adv = True
        elif r < 0.85:
            idx.append(slice(None))
            if rng.random() < 0.5:
                idx.append(None)
        else:
            break
    if rng.random() < 0.2:
        idx.insert(int(rng.integers(len(idx) + 1)), Ellipsis)
    return tuple(idx)


def ops_for(rng, x, y, d, all_axes=False):
    """yield (name, thunk, extra operands that must stay unchanged, exempt operands)

    x, y: sparse operands of equal shape (y possibly in another format); d: x's dense form"""
    import sparse

    nd, shp = x.ndim, x.shape
    fv = x.fill_value
    S = sparse
    # ---- element-wise ----------------------------------------------------------------------
    for n in UNARY:
        f = getattr(S, n, None) or getattr(np, n)
        yield f"ew:{n}", (lambda f=f: f(x)), [], []
    for n in BINARY:
        f = getattr(S, n, None) or getattr(np, n)
        yield f"ew:{n}", (lambda f=f: f(x, y)), [], []
    yield "ew:scalar", lambda: x * 3 + 1, [], []
    yield "ew:rscalar", lambda: 2 - x, [], []
    yield "ew:neg", lambda: -x, [], []
    yield "ew:abs()", lambda: abs(x), [], []
    yield "ew:cmp", lambda: (x < y) | (x == y), [], []
    yield "ew:astype", lambda: x.astype(np.float32), [], []
    yield "ew:sparse.astype", lambda: S.astype(x, np.int32), [], []
    yield "ew:clip", lambda: x.clip(-1, 2), [], []
    yield "ew:sparse.clip", lambda: S.clip(x, -1, 2), [], []
    yield "ew:round", lambda: x.round(1), [], []
    yield "ew:where", lambda: S.where(x > 0, x, y), [], []
    yield "ew:elemwise", lambda: S.elemwise(np.add, x, y), [], []
    yield "ew:elemwise3", lambda: S.elemwise(lambda a, b, c: a * b + c, x, y, x), [], []
    nda = np.asarray(rng.integers(-3, 4, size=shp[-1:] if nd else ()))
    yield "ew:ndarray-bcast", lambda: x * nda, [nda], []
    if nd:
        row = d[:1]
        yield "ew:sparse-bcast", lambda: x + S.COO.from_numpy(row, fill_value=fv), [], []
    # out= and in-place operators: the target is exempt, the other operand is not
    if isinstance(x, S.COO | S.GCXS):
        def iadd():
            t = copy.deepcopy(x)
            t += y
            return t

        def imul():
            t = copy.deepcopy(x)
            t *= 2
            return t

        def out_kw():
            t = copy.deepcopy(x)
            np.multiply(x, y, out=t)
            return t

        yield "inplace:+=", iadd, [], []
        yield "inplace:*=", imul, [], []
        yield "out=", out_kw, [], []
    # ---- indexing ---------------------------------------------------------------------------
    for j in range(3):
        idx = rand_index(rng, shp)
        advs = [i for i in idx if isinstance(i, np.ndarray)]
        yield f"index:getitem#{j}", (lambda idx=idx: x[idx]), advs, []
    if nd:
        m = rng.random(size=shp[0]) < 0.5
        yield "index:boolmask", lambda: x[m], [m], []
        ax = int(rng.integers(-nd, nd))
        ind = np.array([int(v) for v in rng.integers(0, shp[ax], size=3)]) if shp[ax] else np.array([], dtype=np.int64)
        yield "index:take", lambda: S.take(x, ind, axis=ax), [ind], []
    yield "index:nonzero", lambda: S.nonzero(x), [], []
    yield "index:argwhere", lambda: S.argwhere(x), [], []
    # ---- reductions ---------------------------------------------------------------------------
    for n in REDUCE:
        f = getattr(S, n)
        ax = None if (nd == 0 or rng.random() < 0.3) else int(rng.integers(-nd, nd))
        # special operands: every axis, None and (rank >= 2) a pair of axes — a shortcut keyed on one lane pattern must be reached
        axes = [ax] if not all_axes else [None, *range(nd)] + ([(0, nd - 1)] if nd >= 2 else [])
        for ax in axes:
            tag = f"#{ax}" if all_axes else ""
            if n.startswith("arg"):
                if isinstance(ax, tuple):
                    continue
                yield f"reduce:{n}{tag}", (lambda f=f, ax=ax: f(x, axis=ax)), [], []
            else:
                kd = bool(rng.random() < 0.3)
                yield f"reduce:{n}{tag}", (lambda f=f, ax=ax, kd=kd: f(x, axis=ax, keepdims=kd)), [], []
                if all_axes and n in ("var", "std", "mean", "sum", "prod"):
                    meth = getattr(x, n, None)
                    if meth is not None:
                        yield f"reduce:x.{n}{tag}", (lambda meth=meth, ax=ax: meth(axis=ax)), [], []
    if nd >= 2:
        yield "reduce:sum-2axes", lambda: x.sum(axis=(0, -1)), [], []
    yield "reduce:method", lambda: x.reduce(np.maximum, axis=tuple(range(nd))[:1]), [], []
    yield "reduce:np.add.reduce", lambda: np.add.reduce(x, axis=0) if nd else np.add.reduce(x, axis=None), [], []
    # ---- products -----------------------------------------------------------------------------
    if nd >= 1:
        k = int(rng.integers(1, 4))
        md = gen.dense(rng, (shp[-1], k), 0).astype(d.dtype)  # same dtype as x: two typed-kernel families to compile, not four
        mf = S.COO.from_numpy(md)
        mg = S.GCXS.from_numpy(md)
        yield "prod:dot(sparse)", lambda: S.dot(x, mf), [mf], []
        yield "prod:dot(gcxs)", lambda: S.dot(x, mg), [mg], []
        yield "prod:dot(ndarray)", lambda: S.dot(x, md), [md], []
        yield "prod:rdot(ndarray)", lambda: S.dot(md.T, x.T) if nd >= 2 else S.dot(md.T, x), [md], []
        yield "prod:matmul", lambda: x @ mf, [mf], []
        yield "prod:rmatmul", lambda: md.T @ x if nd <= 2 else None, [md], []
        yield "prod:method.dot", lambda: x.dot(md), [md], []
        yield "prod:tensordot", lambda: S.tensordot(x, mf, axes=([nd - 1], [0])), [mf], []
        yield "prod:tensordot-self", lambda: S.tensordot(x, y, axes=(list(range(nd)), list(range(nd)))), [], []
        yield "prod:einsum", lambda: S.einsum("...i,ij->...j", x, mf), [mf], []
        yield "prod:einsum-trace", lambda: S.einsum("i...->...", x), [], []
        yield "prod:vecdot", lambda: S.vecdot(x, y, axis=-1), [], []
    yield "prod:outer", lambda: S.outer(x.flatten() if hasattr(x, "flatten") else x, y.flatten() if hasattr(y, "flatten") else y), [], []
    yield "prod:kron", lambda: S.kron(x, y), [], []
    # ---- shape --------------------------------------------------------------------------------
    perm = tuple(int(a) for a in rng.permutation(nd))
    yield "shape:transpose", lambda: x.transpose(perm) if nd else x.transpose(), [], []
    yield "shape:T", lambda: x.T, [], []
    if nd >= 2:
        yield "shape:mT", lambda: x.mT, [], []
        yield "shape:matrix_transpose", lambda: S.matrix_transpose(x), [], []
        yield "shape:swapaxes", lambda: x.swapaxes(0, -1), [], []
        yield "shape:moveaxis", lambda: S.moveaxis(x, 0, -1), [], []
    yield "shape:permute_dims", lambda: S.permute_dims(x, perm), [], []
    from c08 import rand_factorisation
    tgt = tuple(rand_factorisation(rng, int(d.size))) if d.size else (0, 2)
    yield "shape:reshape", lambda: x.reshape(tgt), [], []
    yield "shape:sparse.reshape", lambda: S.reshape(x, (-1,)), [], []
    yield "shape:flatten", lambda: x.flatten(), [], []
    yield "shape:squeeze", lambda: S.squeeze(S.expand_dims(x, axis=0), axis=0), [], []
    yield "shape:squeeze()", lambda: x.squeeze(), [], []
    yield "shape:expand_dims", lambda: S.expand_dims(x, axis=int(rng.integers(nd + 1))), [], []
    yield "shape:broadcast_to", lambda: S.broadcast_to(x, (2,) + shp), [], []
    yield "shape:broadcast_arrays", lambda: S.broadcast_arrays(x, S.expand_dims(y, axis=0)), [], []
    if nd:
        ax = int(rng.integers(-nd, nd))
        yield "shape:flip", lambda: S.flip(x, axis=ax), [], []
        yield "shape:flip()", lambda: S.flip(x), [], []
        yield "shape:roll", lambda: S.roll(x, int(rng.integers(-5, 6)), axis=ax), [], []
        yield "shape:roll()", lambda: S.roll(x, 2), [], []
        yield "shape:roll-multi", lambda: S.roll(x, tuple([1] * nd), axis=tuple(range(nd))), [], []
        yield "shape:pad", lambda: S.pad(x, 1, constant_values=fv), [], []
    # ---- joins / structural extraction ----------------------------------------------------------
    if nd:
        ax = int(rng.integers(-nd, nd))
        yield "join:concatenate", lambda: S.concatenate([x, y], axis=ax), [], []
        yield "join:concatenate3", lambda: S.concatenate([x, y, x], axis=0), [], []
        yield "join:concat", lambda: S.concat([x, y], axis=ax), [], []
        yield "join:concatenate-flat", lambda: S.concatenate([x, y], axis=None), [], []
    yield "join:stack", lambda: S.stack([x, y], axis=int(rng.integers(nd + 1))), [], []
    yield "join:stack-last", lambda: S.stack([x, y, x], axis=-1), [], []
    if nd >= 2:
        k = int(rng.integers(-2, 3))
        yield "extract:triu", lambda: S.triu(x, k), [], []
        yield "extract:tril", lambda: S.tril(x, k), [], []
        yield "extract:diagonal", lambda: S.diagonal(x, offset=k), [], []
        yield "extract:diagonalize", lambda: S.diagonalize(x, axis=0), [], []
    # ---- conversions ----------------------------------------------------------------------------
    yield "conv:todense", lambda: x.todense(), [], []
    yield "conv:asformat(coo)", lambda: x.asformat("coo"), [], []
    yield "conv:asformat(gcxs)", lambda: x.asformat("gcxs"), [], []
    yield "conv:asformat(dok)", lambda: x.asformat("dok"), [], []
    yield "conv:COO(x)", lambda: S.COO(x), [], []
    if isinstance(x, S.COO):
        # the copy constructor with a NEW fill value builds another array: the source keeps its own fill value, cache and storage
        yield "conv:COO(x,fill_value=v)", lambda: (S.COO(x, fill_value=fv + 3), S.COO(x, fill_value=fv + 3).todense()), [], []
        yield "conv:COO(x,fill_value=v)+ops", lambda: (lambda z: (z + 1, z.reshape((-1,)), z.T))(S.COO(x, fill_value=fv + 5)), [], []
    yield "io:save_npz", lambda: (lambda b: (S.save_npz(b, x.asformat("coo") if isinstance(x, S.DOK) else x), b.tell()))(io.BytesIO()), [], []
    yield "io:save_npz(compressed=False)", lambda: (lambda b: (S.save_npz(b, x.asformat("coo") if isinstance(x, S.DOK) else x, compressed=False), b.tell()))(io.BytesIO()), [], []
    yield "io:save-load", lambda: (lambda b: (S.save_npz(b, x.asformat("coo") if isinstance(x, S.DOK) else x), b.seek(0), S.load_npz(b))[-1])(io.BytesIO()), [], []
    yield "conv:GCXS(x)", lambda: S.GCXS(x), [], []
    yield "conv:DOK(x)", lambda: S.DOK(x) if not isinstance(x, S.GCXS) else S.DOK.from_coo(x.tocoo()), [], []
    yield "conv:as_coo", lambda: S.as_coo(x), [], []
    yield "conv:asarray", lambda: S.asarray(x, format="gcxs"), [], []
    yield "conv:asnumpy", lambda: S.asnumpy(x), [], []
    yield "conv:to_scipy_sparse", lambda: x.to_scipy_sparse(accept_fv=[fv]) if hasattr(x, "to_scipy_sparse") else None, [], []
    yield "conv:tocsr", lambda: x.tocsr() if hasattr(x, "tocsr") else x.to_scipy_sparse(), [], []
    yield "conv:tocsc", lambda: x.tocsc() if hasattr(x, "tocsc") else None, [], []
    yield "conv:tocoo", lambda: x.tocoo() if hasattr(x, "tocoo") else x.to_coo() if hasattr(x, "to_coo") else None, [], []
    yield "conv:todok", lambda: x.todok() if hasattr(x, "todok") else None, [], []
    yield "conv:maybe_densify", lambda: x.maybe_densify(max_size=10**6, min_density=0.0) if hasattr(x, "maybe_densify") else None, [], []
    yield "conv:change_compressed_axes", lambda: x.change_compressed_axes((nd - 1,)) if hasattr(x, "change_compressed_axes") else None, [], []
    yield "conv:linear_loc", lambda: x.linear_loc() if hasattr(x, "linear_loc") else None, [], []
    yield "conv:zeros_like", lambda: (S.zeros_like(x), S.ones_like(x), S.full_like(x, 3), S.empty_like(x)), [], []
    # ---- sort / unique ----------------------------------------------------------------------------
    if nd:
        ax = int(rng.integers(-nd, nd))
        yield "sort:sort", lambda: S.sort(x, axis=ax), [], []
        yield "sort:sort-desc", lambda: S.sort(x, axis=-1, descending=True), [], []
    yield "sort:unique_values", lambda: S.unique_values(x), [], []
    yield "sort:unique_counts", lambda: S.unique_counts(x), [], []
    # ---- copy / persistence / inspection ------------------------------------------------------------
    yield "copy:copy()", lambda: x.copy() if hasattr(x, "copy") else copy.deepcopy(x), [], []
    yield "copy:copy(deep=False)", lambda: x.copy(deep=False) if isinstance(x, S.COO | S.GCXS) else copy.copy(x), [], []
    yield "copy:copy.copy", lambda: copy.copy(x), [], []
    yield "copy:deepcopy", lambda: copy.deepcopy(x), [], []
    yield "copy:pickle", lambda: pickle.loads(pickle.dumps(x)), [], []
    yield "inspect:repr", lambda: (repr(x), str(x), x.nnz, x.density, x.nbytes, x.size, x.format), [], []
    yield "inspect:html", lambda: x._repr_html_(), [], []
    yield "inspect:eq-all", lambda: bool((x == x).all()), [], []


SECOND_OPS = [
    ("roll", lambda S, r: S.roll(r, 1, axis=0)),
    ("flip", lambda S, r: S.flip(r, axis=-1)),
    ("concatenate", lambda S, r: S.concatenate([r, r], axis=0)),
    ("sort", lambda S, r: S.sort(r, axis=-1)),
    ("max", lambda S, r: r.max(axis=0)),
    ("reshape", lambda S, r: r.reshape((-1,))),
    ("neg", lambda S, r: -r + 1),
    ("getitem", lambda S, r: r[::-1]),
    ("stack", lambda S, r: S.stack([r, r])),
    ("pad", lambda S, r: S.pad(r, 1, constant_values=r.fill_value)),
    ("gcxs", lambda S, r: r.asformat("gcxs")),
]


def special_operands(rng, quick):
    """operands on which value-keyed shortcuts fire: (name, dense, fill, explicit stored fill values?)"""
    Z = np.array([[1, -1, 0, 0], [2, 0, -2, 0]])
    sp = [
        ("zero-mean-lanes", Z, 0, False),
        ("zero-mean-lanes-T", Z.T.copy(), 0, False),
        ("zero-mean-3d", np.stack([Z, -Z]), 0, False),
        ("zero-mean-1d", np.array([3, 0, -1, -2, 0]), 0, False),
        ("all-equal-lanes", np.array([[3, 3, 3], [0, 0, 0], [-2, -2, -2]]), 0, False),
        ("all-equal", np.full((2, 3), 2), 0, False),
        ("all-equal-is-fill", np.full((2, 3), 2), 2, True),
        ("symmetric", np.array([[-2, -1, 0, 1, 2], [2, 1, 0, -1, -2]]), 0, False),
        ("symmetric-2x2", np.array([[1, -1], [-1, 1]]), 0, False),
        ("stored-fill-values", np.array([[0, 1, 0, 2], [3, 0, 0, 4]]), 0, True),
        ("stored-fill-values-nonzero", np.array([[2, 1, 2, 2], [3, 2, 2, 4]]), 2, True),
        ("single-element", np.array([[0, 0, 0], [0, 5, 0]]), 0, False),
        ("single-element-1d", np.array([0, 0, 4]), 0, False),
        ("fully-dense", np.arange(1, 7).reshape(2, 3), 0, False),
        ("fully-dense-3d", np.arange(1, 25).reshape(2, 3, 4) - 12, 0, False),
        ("ones-and-zeros", np.array([[1, 0, 1], [0, 1, 0]]), 0, False),
        ("empty-pattern", np.zeros((2, 3), dtype=np.int64), 0, False),
    ]
    fmts = ["coo", "coo-cache", "gcxs", "dok"]
    for i, (name, d, fill, stored) in enumerate(sp):
        for j, dtype in enumerate((np.int64, np.float64)):
            # quick: the two lane-pattern operands in every array format and both dtypes, the others in one format
            # (rotating with the seed), float64 only where exact cancellation is the point
            lanes = name in ("zero-mean-lanes", "all-equal-lanes")
            pick = fmts if (not quick or lanes) else [fmts[(i + j + int(rng.integers(4))) % 4]]
            if quick and j == 1 and not (lanes or name in ("zero-mean-3d", "symmetric", "zero-mean-lanes-T")):
                continue
            for fmt in dict.fromkeys(pick):
                dd = d.astype(dtype)
                if dtype is np.float64 and (i % 2):
                    dd = dd / 2
                yield name, dd, fill, stored, fmt


def build_operand(rng, d, fill, fmt, stored_fill=False):
    """dense -> (sparse operand, description); stored_fill keeps explicit entries equal to the fill value"""
    import sparse

    if stored_fill:
        idx = np.argwhere(np.ones(d.shape, dtype=bool)).T
        keep = (d.reshape(-1) != fill) | (np.arange(d.size) % 2 == 0)  # every other fill-valued position is stored explicitly
        c = sparse.COO(idx[:, keep], d.reshape(-1)[keep], shape=d.shape, fill_value=fill, has_duplicates=False, sorted=True, prune=False)
    else:
        c = sparse.COO.from_numpy(d, fill_value=fill)
    if fmt == "coo":
        return c, "coo"
    if fmt == "coo-cache":
        c.enable_caching()
        return c, "coo-cache"
    if fmt == "dok":
        return sparse.DOK.from_coo(c), "dok"
    if d.ndim < 2:
        return sparse.GCXS.from_coo(c), "gcxs"
    ch = gen.compressed_axes_choices(d.ndim)
    ca = ch[int(rng.integers(len(ch)))]
    return sparse.GCXS.from_coo(c, compressed_axes=ca), f"gcxs{list(ca)}"


def sweep_case(ctx, rng, x, y, d, base, fmt, fdesc, st, all_axes=False, family="C"):
    """every operation of the catalogue on (x, y): operands' storage before / after, delayed-corruption probes"""
    import sparse

    ok_count, err_count, alias_obs = st["ok"], st["err"], st["alias"]
    for name, thunk, extra, _ in ops_for(rng, x, y, d, all_axes=all_axes):
        case = dict(base, op=name)
        operands = [x, y, *extra]
        before = [snapshot(o) for o in operands]
        with warnings.catch_warnings(), np.errstate(all="ignore"):
            warnings.simplefilter("ignore")
            try:
                r, err = thunk(), None
            except Exception as ex:  # noqa: BLE001
                r, err = None, ex
        opname = name.split("#")[0]
        ctx.case(f"{family}:{opname}:{fdesc[:4]}", case, nontrivial=bool(d.size) and err is None)
        cnt = ok_count if err is None else err_count
        cnt[opname] = cnt.get(opname, 0) + 1
        after = [snapshot(o) for o in operands]
        failed = False
        for i, (b, a) in enumerate(zip(before, after)):
            msg = diff_snap(b, a)
            if msg:
                who = ["x", "y"][i] if i < 2 else f"extra{i - 2}"
                detail = f"operand {who} changed by {name}{' (which raised ' + type(err).__name__ + ')' if err else ''}: {msg}"
                ctx.fail("C", f"unchanged:{name}", case, detail, finding=findings.classify(PID, name, case, detail))
                failed = True
        if failed:
            return False  # the operand is damaged: the remaining operations of this case would be judged on a wrong premise
        if err is not None or r is None:
            continue
        # delayed corruption 1: a second operation on the result
        if isinstance(r, sparse.SparseArray) and r.ndim >= 1 and rng.random() < 0.5:
            sname, sf = SECOND_OPS[int(rng.integers(len(SECOND_OPS)))]
            with warnings.catch_warnings(), np.errstate(all="ignore"):
                warnings.simplefilter("ignore")
                try:
                    sf(sparse, r)
                except Exception:  # noqa: BLE001
                    pass
            ctx.count("second_ops")
            for i, (b, a) in enumerate(zip(before, [snapshot(o) for o in operands])):
                msg = diff_snap(b, a)
                if msg:
                    detail = f"operand {i} changed by {sname}({name}(x)): {msg}"
                    ctx.fail("C", f"delayed:{name}", dict(case, second=sname), detail, finding=findings.classify(PID, name, case, detail))
                    failed = True
        if failed:
            return False
        # delayed corruption 2: write a sentinel through every result buffer that is not a view of an operand
        obufs = {}
        for i, o in enumerate(operands):
            obufs.update(buffers(o, f"{i}."))
        wrote = 0
        # (a cache-enabled operand keeps its results: writing into them is the downstream mutation that
        #  enable_caching's contract excludes, so there the sentinel is not written)
        for f, rb in ({} if fmt == "coo-cache" else buffers(r)).items():
            owners = [o for o, ob in obufs.items() if shares(rb, ob)]
            if owners:
                alias_obs.setdefault(opname + ":" + fdesc[:4], set()).update((f, o) for o in owners)
                continue
            wrote += poison(rb)
        ctx.count("sentinel_writes", wrote)
        if wrote:
            for i, (b, a) in enumerate(zip(before, [snapshot(o) for o in operands])):
                msg = diff_snap(b, a)
                if msg:
                    detail = f"writing through {name}'s result changed operand {i}: {msg}"
                    ctx.fail("C", f"delayed:{name}", case, detail, finding=findings.classify(PID, name, case, detail))
                    return False
    return True


def leg_c_unchanged(ctx, rng, n):
    st = {"ok": {}, "err": {}, "alias": {}}
    # ---- special operands: lane patterns and value coincidences on which shortcuts are keyed, EVERY operation, every axis ----
    n_special = 0
    for sname, d, fill, stored, fmt in special_operands(rng, ctx.quick):
        x, fdesc = build_operand(rng, d, fill, fmt, stored)
        e = np.roll(d, 1, axis=-1) if d.ndim else d
        y, ydesc = build_operand(rng, e, fill, "coo" if fmt.startswith("coo") else fmt)
        base = {"special": sname, "format": fdesc, "other": ydesc, "shape": list(d.shape), "fill": fill, "dtype": d.dtype.name,
                "stored_fill_values": stored, "dense": d.tolist(), "other_dense": e.tolist()}
        sweep_case(ctx, rng, x, y, d, base, fmt, fdesc, st, all_axes=True, family="C:special")
        n_special += 1
    ctx.notes["special_operand_cases"] = n_special
    # ---- random operands -------------------------------------------------------------------------------------------------
    for k in range(n):
        shp = gen.shape(rng, 0, 3, extents=[0, 1, 2, 2, 3, 3, 4], max_size=48)
        fill = [0, 0, 0, 2, -1][int(rng.integers(5))]
        dtype = np.int64 if rng.random() < 0.6 else np.float64
        d = gen.dense(rng, shp, fill, dtype=dtype)
        if dtype is np.float64:
            d = d / 2
        e = gen.dense(rng, shp, fill, dtype=dtype)
        fmt = ["coo", "coo-cache", "gcxs", "dok"][int(rng.integers(4))]
        x, fdesc = gen.to_format(rng, d, "coo" if fmt.startswith("coo") else fmt, fill)
        if fmt == "coo-cache":
            x.enable_caching()
            fdesc = "coo-cache"
        y, ydesc = gen.to_format(rng, e, None if rng.random() < 0.3 else ("coo" if fmt.startswith("coo") else fmt), fill)
        base = {"format": fdesc, "other": ydesc, "shape": list(shp), "fill": fill, "dtype": np.dtype(dtype).name,
                "dense": d.tolist(), "other_dense": e.tolist()}
        sweep_case(ctx, rng, x, y, d, base, fmt, fdesc, st)
        if k % 20 == 0:
            core.log(f"C11 leg C1 {k}/{n}")
    ok_count, err_count = st["ok"], st["err"]
    ctx.notes["ops_enumerated"] = len(set(ok_count) | set(err_count))
    ctx.notes["ops_never_returned"] = sorted(set(err_count) - set(ok_count))
    ctx.notes["op_returns"] = sum(ok_count.values())
    ctx.notes["op_raises"] = sum(err_count.values())
    ctx.notes["views_observed"] = {k: sorted(map(list, v)) for k, v in sorted(st["alias"].items())}


# ------------------------------------------------------------------------------------------------
# leg C2: cached vs uncached
# ------------------------------------------------------------------------------------------------

def outcome(thunk):
    import scipy.sparse as sp
    import sparse

    with warnings.catch_warnings(), np.errstate(all="ignore"):
        warnings.simplefilter("ignore")
        try:
            r = thunk()
        except Exception as e:  # noqa: BLE001
            return ("err", impl.err_class(e)), None
    if isinstance(r, sparse.SparseArray):
        dn = r.todense()
        return ("ok", type(r).__name__, r.shape, str(r.dtype), _arr(r.fill_value)[:3], dn.tobytes()), r
    if sp.issparse(r):
        dn = r.toarray()
        return ("ok", type(r).__name__, r.shape, str(r.dtype), r.has_canonical_format, dn.tobytes(),
                r.indices.tolist(), r.indptr.tolist(), r.data.tolist()), r
    r2 = np.asarray(r)
    return ("ok", type(r).__name__, r2.shape, str(r2.dtype), r2.tobytes()), r


def followups(rng, shape, depth=0):
    """operations applied to the RESULT of a cached call (itself cache-enabled): (name, sparse thunk, numpy thunk).
    Every permutation (rank <= 3; a sample for rank 4, non-self-inverse ones first), a reduction over every axis (these
    transpose internally), tensordot / dot over every axis, reshapes."""
    import itertools

    import sparse

    k = len(shape)
    fs = []
    perms = list(itertools.permutations(range(k))) if k <= 3 else []
    if k == 4:
        allp = list(itertools.permutations(range(4)))
        inv = lambda p: tuple(int(i) for i in np.argsort(p))  # noqa: E731
        cyc = [p for p in allp if inv(p) != p]
        perms = [cyc[int(i)] for i in rng.choice(len(cyc), size=5, replace=False)] + [allp[int(rng.integers(len(allp)))]]
    for p in perms:
        if k >= 2 and p != tuple(range(k)):
            fs.append((f"transpose{p}", (lambda r, p=p: r.transpose(p)), (lambda a, p=p: a.transpose(p))))
    for ax in range(k):
        fs.append((f"sum(axis={ax})", (lambda r, ax=ax: r.sum(axis=ax)), (lambda a, ax=ax: a.sum(axis=ax))))
        fs.append((f"max(axis={ax})", (lambda r, ax=ax: r.max(axis=ax)), (lambda a, ax=ax: a.max(axis=ax))))
        if shape[ax]:
            b = gen.dense(rng, (shape[ax], 2), 0, density=0.7)
            bs = sparse.COO.from_numpy(b)
            fs.append((f"tensordot(axes=([{ax}],[0]))", (lambda r, ax=ax, bs=bs: sparse.tensordot(r, bs, axes=([ax], [0]))),
                       (lambda a, ax=ax, b=b: np.tensordot(a, b, axes=([ax], [0])))))
    if k >= 1 and shape[-1]:
        b = gen.dense(rng, (shape[-1], 3), 0, density=0.7)
        fs.append(("dot", (lambda r, b=b: r.dot(b)), (lambda a, b=b: a.dot(b))))
    if k >= 2:
        fs.append(("sum(axis=(0,-1))", (lambda r: r.sum(axis=(0, -1))), (lambda a: a.sum(axis=(0, -1)))))
        fs.append(("reshape(s0,-1)", (lambda r: r.reshape((r.shape[0], -1))), (lambda a: a.reshape((a.shape[0], -1)))))
        fs.append(("T", (lambda r: r.T), (lambda a: a.T)))
    fs.append(("reshape(-1)", (lambda r: r.reshape((-1,))), (lambda a: a.reshape((-1,)))))
    return fs


def nested_check(ctx, rng, case, path, rc, rp, dn, depth, budget):
    """apply follow-up operations to the results of a cached call: with caching == without caching == NumPy"""
    import sparse

    fs = followups(rng, dn.shape, depth)
    if depth > 0:
        fs = [fs[int(i)] for i in rng.choice(len(fs), size=min(len(fs), 4), replace=False)]
    for name, f, fnp in fs:
        if budget[0] <= 0:
            return True
        budget[0] -= 1
        ctx.count("nested_followups")
        got, gr = outcome(lambda: f(rc))
        want, wr = outcome(lambda: f(rp))
        with warnings.catch_warnings(), np.errstate(all="ignore"):
            warnings.simplefilter("ignore")
            try:
                ref = np.asarray(fnp(dn))
            except Exception:  # noqa: BLE001
                ref = None
        where = " -> ".join(path + [name])
        detail = None
        if got != want:
            detail = f"{where}: on the result of the cached call {_short(got)}; on the result of the uncached call {_short(want)}"
        elif ref is not None and got[0] == "ok":
            dense = gr.todense() if isinstance(gr, sparse.SparseArray) else np.asarray(gr)
            if dense.shape != ref.shape or not np.array_equal(dense, ref):
                detail = f"{where}: result {dense.tolist()!r:.120} (shape {dense.shape}); NumPy {ref.tolist()!r:.120} (shape {ref.shape})"
        # (a call that raises identically with and without caching — e.g. a product on a non-zero fill value — is a clean
        #  rejection, which C11 does not judge)
        if detail:
            c2 = dict(case, nested=path + [name])
            ctx.fail("C", "cached-nested", c2, detail, finding=findings.classify(PID, "cached", c2, detail))
            return False
        if depth < 1 and got[0] == "ok" and isinstance(gr, sparse.COO) and isinstance(wr, sparse.COO) and ref is not None and gr.ndim >= 2:
            if not nested_check(ctx, rng, case, path + [name], gr, wr, ref, depth + 1, budget):
                return False
    return True


def leg_c_cache_derived(ctx, rng, n):
    """arrays DERIVED from a cache-enabled array (copy constructor with and without a new fill value, copy.copy, deepcopy,
    astype, unary/binary results) after the source's cache has been warmed: every reshape / transpose / tocsr of the
    derived array must equal the same call on the derivation of an identical array that never had a cache"""
    import sparse

    derivs = {
        "COO(x)": lambda x, v: sparse.COO(x),
        "COO(x,fill_value=v)": lambda x, v: sparse.COO(x, fill_value=v),
        "copy.copy": lambda x, v: copy.copy(x),
        "copy.deepcopy": lambda x, v: copy.deepcopy(x),
        "x.copy()": lambda x, v: x.copy(),
        "astype(same)": lambda x, v: x.astype(x.dtype),
        "astype(float)": lambda x, v: x.astype(np.float64),
        "x+v": lambda x, v: x + v,
        "-x": lambda x, v: -x,
        "asformat(coo)": lambda x, v: x.asformat("coo"),
        "sparse.asarray": lambda x, v: sparse.asarray(x),
        "full_like-fill": lambda x, v: sparse.COO(x.coords, x.data, x.shape, fill_value=v, has_duplicates=False, sorted=True),
    }
    for k in range(n):
        shp = gen.shape(rng, 2, 4, extents=[1, 2, 2, 3, 3, 4], max_size=120)
        fill = int(rng.choice([0, 0, 2]))
        d = gen.dense(rng, shp, fill)
        plain = sparse.COO.from_numpy(d, fill_value=fill)
        cached = sparse.COO.from_numpy(d, fill_value=fill)
        cached.enable_caching()
        pool = call_pool(rng, shp)
        calls = [pool[int(i)] for i in rng.choice(len(pool), size=min(len(pool), 6), replace=False)]
        for kind, key, raw, _ in calls:  # warm the source's cache
            outcome(lambda: do_call(cached, kind, raw))
        v = int(rng.choice([5, -3, 1]))
        for name, f in derivs.items():
            case = {"shape": list(shp), "fill": fill, "dense": d.tolist(), "derive": name, "v": v,
                    "calls": [[c[0], c[2].tolist() if isinstance(c[2], np.ndarray) else c[2]] for c in calls]}
            ctx.case(f"C:cache-derived:{name}", case, nontrivial=True)
            w0, wd = outcome(lambda: f(plain, v))
            g0, gd = outcome(lambda: f(cached, v))
            if w0 != g0:
                ctx.fail("C", "cache-derived", case, f"{name}: from the cache-enabled array {_short(g0)}; from the plain one {_short(w0)}",
                         finding=findings.classify(PID, "cached", case, name))
                continue
            if g0[0] != "ok":
                continue
            for i, (kind, key, raw, _) in enumerate(calls):
                want, _w = outcome(lambda: do_call(wd, kind, raw))
                got, _g = outcome(lambda: do_call(gd, kind, raw))
                if want != got:
                    detail = f"{name} then call {case['calls'][i]}: derived from the cache-enabled array {_short(got)}; from the plain one {_short(want)}"
                    ctx.fail("C", "cache-derived", dict(case, step=i), detail, finding=findings.classify(PID, "cached", case, detail))
                    break


def leg_c_cached(ctx, rng, n):
    import sparse

    for k in range(n):
        shp = gen.shape(rng, 2, 4, extents=[1, 2, 2, 3, 3, 4], max_size=120) if rng.random() < 0.8 else gen.shape(rng, 0, 3)
        fill = int(rng.choice([0, 0, 0, 2]))
        d = gen.dense(rng, shp, fill)
        plain = sparse.COO.from_numpy(d, fill_value=fill)
        how = int(rng.integers(3))
        if how == 0:
            cached = sparse.COO.from_numpy(d, fill_value=fill)
            cached.enable_caching()
        elif how == 1:
            cached = sparse.COO(plain.coords.copy(), plain.data.copy(), plain.shape, fill_value=fill, cache=True, has_duplicates=False, sorted=True)
        else:
            cached = copy.deepcopy(plain)
            cached.enable_caching()
        nd = len(shp)
        pool = call_pool(rng, shp)
        other = sparse.COO.from_numpy(gen.dense(rng, (shp[-1], 2) if nd else (1, 2), 0))
        calls = []
        length = int(rng.integers(1, 41))
        for _ in range(length):
            r = rng.random()
            if r < 0.62:
                kind, key, raw, _ = pool[int(rng.integers(len(pool)))]
                calls.append((kind, raw))
            elif r < 0.72:  # invalid arguments: must fail identically
                calls.append([("t", (0,) * nd if nd else (0,)), ("t", tuple(range(nd + 1))), ("r", (int(d.size) + 1,)), ("t", (nd,) + tuple(range(1, nd)))][int(rng.integers(4))])
            elif r < 0.82:
                calls.append(("dot", None))
            elif r < 0.9:
                calls.append(("tensordot", None))
            elif r < 0.96:
                a = tuple(int(v) for v in rng.permutation(nd))
                calls.append(("chain", a))
            else:
                calls.append(("T", None))

        def apply(x, c):
            kind, raw = c
            if kind in ("t", "r", "csr", "csc"):
                return do_call(x, kind, raw)
            if kind == "dot":
                return x.dot(other)
            if kind == "tensordot":
                return sparse.tensordot(x, other, axes=([nd - 1], [0]))
            if kind == "T":
                return x.T
            t = x.transpose(raw) if nd else x.transpose()
            return t.reshape((t.shape[0], -1)).tocsr() if nd else t

        case = {"shape": list(shp), "fill": fill, "dense": d.tolist(), "enable": ["enable_caching", "cache=True", "deepcopy+enable"][how],
                "calls": [[c[0], c[1].tolist() if isinstance(c[1], np.ndarray) else c[1]] for c in calls]}
        ctx.case("C:cached-vs-uncached", case, nontrivial=len(calls) > 1)
        before = snapshot(cached)
        budget = [36 if ctx.quick else 400]  # follow-up operations per sequence
        for i, c in enumerate(calls):
            want, wr = outcome(lambda: apply(plain, c))
            got, gr = outcome(lambda: apply(cached, c))
            if want != got:
                detail = f"call {i} {case['calls'][i]}: with caching {_short(got)}; without {_short(want)}"
                ctx.fail("C", "cached-vs-uncached", dict(case, step=i), detail, finding=findings.classify(PID, "cached", case, detail))
                break
            # nested: the result of a cached call is a cache-enabled array of its own — operate on it
            if got[0] == "ok" and c[0] in ("t", "r", "T") and gr is not cached and isinstance(gr, sparse.COO) and budget[0] > 0 \
                    and (i < 2 or rng.random() < (0.1 if ctx.quick else 0.3)):
                dn = wr.todense()
                ref0 = d.T if c[0] == "T" else (d.transpose(c[1]) if c[1] is not None else d.transpose()) if c[0] == "t" else d.reshape(c[1])
                if dn.shape != ref0.shape or not np.array_equal(dn, ref0):
                    detail = f"call {i} {case['calls'][i]}: result differs from NumPy"
                    ctx.fail("C", "cached-vs-numpy", dict(case, step=i), detail, finding=findings.classify(PID, "cached", case, detail))
                    break
                if not nested_check(ctx, rng, dict(case, step=i), [f"{c[0]}{case['calls'][i][1]}"], gr, wr, ref0, 0, budget):
                    break
            msg = diff_snap(before, snapshot(cached))
            if msg:
                detail = f"the cache-enabled array changed at call {i} {case['calls'][i]}: {msg}"
                ctx.fail("C", "unchanged:cached-call", dict(case, step=i), detail, finding=findings.classify(PID, "cached", case, detail))
                break
        else:
            # whatever the deques hold at the end is still what an uncached call computes
            for name in ("transpose", "reshape"):
                for kkey, val in list((cached._cache or {}).get(name, ())):
                    want, _ = outcome(lambda: plain.transpose(kkey) if name == "transpose" else plain.reshape(kkey))
                    got, _ = outcome(lambda: val)
                    if want != got:
                        detail = f"cached {name}{kkey} value is {_short(got)}; an uncached call returns {_short(want)}"
                        ctx.fail("C", "cached-value", case, detail, finding=findings.classify(PID, "cached", case, detail))


def _short(o):
    return repr(tuple(v if not isinstance(v, bytes) else f"<{len(v)} bytes #{hash(v) & 0xffff:x}>" for v in o))[:200]


# ------------------------------------------------------------------------------------------------

def run(ctx):
    ctx.trusted = TRUSTED
    ctx.assumptions = [
        "storage is observed through coords/data/indices/indptr (ndarray bytes, dtype, flags.writeable), shape, fill value and the DOK dict",
        "DOK.__setitem__ and an explicit out= / in-place-operator target are the only permitted mutations (the property's own exemption)",
        "cache model: the arguments reach the cache normalised (axes as a tuple of non-negative ints, shape with -1 resolved), as the code does before the lookup",
    ]
    core.prove(ctx, PID, uses=[])
    rng = gen.rng_for(ctx.seed, PID)
    # source drift (a new / removed in-place statement in the anchored files, against harness/c11_inplace_sites.json) is not a
    # verdict: it is reported in the evidence and, in the thorough tier, deepens the search
    boost = 3 if (inventory_drift(ctx) and not ctx.quick) else 1
    leg_a_cache(ctx, rng, 400 if ctx.quick else 6000)
    leg_a_alias(ctx, rng, (3 if ctx.quick else 100) * boost)
    leg_c_unchanged(ctx, rng, (30 if ctx.quick else 3000) * boost)
    leg_c_cached(ctx, rng, (200 if ctx.quick else 6000) * boost)
    leg_c_cache_derived(ctx, rng, (25 if ctx.quick else 600) * boost)
    ctx.cov["rule"] = (
        "A:cache = one random call sequence (1..40 calls drawn from a pool of <=6 permutations, <=6 reshape targets, tocsr, tocsc, "
        "raw argument forms varied) on one cache-enabled COO array (root or a cache-enabled result), compared with the model after every call; "
        "A:protocol = one run of a transcribed operation, shares_memory vs the table's alias map + sentinel writes; "
        "C:<op>:<format> = one public operation on random operands (rank 0-3, extents 0-4, fills {0,2,-1}, int64/float64, "
        "COO / cache-enabled COO / GCXS(all compressed axes) / DOK), operands' storage compared before/after, after a second operation on the "
        "result and after sentinel writes through the result's own buffers; C:cached-vs-uncached = one call sequence (incl. invalid arguments, dot, "
        "tensordot, chains) run with and without caching; non-trivial = the array is non-empty and the call returned (sequences: more than one call); "
        "distinct by content hash")


def replay(ctx, path):
    """a failure is a deterministic function of (seed, tier): re-run the check under the recorded ones"""
    import json
    rep = json.loads(open(path).read())
    print(json.dumps(rep.get("failure") or rep.get("correspondence_failures") or rep, indent=1, default=str)[:3000], file=sys.stderr)
    ctx.seed, ctx.tier = int(rep.get("seed", ctx.seed)), rep.get("tier", ctx.tier)
    ctx.quick = ctx.tier == "quick"
    run(ctx)
    return core.finish(ctx)


# ------------------------------------------------------------------------------------------------
# source inventory of in-place sites (drift detection only: never a verdict)
# ------------------------------------------------------------------------------------------------

INPLACE_FILES = ["sparse/numba_backend/_coo/core.py", "sparse/numba_backend/_coo/common.py", "sparse/numba_backend/_coo/indexing.py",
                 "sparse/numba_backend/_compressed/compressed.py", "sparse/numba_backend/_compressed/indexing.py",
                 "sparse/numba_backend/_compressed/convert.py", "sparse/numba_backend/_sparse_array.py", "sparse/numba_backend/_umath.py",
                 "sparse/numba_backend/_common.py", "sparse/numba_backend/_utils.py"]
MUTATORS = {"sort", "fill", "resize", "put", "partition", "setflags", "itemset", "byteswap", "setfield"}


def inplace_sites():
    """{file::function: {kind: count}} — statements that write into an existing array-like object: `x[...] = v`, `x[...] op= v`,
    `x op= v`, `f(..., out=y)`, `x.sort()/fill()/…`, `self.attr = …` outside __init__/__setstate__ (attribute re-binding)"""
    import ast

    res = {}
    for rel in INPLACE_FILES:
        p = core.REPO / rel
        if not p.exists():
            continue
        tree = ast.parse(p.read_text())

        def own_nodes(fn):
            """nodes of a function body, not descending into nested functions / classes / lambdas"""
            stack = list(ast.iter_child_nodes(fn))
            while stack:
                n = stack.pop()
                if isinstance(n, ast.FunctionDef | ast.AsyncFunctionDef | ast.ClassDef | ast.Lambda):
                    continue
                yield n
                stack.extend(ast.iter_child_nodes(n))

        def visit(node, qual):
            for ch in ast.iter_child_nodes(node):
                if isinstance(ch, ast.ClassDef):
                    visit(ch, f"{qual}.{ch.name}" if qual else ch.name)
                elif isinstance(ch, ast.FunctionDef | ast.AsyncFunctionDef):
                    q = f"{qual}.{ch.name}" if qual else ch.name
                    kinds = []
                    for n in own_nodes(ch):
                        if isinstance(n, ast.Assign):
                            for t in n.targets:
                                for e in (t.elts if isinstance(t, ast.Tuple) else [t]):
                                    if isinstance(e, ast.Subscript):
                                        kinds.append("subscript-assign")
                                    elif isinstance(e, ast.Attribute) and not (isinstance(e.value, ast.Name) and e.value.id == "self"):
                                        kinds.append("foreign-attr-assign")
                        elif isinstance(n, ast.AugAssign):
                            kinds.append("aug-subscript" if isinstance(n.target, ast.Subscript)
                                         else "aug-attr" if isinstance(n.target, ast.Attribute) else "aug-name")
                        elif isinstance(n, ast.Call):
                            if any(k.arg == "out" and not (isinstance(k.value, ast.Constant) and k.value.value is None) for k in n.keywords):
                                kinds.append("out-kw")
                            if isinstance(n.func, ast.Attribute) and n.func.attr in MUTATORS \
                                    and not (isinstance(n.func.value, ast.Name) and n.func.value.id in ("np", "numpy")):
                                kinds.append("mutating-method")
                    for k in kinds:
                        d = res.setdefault(f"{rel.split('numba_backend/')[1]}::{q}", {})
                        d[k] = d.get(k, 0) + 1
                    visit(ch, q)
                elif isinstance(ch, ast.If | ast.Try | ast.With | ast.For | ast.While):
                    visit(ch, qual)

        visit(tree, "")
    return res


def inventory_drift(ctx):
    import json
    exp_path = core.ROOT / "harness" / "c11_inplace_sites.json"
    try:
        now = inplace_sites()
    except Exception as e:  # noqa: BLE001
        ctx.notes["inplace_inventory"] = {"error": str(e)}
        return True
    exp = json.loads(exp_path.read_text()) if exp_path.exists() else {}
    drift = {k: {"expected": exp.get(k), "found": now.get(k)} for k in sorted(set(exp) | set(now)) if exp.get(k) != now.get(k)}
    ctx.notes["inplace_inventory"] = {"functions_with_sites": len(now), "sites": sum(sum(v.values()) for v in now.values()),
                                      "source_drift": drift}
    return bool(drift)

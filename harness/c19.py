"""C19 — creation functions and random() deliver exactly what was requested.

T1   Gen.eyeLen / Gen.eyeCoord / Gen.randomBranch are regenerated from the source each run; the translator is
     validated by executing the *same source fragments* in Python (and the real `sparse.eye`) against the generated
     definitions in the Lean driver, exhaustively on small integers.
leg A  (T2) `algA.py_func` / `algD.py_func` / `reverse.py_func` run under a line tracer with a recording
     random_state; the run is reduced to the oracle's decisions (skip sizes, candidates + accept bits, last sample,
     choice value), the oracle constraints of Spec.OracleOK are asserted, the decisions are fed to the Lean model and
     the outputs compared.  The same through the whole of `sparse.random` (samplers patched by their traced
     py_func), comparing the COO representation.  `eye` / `full` model vs implementation on representation.
leg C  implementation vs NumPy / vs the property: eye in three formats, full/zeros/ones/empty(+_like), asarray,
     and `sparse.random` (count, distinctness, range, canonicity, values from data_rvs, determinism).
"""
from __future__ import annotations

import ast
import builtins
import inspect
import itertools
import sys
import types
import warnings
from unittest import mock

import numpy as np

import core
import findings
import gen
import impl
import oracle

PID = "C19"
USES = ["eyeLen", "eyeCoord", "randomBranch"]
TRUSTED = [
    "Lean 4 kernel; axioms propext, Classical.choice, Quot.sound only (audited per theorem each run)",
    "tie T1: Gen.eyeLen, Gen.eyeCoord (eye) and Gen.randomBranch (random) regenerated from the source each run; translator "
    "validated each run against the Python fragments on an exhaustive small-integer grid",
    "tie T2: hand models algA/algD/reverse/choice (SparseV.Model.Create) compared with the traced py_func of the real "
    "functions on the oracle reduction of each recorded run; py_func and the jitted function are assumed to agree "
    "(checked on the same seeds in leg A)",
    "float -> oracle abstraction: Spec.OracleOK (choice in range(n); algD candidates S >= 0; last algA sample in [0, N)) "
    "asserted on every recorded run, not proved",
    "NumPy is the reference for leg C (np.eye, np.full, np.full_like, np.asarray); dtype and float behaviour are outside the theorems",
]


class TraceError(Exception):
    pass


class Budget(Exception):
    """the recording random_state was asked for more numbers than the budget (treated as: did not terminate)"""


class Rec:
    """recording random_state: `.random()` / `.choice()` of a numpy Generator, with an optional scripted prefix"""

    def __init__(self, g, script=(), cap=4000):
        self.g, self.script, self.u, self.choices, self.cap = g, list(script), [], [], cap

    def random(self, *a, **k):
        if a or k:
            return self.g.random(*a, **k)
        if len(self.u) >= self.cap:
            raise Budget
        v = self.script.pop(0) if self.script else float(self.g.random())
        self.u.append(v)
        return v

    def choice(self, a, size=None, **k):
        r = self.g.choice(a, size, **k)
        self.choices.append({"n": int(a), "size": None if size is None else int(size), "out": [int(x) for x in np.atleast_1d(r)]})
        return r


def traced(func, args, wanted, keys):
    """run the pure-Python `func`; record (tag, indent, selected locals) each time a line whose stripped text is in
    `wanted` is about to execute"""
    code = func.__code__
    src, first = inspect.getsourcelines(func)
    tags = {}
    for off, line in enumerate(src):
        t = line.strip()
        if t in wanted:
            tags[first + off] = (wanted[t], len(line) - len(line.lstrip()))
    missing = set(wanted.values()) - {t for t, _ in tags.values()}
    if missing:
        raise TraceError(f"{func.__name__}: source lines for {sorted(missing)} not found (function changed)")
    events = []

    def local(frame, event, arg):
        if event == "line":
            hit = tags.get(frame.f_lineno)
            if hit:
                loc = frame.f_locals
                events.append((hit[0], hit[1], {k: (int(loc[k]) if k in loc else None) for k in keys}))
        return local

    def glob(frame, event, arg):
        return local if frame.f_code is code else None

    old = sys.gettrace()
    sys.settrace(glob)
    out = None
    try:
        with warnings.catch_warnings():
            warnings.simplefilter("ignore")
            out = func(*args)
    except Budget:
        events.append(("budget", 0, {}))
    finally:
        sys.settrace(old)
    return out, events


COMMIT = "arr[i] = arr[i - 1] + S + 1"


def run_algA(pyf, n, N, rs):
    """-> (output list, skip requests for the model, last, final_N, problems, number of forced exits at top = 0)"""
    out, ev = traced(pyf, (n, N, rs), {COMMIT: "commit"}, ("S", "top", "N", "n"))
    if not ev or ev[-1][0] != "commit":
        raise TraceError("algA: no sample written")
    loop, last = ev[:-1], ev[-1]
    if any(e[1] <= last[1] for e in loop):
        raise TraceError("algA: unexpected loop structure")
    problems, skips, forced = [], [], 0
    for _, _, l in loop:
        if not (0 <= l["S"] and l["top"] >= 0):  # S <= top before the inner loop  <=>  top >= 0 after it
            problems.append(f"oracle constraint 0 <= S <= top violated: S={l['S']} top_after={l['top']}")
        if l["top"] == 0:  # the loop was left at top = 0 (possibly forced): ask for more, the model must clamp
            forced += 1
            skips.append(l["S"] + 3)
        else:
            skips.append(l["S"])
    l = last[2]
    if not (0 <= l["S"] < l["N"]):
        problems.append(f"oracle constraint 0 <= last < N violated: S={l['S']} N={l['N']}")
    if len(rs.u) != len(ev):
        problems.append(f"{len(rs.u)} random numbers drawn for {len(ev)} samples")
    if any(not (0.0 <= u < 1.0) for u in rs.u):
        problems.append("random() outside [0, 1)")
    return [int(v) for v in out], skips, l["S"], l["N"], problems, forced


def run_algD(pyf, n, N, rs):
    """-> (output list, or None when the random budget ran out; candidates [[S, accept]...]; problems)"""
    out, ev = traced(pyf, (n, N, rs), {COMMIT: "commit", "if qu1 > S:": "cand"}, ("S", "qu1", "N", "n"))
    budget = bool(ev) and ev[-1][0] == "budget"
    if budget:
        ev = ev[:-1]
    problems, cands = [], []
    for i, (tag, _, l) in enumerate(ev):
        if tag == "cand":
            acc = i + 1 < len(ev) and ev[i + 1][0] == "commit"
            if l["S"] < 0:
                problems.append(f"oracle constraint S >= 0 violated: S={l['S']}")
            if acc and not l["qu1"] > l["S"]:
                problems.append(f"accepted S={l['S']} with qu1={l['qu1']}")
            cands.append([l["S"], bool(acc)])
        elif i == 0 or ev[i - 1][0] != "cand" or ev[i - 1][2]["S"] != l["S"]:
            problems.append("commit without a preceding candidate of the same S")
    if any(not (0.0 <= u < 1.0) for u in rs.u):
        problems.append("random() outside [0, 1)")
    guard_fails = sum(1 for tag, _, l in ev if tag == "cand" and not l["qu1"] > l["S"])
    return (None if budget else [int(v) for v in out]), cands, problems, guard_fails


def jit_call(ctx, name, f, args, case, want):
    """the jitted function on the same inputs must agree with the traced py_func"""
    try:
        jit = [int(v) for v in f(*args)]
    except Exception as e:  # noqa: BLE001
        ctx.fail("A", f"jit:{name}", case, f"jitted function raised {type(e).__name__}: {e}; py_func returned {want}")
        return
    if jit != want:
        ctx.fail("A", f"jit:{name}", case, f"jitted {jit} py_func {want}")


def is_sample(ind, n, N):
    ind = [int(v) for v in ind]
    return len(ind) == n and all(0 <= v < N for v in ind) and all(a < b for a, b in zip(ind, ind[1:]))


SCRIPT_VALUES = [0.0, 5e-324, 1e-300, 1e-12, 0.5, 0.9999999, 1 - 2.0 ** -53, 0.3, 0.05]


def script_for(rng, k):
    return [float(rng.choice(SCRIPT_VALUES)) if rng.random() < 0.6 else float(rng.random()) for _ in range(k)]


# ------------------------------------------------------------------------------------------------
# T1: translator self-validation
# ------------------------------------------------------------------------------------------------

def fragment(modfile, desc):
    """the statements the descriptor selects in the RUNNING source, with the descriptor's synthetic return (which names the results
    through the expression that consumes them, not through the names of locals: a renamed local does not matter)"""
    sys.path.insert(0, str(core.ROOT / "tools"))
    import py2lean
    tree = ast.parse(open(modfile).read())
    return py2lean.fragment_stmts(desc, tree)


def make_fn(name, params, stmts, ret, glb):
    fn = ast.FunctionDef(name=name, args=ast.arguments(posonlyargs=[], args=[ast.arg(arg=p) for p in params], kwonlyargs=[],
                         kw_defaults=[], defaults=[]), body=[*stmts, *(ast.parse(ret).body if ret else [])], decorator_list=[], type_params=[])
    m = ast.Module(body=[fn], type_ignores=[])
    ast.fix_missing_locations(m)
    ns = dict(glb)
    exec(compile(m, f"<fragment {name}>", "exec"), ns)
    return ns[name]


def leg_t1(ctx):
    import sparse
    from sparse.numba_backend import _common as Cm, _utils as U

    sys.path.insert(0, str(core.ROOT / "tools"))
    import py2lean
    from py2lean_targets import FILES
    desc = {t["name"]: t for spec in FILES.values() for t in spec["targets"]}
    n_cases = 0
    try:
        f_len = make_fn("eye_len", ["N", "M", "k"], fragment(Cm.__file__, desc["eyeLen"]), None, {"builtins": builtins})
        # the length the coordinate statements read is whatever the source calls it: the name the eyeLen fragment returns
        len_name = ast.unparse(fragment(Cm.__file__, desc["eyeLen"])[-1].value)
        f_coord_ = make_fn("eye_coord", [len_name, "k"], fragment(Cm.__file__, desc["eyeCoord"]), None, {"np": np, "slice": lambda a, b, c: (a, b)})
        f_coord = lambda L, k: f_coord_(L, k)  # noqa: E731
        chain = py2lean.select(py2lean.find_func(ast.parse(open(U.__file__).read()), "random"), desc["randomBranch"]["select"][:2])
    except py2lean.Refuse as e:
        ctx.fail("T1", "fragment", {"fragment": "select"}, f"fragment not found in the running source: {e}")
        return

    # --- eyeLen: all N, M in -2..7 (M also None), k in -9..9
    R = 7 if ctx.quick else 10
    grid = [(N, M, k) for N in range(-2, R + 1) for M in [None, *range(-2, R + 1)] for k in range(-R - 2, R + 3)]
    outs = ctx.driver.run([["gen_eye_len", N, M, k] for N, M, k in grid])
    for (N, M, k), o in zip(grid, outs):
        n_cases += 1
        want = int(f_len(N, M, k))
        if o.get("ok") != want:
            ctx.fail("T1", "eyeLen", {"N": N, "M": M, "k": k}, f"generated {o} python fragment {want}")
    # --- eyeCoord: t in 0..L-1, k in -9..9
    L = 9
    cg = [(t, k) for k in range(-R - 2, R + 3) for t in range(L)]
    outs = ctx.driver.run([["gen_eye_coord", t, k] for t, k in cg])
    cache = {}
    for (t, k), o in zip(cg, outs):
        n_cases += 1
        if k not in cache:
            a, b = f_coord(L, k)
            cache[k] = ([int(v) for v in a], [int(v) for v in b])
        want = [cache[k][0][t], cache[k][1][t], 0]
        if o.get("ok") != want:
            ctx.fail("T1", "eyeCoord", {"t": t, "k": k}, f"generated {o} python fragment {want}")
    # --- randomBranch: all elements 0..E, nnz -1..elements+1, both values of `density >= 1`
    E = 45 if ctx.quick else 130
    extra = [(n, e) for e in (100, 101, 1000, 4097, 10 ** 6) for n in
             sorted({0, 1, 2, 3, e // 10 - 1, e // 10, e // 10 + 1, e // 2 - 1, e // 2, e // 2 + 1, e - e // 10 - 1, e - e // 10, e - e // 10 + 1,
                     e - 3, e - 2, e - 1, e})]
    bg = [(n, e, d) for e in range(0, E + 1) for n in range(-1, e + 2) for d in (False, True)] + [(n, e, False) for n, e in extra]

    stub_np = types.SimpleNamespace(arange=lambda e: ("arange", e))
    stub_rs = types.SimpleNamespace(choice=lambda a, b: ("choice", a, b))

    def py_branch(nnz, elements, dge1):
        ns = {"np": stub_np, "random_state": stub_rs, "reverse": lambda x, N: ("reverse", x, N),
              "algD": lambda n, N, rs: ("algD", n, N), "algA": lambda n, N, rs: ("algA", n, N),
              "nnz": nnz, "elements": elements, "density": 1.0 if dge1 else 0.5}
        m = ast.Module(body=chain, type_ignores=[])
        exec(compile(m, "<fragment random>", "exec"), ns)
        ind = ns["ind"]
        if ind[0] == "arange":
            return [0, nnz, ind[1]]
        if ind[0] == "choice":
            return [1, ind[2], ind[1]]
        if ind[0] in ("algD", "algA"):
            return [5 if ind[0] == "algD" else 6, ind[1], ind[2]]
        inner, N = ind[1], ind[2]
        if inner[0] == "choice":
            return [2, inner[2], inner[1]] if inner[1] == N else ["reverse population differs"]
        return [3 if inner[0] == "algD" else 4, inner[1], inner[2]] if inner[2] == N else ["reverse population differs"]

    outs = ctx.driver.run([["gen_random_branch", n, e, d] for n, e, d in bg])
    seen = set()
    for (n, e, d), o in zip(bg, outs):
        n_cases += 1
        want = py_branch(n, e, d)
        seen.add(want[0])
        if o.get("ok") != want:
            ctx.fail("T1", "randomBranch", {"nnz": n, "elements": e, "dge1": d}, f"generated {o} python fragment {want}")
    ctx.notes.setdefault("translator", {})["self_validation_cases"] = n_cases
    ctx.notes["translator"]["random_branch_codes_seen"] = sorted(seen)
    ctx.count("t1_cases", n_cases)


# ------------------------------------------------------------------------------------------------
# leg A
# ------------------------------------------------------------------------------------------------

def leg_a_eye_full(ctx, rng):
    import sparse

    R = 5 if ctx.quick else 7
    cases = [(N, M, k) for N in range(R + 1) for M in [None, *range(R + 1)] for k in range(-R - 1, R + 2)]
    outs = ctx.driver.run([["eye", N, M, k] for N, M, k in cases])
    for (N, M, k), o in zip(cases, outs):
        case = {"N": N, "M": M, "k": k}
        try:
            x = sparse.eye(N, M, k, dtype=np.int64)
            want = impl.coo_json(x)
        except Exception as e:  # noqa: BLE001
            ctx.fail("A", "model:eye", case, f"implementation raised {type(e).__name__}: {e}")
            continue
        ctx.case("A:eye", case, nontrivial=bool(want["data"]))
        if o.get("ok") != want:
            ctx.fail("A", "model:eye", case, f"model {o} implementation {want}")
    reqs, metas = [], []
    for shp in [(), (0,), (3,), (2, 3), (2, 0, 3), (1, 2, 2)]:
        for v in (0, 1, -4, 7):
            a = sparse.COO.from_numpy(gen.dense(rng, shp, 2), fill_value=2)
            calls = [({"op": "full", "shape": list(shp), "fill": v}, ["full", list(shp), v], lambda: sparse.full(shp, v))]
            for ns in (None, (4,), (2, 2)):
                calls.append(({"op": "full_like", "a": impl.coo_json(a), "fill": v, "shape": ns},
                              ["full_like", impl.coo_json(a), v, None if ns is None else list(ns)], lambda ns=ns: sparse.full_like(a, v, shape=ns)))
            for case, req, thunk in calls:
                try:
                    want = impl.coo_json(thunk())
                except Exception as e:  # noqa: BLE001
                    ctx.fail("A", "model:" + case["op"], case, f"implementation raised {type(e).__name__}: {e}")
                    continue
                reqs.append(req)
                metas.append((case, want))
    for (case, want), o in zip(metas, ctx.driver.run(reqs)):
        ctx.case("A:" + case["op"], case, nontrivial=True)
        if o.get("ok") != want:
            ctx.fail("A", "model:" + case["op"], case, f"model {o} implementation {want}")


def leg_a_kernels(ctx, rng, n_runs):
    from sparse.numba_backend import _utils as U

    reqs, metas = [], []
    stats = {"algA_forced_exit": 0, "algD_guard_fail": 0, "algD_reject": 0, "algD_budget": 0, "scripted": 0}
    for r in range(n_runs):
        seed = int(rng.integers(2 ** 31))
        scripted = rng.random() < 0.4
        stats["scripted"] += scripted
        # ---- algA: 1 <= n <= N
        n = int(rng.choice([1, 2, 2, 3, 5, 8, 13, 30]))
        N = n + int(rng.choice([0, 0, 1, 2, n, 3 * n, 9 * n]))
        rs = Rec(np.random.default_rng(seed), script_for(rng, n) if scripted else ())
        case = {"kernel": "algA", "n": n, "N": N, "seed": seed, "script": list(rs.script)}
        try:
            out, skips, last, finalN, problems, forced = run_algA(U.algA.py_func, n, N, rs)
        except TraceError as e:
            ctx.fail("A", "trace:algA", case, str(e))
        except Exception as e:  # noqa: BLE001
            ctx.fail("A", "model:algA", case, f"py_func raised {type(e).__name__}: {e}")
        else:
            case["u"] = rs.u[:8]
            stats["algA_forced_exit"] += forced
            for p in problems:
                ctx.fail("A", "oracle:algA", case, p)
            reqs.append(["algA", n, N, skips, last])
            metas.append(("algA", case, {"arr": out, "final_N": finalN}, out, n, N))
            if not scripted:
                jit_call(ctx, "algA", U.algA, (n, N, np.random.default_rng(seed)), case, out)
        # ---- algD: n >= 1, N > n (as called: N > 10 n; also the tight region N = n + 1 ...)
        n = int(rng.choice([1, 2, 2, 3, 5, 8, 20]))
        N = n + int(rng.choice([1, 2, 3, 10 * n, 10 * n + 1, 40 * n]))
        rs = Rec(np.random.default_rng(seed), script_for(rng, 2 * n + 3) if scripted else ())
        if r % 250 == 7:  # a stream on which the real loop cannot terminate: U = 0 gives S = N, the guard `qu1 > S` never passes
            rs = Rec(np.random.default_rng(seed), [0.0] * 400, cap=int(rng.integers(5, 120)))
            scripted = True
        case = {"kernel": "algD", "n": n, "N": N, "seed": seed, "script": list(rs.script)[:12]}
        try:
            out, cands, problems, gf = run_algD(U.algD.py_func, n, N, rs)
        except TraceError as e:
            ctx.fail("A", "trace:algD", case, str(e))
        except Exception as e:  # noqa: BLE001
            ctx.fail("A", "model:algD", case, f"py_func raised {type(e).__name__}: {e}")
        else:
            case["u"] = rs.u[:8]
            stats["algD_guard_fail"] += gf
            stats["algD_reject"] += sum(1 for s_, a in cands if not a) - gf
            for p in problems:
                ctx.fail("A", "oracle:algD", case, p)
            reqs.append(["algD", n, N, cands])
            if out is None:  # the random budget ran out inside the rejection loops: the model must not terminate on this oracle either
                stats["algD_budget"] += 1
                metas.append(("algD", case, "hang", None, n, N))
            else:
                metas.append(("algD", case, {"arr": out, "unconsumed": 0}, out, n, N))
                if not scripted:
                    jit_call(ctx, "algD", U.algD, (n, N, np.random.default_rng(seed)), case, out)
        # ---- reverse: complement of a sorted subset; error paths of py_func
        N = int(rng.choice([0, 1, 2, 5, 9, 20]))
        k = int(rng.integers(0, N + 1))
        inv = sorted(int(v) for v in rng.choice(N, size=k, replace=False)) if N else []
        kind = "sorted"
        if rng.random() < 0.25 and len(inv) >= 2:
            inv = [int(v) for v in rng.permutation(inv)]
            kind = "permuted"
        elif rng.random() < 0.1:
            inv = inv + [N + 1]
            kind = "out-of-range"
        case = {"kernel": "reverse", "inv": inv, "N": N, "kind": kind}
        try:
            with warnings.catch_warnings():
                warnings.simplefilter("ignore")
                got = {"ok": [int(v) for v in U.reverse.py_func(np.array(inv, dtype=np.intp), N)]}
        except Exception as e:  # noqa: BLE001
            got = {"err": impl.err_class(e)}
        reqs.append(["reverse", inv, N])
        metas.append(("reverse", case, got, None, None, None))
        if kind == "sorted" and inv == sorted(inv) and "ok" in got:
            jit_call(ctx, "reverse", U.reverse, (np.array(inv, dtype=np.intp), N), case, got["ok"])
    outs = ctx.driver.run(reqs)
    for (kernel, case, want, out, n, N), o in zip(metas, outs):
        nontriv = bool(case.get("n", 0) and case["n"] > 1) or bool(case.get("inv"))
        ctx.case(f"A:{kernel}", case, nontrivial=nontriv)
        got = o
        ref = want if kernel == "reverse" else ({"err": "hang"} if want == "hang" else {"ok": want})
        if got != ref:
            ctx.fail("A", f"model:{kernel}", case, f"model {o} implementation {want}")
        if out is not None and not is_sample(out, n, N):
            # the kernel's own contract (the public property is checked on sparse.random in leg C)
            ctx.fail("A", f"contract:{kernel}", case, f"{kernel}({n}, {N}) returned {out}: not {n} strictly increasing indices of [0, {N})")
    for k, v in stats.items():
        ctx.count(k, int(v))


class Patched:
    """`sparse.random` with its samplers replaced by their traced py_func; collects the oracle of the run"""

    def __init__(self, U):
        self.pyA, self.pyD, self.pyR = U.algA.py_func, U.algD.py_func, U.reverse.py_func  # taken before patching
        self.calls = []
        self.oracle = {"choice": 0, "skips": [], "last": 0, "cands": []}
        self.problems = []

    def algA(self, n, N, rs):
        out, skips, last, finalN, problems, _ = run_algA(self.pyA, int(n), int(N), rs)
        self.calls.append(["algA", int(n), int(N)])
        self.oracle["skips"], self.oracle["last"] = skips, last
        self.problems += problems
        return np.array(out, dtype=np.intp)

    def algD(self, n, N, rs):
        out, cands, problems, _ = run_algD(self.pyD, int(n), int(N), rs)
        if out is None:
            raise Budget
        self.calls.append(["algD", int(n), int(N)])
        self.oracle["cands"] = cands
        self.problems += problems
        return np.array(out, dtype=np.intp)

    def reverse(self, inv, N):
        self.calls.append(["reverse", int(N)])
        return self.pyR(np.asarray(inv, dtype=np.intp), N)


def observed_code(p, rs, nnz):
    names = [c[0] for c in p.calls]
    ch = rs.choices
    if names == [] and not ch:
        return 0
    if names == [] and ch:
        return 1
    if names == ["reverse"] and ch:
        return 2
    return {("algD", "reverse"): 3, ("algA", "reverse"): 4, ("algD",): 5, ("algA",): 6}.get(tuple(names), -1)


def leg_a_random(ctx, rng, sizes, seeds):
    """whole `random` path: branch taken vs Gen.randomBranch, oracle constraints, model COO vs implementation COO"""
    import sparse
    from sparse.numba_backend import _utils as U

    reqs, metas = [], []
    for size in sizes:
        shp = shape_of_size(rng, size)
        for nnz in range(size + 1):
            for s in range(seeds):
                seed = int(rng.integers(2 ** 31))
                rs = Rec(np.random.default_rng(seed))
                p = Patched(U)
                fill = int(rng.choice([0, 0, 5]))
                data = [3 * (i + 1) for i in range(nnz)]
                case = {"shape": list(shp), "nnz": nnz, "seed": seed, "fill": fill}
                try:
                    with mock.patch.object(U, "algA", p.algA), mock.patch.object(U, "algD", p.algD), mock.patch.object(U, "reverse", p.reverse):
                        x = U.random(shp, nnz=nnz, random_state=rs, data_rvs=lambda n: np.arange(1, n + 1, dtype=np.int64) * 3, fill_value=fill)
                except TraceError as e:
                    ctx.fail("A", "trace:random", case, str(e))
                    continue
                except Budget:
                    ctx.case("A:random:budget", case, nontrivial=False)
                    continue
                except Exception as e:  # noqa: BLE001
                    ctx.fail("A", "model:random", case, f"implementation raised {type(e).__name__}: {e}")
                    continue
                o = dict(p.oracle)
                if rs.choices:
                    c = rs.choices[0]
                    if c["out"]:
                        o["choice"] = c["out"][0]
                        if not (0 <= o["choice"] < c["n"]):
                            p.problems.append(f"choice({c['n']}, {c['size']}) returned {c['out']}")
                    if len(c["out"]) != c["size"]:
                        p.problems.append(f"choice({c['n']}, {c['size']}) returned {len(c['out'])} values")
                for pr in p.problems:
                    ctx.fail("A", "oracle:random", case, pr)
                code = observed_code(p, rs, nnz)
                case["oracle"] = o
                reqs.append(["gen_random_branch", nnz, size, False])
                metas.append(("branch", case, code, p.calls, rs.choices))
                reqs.append(["oracle_ok", nnz, size, False, o])
                metas.append(("ok", case, True, None, None))
                reqs.append(["random", list(shp), nnz, False, o, data, fill])
                metas.append(("coo", case, impl.coo_json(x), None, None))
    outs = ctx.driver.run(reqs)
    by_code = {}
    for (kind, case, want, calls, choices), o in zip(metas, outs):
        if kind == "branch":
            got = o.get("ok")
            by_code[want] = by_code.get(want, 0) + 1
            ctx.case(f"A:random:branch{want}", case, nontrivial=case["nnz"] > 0)
            args_ok = True
            if got and calls:
                first = calls[0]
                if first[0] in ("algA", "algD"):
                    args_ok = first[1:] == got[1:]
            if got and choices and got[0] in (1, 2):
                args_ok = args_ok and [choices[0]["size"], choices[0]["n"]] == got[1:]
            if not got or got[0] != want or not args_ok:
                ctx.fail("A", "model:random:branch", case, f"generated selection {o}; implementation took code {want} calls {calls} choice {choices}")
        elif kind == "ok":
            if o.get("ok") is not True:
                ctx.fail("A", "oracle:random", case, f"Spec.OracleOK evaluates to {o} on the recorded oracle")
        else:
            if o.get("ok") != want:
                ctx.fail("A", "model:random", case, f"model {o} implementation {want}")
    ctx.notes["random_branch_distribution"] = {str(k): v for k, v in sorted(by_code.items())}
    unreached = [c for c in range(7) if c not in by_code]
    ctx.notes["random_branches_unreached_legA"] = unreached


def shape_of_size(rng, size):
    if size == 0:
        return tuple(int(v) for v in rng.permutation([0, int(rng.integers(1, 4))]))
    fs, n, p = [], size, 2
    while n > 1:
        while n % p == 0:
            fs.append(p)
            n //= p
        p += 1
    k = int(rng.integers(1, 4))
    parts = [1] * k
    for f in fs:
        parts[int(rng.integers(k))] *= f
    return tuple(parts)


# ------------------------------------------------------------------------------------------------
# leg C
# ------------------------------------------------------------------------------------------------

FORMATS = ["coo", "gcxs", "dok"]
CLS = {"coo": "COO", "gcxs": "GCXS", "dok": "DOK", "csr": "CSR", "csc": "CSC"}
FILL_TABLE = {"0": 0, "1": 1, "-3": -3, "3": 3, "2.5": 2.5, "True": True, "(1+2j)": 1 + 2j, "np.float32(0.5)": np.float32(0.5),
              "np.int8(7)": np.int8(7), "inf": float("inf"), "nan": float("nan")}
SHAPES = [(), (0,), (3,), 4, (2, 3), (2, 0, 3), (1, 2, 2), (3, 1)]
DTYPES = [None, "int64", "float32", "bool", "complex128", "int8", "uint16", "float64"]


def fail_c(ctx, name, case, msg):
    ctx.fail("C", name, case, msg, finding=findings.classify(PID, name, case, msg))


def fmt_problem(r, fmt):
    return None if type(r).__name__ == CLS[fmt] else f"result is {type(r).__name__}, requested format {fmt}"


def quiet(f, *a, **k):
    with warnings.catch_warnings():
        warnings.simplefilter("ignore")
        return f(*a, **k)


def shape_dtype_only(thunk, ref):
    try:
        r = quiet(thunk)
    except Exception as e:  # noqa: BLE001
        return f"raised {type(e).__name__}: {str(e)[:160]}"
    if tuple(r.shape) != ref.shape:
        return f"shape {r.shape}, numpy {ref.shape}"
    if r.dtype != ref.dtype:
        return f"dtype {r.dtype}, numpy {ref.dtype}"
    return impl.canonical_problem(r)


# ---- one case of each family: dict -> description of the disagreement, or None.  Used by the legs and by --replay.

def case_eye(case):
    import sparse

    N, M, k, fmt, dt = case["N"], case["M"], case["k"], case["format"], case["dtype"]
    kw = {} if dt is None else {"dtype": np.dtype(dt)}
    res = []
    msg = oracle.compare(lambda: res.append(sparse.eye(N, M, k, format=fmt, **kw)) or res[-1],
                         lambda: np.eye(N, M, k, **kw), fill=np.zeros((), dtype=dt or float)[()])
    if not msg and res:
        msg = fmt_problem(res[-1], fmt)
        want = sum(1 for i in range(N) if 0 <= i + k < (N if M is None else M))
        if not msg and res[-1].nnz != want:
            msg = f"nnz {res[-1].nnz}, diagonal has {want} cells"
    return msg


def case_eye_spelling(case):
    import sparse

    conv = {"int": int, "np.int64": np.int64, "np.int32": np.int32, "np.int8": np.int8}
    args = tuple(None if a is None else conv[t](a) for a, t in case["args"])
    kw = {k: conv[t](v) for k, (v, t) in case["kw"].items()}
    return oracle.compare(lambda: sparse.eye(*args, **kw), lambda: np.eye(*args, **kw), fill=0.0)


def case_fill(case):
    """zeros / ones / empty / full"""
    import sparse

    fname, fmt, dt = case["fn"], case["format"], case["dtype"]
    shp = case["shape_arg"] if isinstance(case["shape_arg"], int) else tuple(case["shape_arg"])
    kwd = {} if dt is None else {"dtype": np.dtype(dt)}
    res = []
    if fname == "full":
        fill = FILL_TABLE[case["fill"]]
        ref = quiet(np.full, shp, fill, **kwd)
        want_fill = ref.dtype.type(fill) if ref.dtype.kind != "b" else np.bool_(fill)
        msg = oracle.compare(lambda: res.append(sparse.full(shp, fill, format=fmt, **kwd)) or res[-1], lambda: ref, fill=want_fill)
    else:
        sf, nf = {"zeros": (sparse.zeros, np.zeros), "ones": (sparse.ones, np.ones), "empty": (sparse.empty, np.zeros)}[fname]
        ref = quiet(nf, shp, **kwd)
        if fname == "empty":  # np.empty promises shape and dtype only
            msg = shape_dtype_only(lambda: res.append(sf(shp, format=fmt, **kwd)) or res[-1], ref)
        else:
            msg = oracle.compare(lambda: res.append(sf(shp, format=fmt, **kwd)) or res[-1], lambda: ref, fill=ref.dtype.type(0 if fname != "ones" else 1))
    if not msg and res:
        r = res[-1]
        msg = fmt_problem(r, fmt) or (None if r.nnz == 0 else f"stores {r.nnz} elements")
        if not msg and fname != "empty" and np.asarray(r.fill_value).dtype != ref.dtype:
            msg = f"fill value dtype {np.asarray(r.fill_value).dtype}, numpy array dtype {ref.dtype}"
    return msg


def make_proto(kind, d):
    import sparse

    if kind == "ndarray":
        return d
    if kind == "COO":
        return sparse.COO.from_numpy(d)
    if kind == "DOK":
        return sparse.DOK.from_numpy(d) if d.ndim else sparse.DOK((), dtype=d.dtype)
    if kind == "GCXS":
        return sparse.GCXS.from_numpy(d)
    if kind == "GCXS(1,)":
        return sparse.GCXS.from_numpy(d, compressed_axes=(1,))
    if kind in ("CSR", "CSC"):  # the 2-d subclasses of GCXS: a *_like result without format= keeps the prototype's class
        from sparse.numba_backend._compressed import CSC, CSR
        return (CSR if kind == "CSR" else CSC).from_numpy(d)
    raise ValueError(kind)


def case_like(case):
    import sparse

    fname, pname, fmt, dt, ns = case["fn"], case["proto"], case["format"], case["dtype"], case["shape"]
    d = np.array(case["proto_dense"], dtype=case["proto_dtype"]).reshape(case["proto_shape"])
    if pname == "DOK" and d.ndim == 0:
        d = np.zeros((), dtype=d.dtype)
    a = make_proto(pname, d)
    kw = {}
    if dt is not None:
        kw["dtype"] = np.dtype(dt)
    if ns is not None:
        kw["shape"] = tuple(ns)
    skw = dict(kw)
    if fmt is not None:
        skw["format"] = fmt
    want_fmt = fmt or {"ndarray": "coo", "COO": "coo", "DOK": "dok", "CSR": "csr", "CSC": "csc"}.get(pname, "gcxs")
    sf, nf = {"zeros_like": (sparse.zeros_like, np.zeros_like), "ones_like": (sparse.ones_like, np.ones_like),
              "empty_like": (sparse.empty_like, np.zeros_like), "full_like": (sparse.full_like, np.full_like)}[fname]
    extra = () if case["fill"] is None else (FILL_TABLE[case["fill"]],)
    ref = quiet(nf, d, *extra, **kw)
    res = []
    if fname == "empty_like":
        msg = shape_dtype_only(lambda: res.append(sf(a, *extra, **skw)) or res[-1], ref)
    else:
        fv = {"zeros_like": 0, "ones_like": 1}.get(fname, extra[0] if extra else 0)
        msg = oracle.compare(lambda: res.append(sf(a, *extra, **skw)) or res[-1], lambda: ref, fill=ref.dtype.type(fv))
    if not msg and res:
        msg = fmt_problem(res[-1], want_fmt) or (None if res[-1].nnz == 0 else f"stores {res[-1].nnz} elements")
    return msg


def case_asarray(case):
    import scipy.sparse as sp
    import sparse

    oname, fmt, dt = case["obj"], case["format"], case["dtype"]
    d = np.array(case["dense"], dtype=case["obj_dtype"]).reshape(case["shape"])
    if oname == "ndarray":
        obj = d
    elif oname == "list":
        obj = d.tolist()
    elif oname == "scalar":
        obj = d[()].item()
    elif oname == "scipy.csr":
        obj = sp.csr_matrix(d)
    elif oname == "scipy.coo_array":
        obj = sp.coo_array(d)
    else:
        obj = make_proto(oname, d)
    kw = {} if dt is None else {"dtype": np.dtype(dt)}
    ref_obj = obj if oname in ("ndarray", "list", "scalar") else d
    res = []
    msg = oracle.compare(lambda: res.append(sparse.asarray(obj, format=fmt, **kw)) or res[-1],
                         lambda: np.asarray(ref_obj, **kw), check_dtype=True, must_be_sparse=True)
    if not msg and res:
        msg = fmt_problem(res[-1], fmt)
    return msg


def check_random_result(x, shp, nnz, fmt, fill, idx_dtype, values, size):
    """the property, on one result; returns a description of the first problem or None"""
    import sparse

    p = fmt_problem(x, fmt)
    if p:
        return p
    if tuple(x.shape) != tuple(shp):
        return f"shape {x.shape}, requested {shp}"
    if x.nnz != nnz:
        return f"{x.nnz} stored elements, requested {nnz}"
    p = impl.canonical_problem(x)
    if p:
        return f"not canonical: {p}"
    c = x if isinstance(x, sparse.COO) else x.asformat("coo")
    lin = np.ravel_multi_index(tuple(c.coords.astype(np.int64)), shp) if (len(shp) and size) else np.zeros(c.nnz, dtype=np.int64)
    if len(set(lin.tolist())) != nnz or (nnz and (lin.min() < 0 or lin.max() >= size)):
        return f"positions not {nnz} distinct indices of [0, {size}): {lin.tolist()[:20]}"
    if isinstance(x, sparse.COO) and (np.diff(lin) <= 0).any():
        return "COO coordinates not strictly increasing"
    want_fill = 0 if fill is None else fill
    if not oracle.same_values(np.asarray(x.fill_value), np.asarray(want_fill, dtype=x.dtype)):
        return f"fill value {x.fill_value!r}, requested {fill!r}"
    if values is not None:
        got = np.sort(np.asarray(c.data))  # the property fixes which values are stored, not their placement
        if not oracle.same_values(got, np.sort(np.asarray(values))):
            return f"stored values {got.tolist()[:10]} are not the sampler's {np.asarray(values).tolist()[:10]}"
    if idx_dtype is not None:
        arrs = [x.coords] if isinstance(x, sparse.COO) else ([x.indices, x.indptr] if isinstance(x, sparse.GCXS) and x.ndim > 1 else [])
        for a in arrs:
            if a.dtype != np.dtype(idx_dtype):
                return f"index dtype {a.dtype}, requested {np.dtype(idx_dtype)}"
    return None


def case_random(case):
    """sparse.random with a counting sampler, twice with the same seed (int, then a fresh Generator)"""
    import sparse

    shp, nnz, density, fmt, fill, idt, seed = (tuple(case["shape"]), case["nnz"], case["density"], case["format"], case["fill"],
                                               case["idx_dtype"], case["seed"])
    size = int(np.prod(shp, dtype=np.int64))
    want = nnz if nnz is not None else int(size * density)
    rec = []

    def rvs(n):
        rec.append(int(n))
        return np.arange(1, n + 1, dtype=np.float64) * 0.5

    kw = {"format": fmt, "random_state": seed, "data_rvs": rvs}
    if nnz is not None:
        kw["nnz"] = nnz
    else:
        kw["density"] = density
    if fill is not None:
        kw["fill_value"] = fill
    if idt is not None:
        kw["idx_dtype"] = np.dtype(idt)
    try:
        x = quiet(sparse.random, shp, **kw)
        x2 = quiet(sparse.random, shp, **{**kw, "random_state": np.random.default_rng(seed)})
    except Exception as e:  # noqa: BLE001
        return f"raised {type(e).__name__}: {str(e)[:160]}"
    msg = check_random_result(x, shp, want, fmt, fill, idt, np.arange(1, want + 1) * 0.5, size)
    if not msg and rec[:1] != [want]:
        msg = f"data_rvs called with {rec[:3]}, nnz is {want}"
    if not msg:
        a, b = x.asformat("coo"), x2.asformat("coo")
        if not (np.array_equal(a.coords, b.coords) and np.array_equal(a.data, b.data)):
            msg = "same seed (int and fresh Generator) gave different arrays"
    return msg


def case_random_defaults(case):
    import sparse

    shp, kw = tuple(case["shape"]), case["kw"]
    size = int(np.prod(shp))
    want = kw.get("nnz", int(size * kw.get("density", 0.01)))
    try:
        x = quiet(sparse.random, shp, **kw)
    except Exception as e:  # noqa: BLE001
        return f"raised {type(e).__name__}: {e}"
    msg = check_random_result(x, shp, want, "coo", None, None, None, size)
    if not msg and x.dtype != np.float64:
        msg = f"dtype {x.dtype} with the default sampler"
    return msg


CASE_FN = {"eye": case_eye, "eye:spelling": case_eye_spelling, "zeros": case_fill, "ones": case_fill, "empty": case_fill, "full": case_fill,
           "zeros_like": case_like, "ones_like": case_like, "empty_like": case_like, "full_like": case_like, "asarray": case_asarray,
           "random": case_random, "random:boundary": case_random, "random:density": case_random, "random:defaults": case_random_defaults}


def do_case(ctx, name, family, case, nontrivial=True):
    ctx.case(family, case, nontrivial=nontrivial)
    try:
        msg = CASE_FN[name](case)
    except Exception as e:  # noqa: BLE001 — the harness' own reference computation must not take the run down
        msg = f"case could not be evaluated: {type(e).__name__}: {str(e)[:160]}"
    if msg:
        fail_c(ctx, name, case, msg)


def leg_c_eye(ctx):
    R = 5 if ctx.quick else 7
    dts = [None, "int64", "bool"] if ctx.quick else [None, "int64", "bool", "float32", "complex128", "uint8"]
    for N in range(R + 1):
        for M in [None, *range(R + 1)]:
            for k in range(-R - 1, R + 2):
                for fmt in FORMATS:
                    for dt in dts:
                        do_case(ctx, "eye", f"C:eye:{fmt}", {"N": N, "M": M, "k": k, "format": fmt, "dtype": dt}, N > 0 and (M is None or M > 0))
    # positional / keyword spellings and integer-like arguments
    for args, kw in [([(3, "int")], {}), ([(3, "int"), (4, "int")], {}), ([(3, "int")], {"k": (-1, "int")}),
                     ([(3, "np.int64"), (2, "np.int32")], {"k": (1, "np.int8")}), ([(4, "int"), (None, None), (2, "int")], {})]:
        do_case(ctx, "eye:spelling", "C:eye:spelling", {"args": [[a, t] if a is not None else [None, None] for a, t in args],
                                                         "kw": {k: list(v) for k, v in kw.items()}})


def fill_ok(fill, dt):
    """stay inside what NumPy itself converts without error"""
    if dt is None:
        return True
    k = np.dtype(dt).kind
    if isinstance(fill, complex) and k != "c":
        return False
    if isinstance(fill, float) and (fill != fill or fill == float("inf")) and k in "iub":
        return False
    return not (k == "u" and np.real(fill) < 0)


def leg_c_fill(ctx, rng):
    shapes = SHAPES if not ctx.quick else SHAPES[:7]
    dts = DTYPES if not ctx.quick else DTYPES[:6]
    for shp, dt, fmt in itertools.product(shapes, dts, FORMATS):
        arg = shp if isinstance(shp, int) else list(shp)
        for fname in ("zeros", "ones", "empty"):
            do_case(ctx, fname, f"C:{fname}:{fmt}", {"fn": fname, "shape_arg": arg, "dtype": dt, "format": fmt})
        for key, fill in FILL_TABLE.items():
            if key != "3" and fill_ok(fill, dt):
                do_case(ctx, "full", f"C:full:{fmt}", {"fn": "full", "shape_arg": arg, "dtype": dt, "format": fmt, "fill": key})
    # *_like: prototype in every format and as ndarray; dtype / shape / format overrides
    for shp in [(), (3,), (2, 3), (2, 0), (2, 2, 2)]:
        for pdt in ("int64", "float32", "bool"):
            d = gen.dense(rng, shp, 0).astype(pdt)
            kinds = ["ndarray", "COO", "DOK"] + (["GCXS"] if len(shp) >= 1 else []) + (["GCXS(1,)", "CSR", "CSC"] if len(shp) == 2 else [])
            for pname, dt, ns, fmt in itertools.product(kinds, (None, "float64", "int8"), (None, [4], [0, 2]), (None, "coo", "gcxs", "dok")):
                if pname in ("CSR", "CSC") and fmt is None and ns is not None and len(ns) != 2:
                    continue  # a CSR/CSC result must be 2-d: the library refuses (ValueError), which is not this family's subject
                if ctx.quick and rng.random() < 0.5:
                    continue
                for fname, fv in (("zeros_like", None), ("ones_like", None), ("empty_like", None), ("full_like", "3"), ("full_like", "2.5")):
                    do_case(ctx, fname, f"C:{fname}", {"fn": fname, "proto": pname, "proto_shape": list(shp), "proto_dtype": pdt, "proto_dense": d.ravel().tolist(),
                                                        "dtype": dt, "shape": ns, "format": fmt, "fill": fv})


def leg_c_asarray(ctx, rng):
    n = 0
    for shp in [(), (3,), (2, 3), (0, 2), (2, 2, 2), (1, 4)]:
        for pdt in ("int64", "float64", "bool"):
            d = gen.dense(rng, shp, 0, density=0.5).astype(pdt)
            kinds = ["ndarray", "list"]
            if len(shp) >= 1:  # 0-d sparse inputs are C05's subject (from_numpy of a 0-d array)
                kinds += ["COO", "DOK", "GCXS"]
            if len(shp) == 2:
                kinds += ["scipy.csr", "scipy.coo_array"]
            if shp == ():
                kinds.append("scalar")
            for oname, fmt, dt in itertools.product(kinds, FORMATS, (None, "float32")):
                n += 1
                do_case(ctx, "asarray", f"C:asarray:{oname}", {"obj": oname, "shape": list(shp), "obj_dtype": pdt, "format": fmt, "dtype": dt,
                                                                "dense": d.ravel().tolist()}, bool(d.size))
    ctx.count("asarray_cases", n)


def boundary_nnz(e):
    s = {0, 1, 2, 3, e - 3, e - 2, e - 1, e}
    for c in (e // 10, e // 2, e - e // 10, (e + 9) // 10, (e + 1) // 2):
        s |= {c - 1, c, c + 1}
    return sorted(v for v in s if 0 <= v <= e)


def leg_c_random(ctx, rng):
    def one(shp, fmt, fill, idt, *, nnz=None, density=None, name="random"):
        case = {"shape": list(shp), "nnz": nnz, "density": density, "format": fmt, "fill": fill, "idx_dtype": idt, "seed": int(rng.integers(2 ** 31))}
        do_case(ctx, name, f"C:{name}:{fmt}", case, (nnz or 0) > 0 or (density or 0) > 0)

    for size in range(41):  # every nnz from 0 to size, sizes <= 40
        for rep in range(1 if ctx.quick else 3):
            shp = shape_of_size(rng, size)
            for nnz in range(size + 1):
                one(shp, FORMATS[(nnz + rep) % 3], [None, 0, 7, 2.5][(nnz + size) % 4],
                    [None, None, "int32", "uint8", "int64"][(nnz + 2 * size + rep) % 5], nnz=nnz)
    # branch boundaries on larger sizes
    for e_shape in ([(100,), (10, 10), (7, 11, 13), (1000,), (4, 250)] + ([] if ctx.quick else [(101,), (3, 5, 7), (4097,), (20, 50, 10)])):
        for nnz in boundary_nnz(int(np.prod(e_shape))):
            for fmt in (FORMATS if not ctx.quick else [FORMATS[nnz % 3]]):
                one(e_shape, fmt, [None, 3][nnz % 2], None, nnz=nnz, name="random:boundary")
    for e_shape in [(0,), (5,), (4, 5), (3, 3, 3), (100,), (7, 13)]:
        for dens in [0.0, 0.01, 0.1, 0.25, 0.5, 0.75, 0.9, 0.99, 1.0, 1 / 3, 0.999999]:
            for fmt in FORMATS:
                one(e_shape, fmt, None, None, density=dens, name="random:density")
    # default density, default data_rvs, module-level generator (no seed): count / range / canonical only
    for e_shape in [(10, 10), (1000,), (3, 4, 5)]:
        for kw in ({}, {"density": 0.3}, {"nnz": 7}):
            do_case(ctx, "random:defaults", "C:random:defaults", {"shape": list(e_shape), "kw": kw, "seed": None})


def replay(ctx, path):
    """./check C19 --replay <file>: re-run the recorded failing input (or, for a replay that names only broken
    obligations / correspondences, the whole check)"""
    import json

    data = json.loads(open(path if path.startswith("/") else str(core.ROOT / path)).read())
    f = data.get("failure")
    if not f or f.get("family") not in CASE_FN:
        run(ctx)
        return core.finish(ctx)
    msg = CASE_FN[f["family"]](f["case"])
    fid = findings.classify(PID, f["family"], f["case"], msg) if msg else None
    if msg:
        print(f"REPLAY property={PID} family={f['family']} still fails: {msg}" + (f" (known finding {fid})" if fid else ""), flush=True)
        if not fid:
            print(f"VIOLATION property={PID} replay={path}", flush=True)
            return 1
        return 0
    print(f"REPLAY property={PID} family={f['family']}: the recorded input passes on the current tree", flush=True)
    return 0


def run(ctx):
    ctx.trusted = TRUSTED
    ctx.assumptions = [
        "NumPy's np.eye / np.full / np.full_like / np.asarray are the specification of the creation functions",
        "Spec.OracleOK: Generator.choice(n, 1) is in range(n); algD candidates intp(N(1-Vprime)) >= 0; last algA sample intp(N*U) in [0, N) — asserted on every recorded run",
        "sizes below 2**53 (`nnz > elements / 2` and `int(elements * density)` are exact); nnz = int(elements * density) itself is computed in floating point outside the model",
        "outside the claim: the distribution of the sample (e.g. algD as written never selects index N-1) and algD's almost-sure termination",
    ]
    core.prove(ctx, PID, uses=USES)
    rng = gen.rng_for(ctx.seed, PID)
    import time
    timing = {}
    with warnings.catch_warnings():
        warnings.simplefilter("ignore")
        for name, thunk in (
            ("t1", lambda: leg_t1(ctx)),
            ("a_eye_full", lambda: leg_a_eye_full(ctx, rng)),
            ("a_kernels", lambda: leg_a_kernels(ctx, rng, 1500 if ctx.quick else 40000)),
            ("a_random", lambda: leg_a_random(ctx, rng, list(range(0, 41)) + ([] if ctx.quick else list(range(41, 81)) + [100, 128, 200, 500]), 2 if ctx.quick else 5)),
            ("c_eye", lambda: leg_c_eye(ctx)),
            ("c_fill", lambda: leg_c_fill(ctx, rng)),
            ("c_asarray", lambda: leg_c_asarray(ctx, rng)),
            ("c_random", lambda: leg_c_random(ctx, rng)),
        ):
            t0 = time.time()
            thunk()
            timing[name] = round(time.time() - t0, 2)
            core.log(f"C19 {name} {timing[name]}s")
    ctx.notes["timing_s"] = timing
    ctx.notes["fingerprints"] = {
        **core.source_fingerprint("sparse/numba_backend/_utils.py", ["algA", "algD", "reverse", "random"]),
        **core.source_fingerprint("sparse/numba_backend/_common.py", ["eye", "full", "full_like", "zeros", "ones", "empty", "asarray"]),
    }
    ctx.cov["rule"] = (
        "T1: generated eyeLen/eyeCoord/randomBranch vs the Python fragments, exhaustive on small ints; leg A: eye for all N, M (None too) <= 5(7), |k| <= 6(8) "
        "model vs implementation on coords/data/shape/fill; algA/algD/reverse py_func traced (real and scripted random streams) vs the oracle-driven model; "
        "whole `random` path for every nnz of the listed sizes; leg C: eye x {coo,gcxs,dok} x dtypes vs np.eye; full/zeros/ones/empty and *_like over shapes x dtypes x "
        "formats x fills vs NumPy; asarray over input kinds; sparse.random: every nnz for sizes <= 40, branch boundaries on larger sizes, densities, determinism, "
        "formats/fills/index dtypes; non-trivial = something is stored / requested, distinct by content hash")
    import extra_ops  # operation tables closing the measured coverage gaps (tools/coverage_audit.py; coverage/API_COVERAGE.md)
    extra_ops.run(ctx, PID)

"""Memory-safety leg: the same differential stream, run in a subprocess with NUMBA_BOUNDSCHECK=1 (own numba cache
directory), so that a compiled kernel reading or writing past the end of an array raises IndexError instead of silently
touching foreign memory.  A call NumPy accepts that raises 'index is out of bounds' there is a failing input: without
bounds checking the same call corrupts the heap or returns by luck.

worker: python boundscheck.py <seed> <n> <out.jsonl>      harness: leg(ctx, pid, n)
"""
from __future__ import annotations

import json
import os
import subprocess
import sys
import tempfile
from pathlib import Path

HERE = Path(__file__).resolve().parent
CACHE = os.environ.get("VERIF_NUMBA_BC_CACHE", "/var/tmp/verif-numba-cache-boundscheck")


def _ops(rng, sparse, np, x, d, fmt):
    """(name, impl thunk, numpy thunk): kernels behind reductions, joins, products, searching — beside indexing"""
    nd = d.ndim
    if nd == 0:
        return
    ax = int(rng.integers(-nd, nd))
    yield f"sum({ax})", lambda: x.sum(axis=ax), lambda: d.sum(axis=ax)
    yield f"max({ax})", lambda: x.max(axis=ax), (lambda: d.max(axis=ax)) if d.shape[ax % nd] else None
    if fmt != "dok":
        yield "flatten", lambda: x.flatten(), lambda: d.flatten()
        yield f"concatenate({ax})", lambda: sparse.concatenate([x, x], axis=ax), lambda: np.concatenate([d, d], axis=ax)
        yield f"stack({ax})", lambda: sparse.stack([x, x], axis=ax), lambda: np.stack([d, d], axis=ax)
        yield "T", lambda: x.T, lambda: d.T
    if fmt == "coo":
        yield f"argmax({ax})", lambda: sparse.argmax(x, axis=ax), (lambda: np.argmax(d, axis=ax)) if d.shape[ax % nd] else None
        yield f"roll(1,{ax})", lambda: sparse.roll(x, 1, axis=ax), lambda: np.roll(d, 1, axis=ax)
        yield "nonzero", lambda: np.stack(x.nonzero()) if nd else None, lambda: np.stack(d.nonzero())
        if nd >= 2:
            k = int(rng.integers(-2, 3))
            yield f"triu({k})", lambda: sparse.triu(x, k), lambda: np.triu(d, k)
            yield f"diagonal({k})", lambda: sparse.diagonal(x, k), lambda: np.diagonal(d, k)
    if nd >= 1 and fmt != "dok" and x.fill_value == 0:
        w = np.asarray(rng.integers(-2, 3, size=(d.shape[-1], 2)))
        yield "x@dense", lambda: x @ w, lambda: d @ w
        if nd == 2:
            yield "x@x.T", lambda: x @ x.T, lambda: d @ d.T
            yield "tensordot", lambda: sparse.tensordot(x, x, axes=([0], [0])), lambda: np.tensordot(d, d, axes=([0], [0]))


def worker(seed, n, out):
    import numpy as np

    sys.path.insert(0, str(HERE))
    import c02
    import gen
    import oracle
    import sparse

    rng = np.random.default_rng([seed, 2, 99])
    done = 0
    with open(out, "w") as fh:
        for _ in range(n):
            shp = gen.shape(rng, 0, 5)
            fill = int(rng.choice([0, 0, 3]))
            d = gen.dense(rng, shp, fill)
            for fmt in ("coo", "gcxs", "dok"):
                if fmt == "dok" and len(shp) == 0:
                    continue
                x, fdesc = gen.to_format(rng, d, fmt, fill)
                calls = []
                for _ in range(4):
                    idx, js = c02.rand_index(rng, shp, allow_err=0.0)
                    calls.append((f"getitem {js}", (lambda idx=idx: x[idx]), (lambda idx=idx: d[idx]), True))
                for name, it, rt in _ops(rng, sparse, np, x, d, fmt):
                    if rt is not None:
                        calls.append((name, it, rt, False))
                for name, it, rt, scal in calls:
                    done += 1
                    msg = oracle.compare(it, rt, fill=np.asarray(fill, dtype=d.dtype), scalar_rule=scal, err_ok=("index",) if scal else ())
                    # only the bounds checker's own error counts here (values are the business of the other legs)
                    if msg and "is out of bounds" in msg and "numpy returns" in msg:
                        fh.write(json.dumps({"op": name, "format": fdesc, "shape": list(shp), "fill": fill, "dense": d.tolist(), "msg": msg}) + "\n")
        fh.write(json.dumps({"done": done}) + "\n")


def leg(ctx, pid, n, classify=None):
    import core

    env = dict(os.environ, NUMBA_BOUNDSCHECK="1", NUMBA_CACHE_DIR=CACHE)
    repo = os.environ.get("VERIF_REPO")
    if repo:
        env["PYTHONPATH"] = repo
    with tempfile.TemporaryDirectory(dir="/var/tmp") as td:
        out = os.path.join(td, "bc.jsonl")
        r = subprocess.run([sys.executable, str(HERE / "boundscheck.py"), str(ctx.seed), str(n), out], env=env, capture_output=True, text=True, timeout=3600)
        recs = [json.loads(l) for l in open(out)] if os.path.exists(out) else []
    done = next((x["done"] for x in recs if "done" in x), None)
    if r.returncode != 0 or done is None:
        # a crash of the interpreter under bounds checking is itself the finding; report what was reached
        ctx.fail("C", "boundscheck-worker", {"stderr": r.stderr[-600:], "returncode": r.returncode}, f"the bounds-checked worker died (exit {r.returncode}): {r.stderr[-300:]}")
        return
    for x in recs:
        if "done" in x:
            continue
        msg = x.pop("msg")
        name = x["op"].split(" ")[0].split("(")[0]
        ctx.case(f"C:boundscheck:{name}", x, nontrivial=True)
        ctx.fail("C", f"boundscheck:{name}", x, "with NUMBA_BOUNDSCHECK=1: " + msg, finding=classify(pid, name, x, msg) if classify else None)
    ctx.cov["boundscheck"] = {"calls": done, "failures": len(recs) - 1, "env": "NUMBA_BOUNDSCHECK=1, subprocess, own cache dir"}
    ctx.cov["evaluations"] += done
    core.log(f"{pid} boundscheck leg: {done} calls")


if __name__ == "__main__":
    worker(int(sys.argv[1]), int(sys.argv[2]), sys.argv[3])

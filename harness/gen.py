"""Generators: every random choice comes from one numpy Generator seeded by VERIF_SEED."""
from __future__ import annotations

import itertools

import numpy as np

EXTENTS = [0, 1, 1, 2, 2, 3, 3, 4, 5, 7]


def rng_for(seed: int, salt: str = ""):
    import zlib
    return np.random.default_rng([seed, zlib.crc32(salt.encode())])


def shape(rng, min_rank=0, max_rank=4, extents=EXTENTS, max_size=400):
    for _ in range(50):
        r = int(rng.integers(min_rank, max_rank + 1))
        s = tuple(int(rng.choice(extents)) for _ in range(r))
        if int(np.prod(s, dtype=np.int64)) <= max_size:
            return s
    return (2,) * min_rank


def dense(rng, shp, fill=0, density=None, lo=-4, hi=4, dtype=np.int64):
    """dense integer array with the given fill at unstored places; small values so ties/cancellation occur"""
    if density is None:
        density = float(rng.choice([0.0, 0.15, 0.4, 0.7, 1.0]))
    x = rng.integers(lo, hi + 1, size=shp).astype(dtype)
    mask = rng.random(size=shp) < density
    return np.where(mask, x, np.asarray(fill, dtype=dtype)).astype(dtype)


def axes_subsets(ndim):
    for r in range(ndim + 1):
        yield from itertools.combinations(range(ndim), r)


def compressed_axes_choices(ndim):
    """every admissible compressed_axes (non-empty proper prefix ordering is free): all non-empty strict subsets"""
    res = []
    for r in range(1, ndim):
        res += list(itertools.combinations(range(ndim), r))
    return res or [None]


def to_format(rng, x, fmt=None, fill=0):
    """x: ndarray -> (sparse array, description)"""
    import sparse

    if fmt is None:
        fmt = str(rng.choice(["coo", "coo", "gcxs", "dok"]))
    c = sparse.COO.from_numpy(x, fill_value=fill)
    if fmt == "coo":
        return c, "coo"
    if fmt == "dok":
        return sparse.DOK.from_coo(c), "dok"
    if fmt == "gcxs":
        if x.ndim < 2:
            return sparse.GCXS.from_coo(c), "gcxs"
        ch = compressed_axes_choices(x.ndim)
        ca = ch[int(rng.integers(len(ch)))]
        return sparse.GCXS.from_coo(c, compressed_axes=ca), f"gcxs{list(ca)}"
    raise ValueError(fmt)


def slice_part(rng, dim, allow_none=True):
    r = rng.random()
    if allow_none and r < 0.3:
        return None
    if r < 0.9:
        return int(rng.integers(-dim - 2, dim + 3))
    return int(rng.choice([-100, 100, -dim, dim, -dim - 1, dim + 1, 0, -1]))


def rand_slice(rng, dim):
    step = None if rng.random() < 0.35 else int(rng.choice([1, 2, 3, -1, -1, -2, -3, 5, -5]))
    return slice(slice_part(rng, dim), slice_part(rng, dim), step)

"""C01 — element-wise operations and broadcasting agree with NumPy."""
from __future__ import annotations

import itertools
import operator
import warnings

import numpy as np

import core
import findings
import gen
import impl
import oracle

PID = "C01"
TRUSTED = [
    "Lean 4 kernel; axioms propext, Classical.choice, Quot.sound only (audited per theorem each run)",
    "tie T1: Gen.bcastOk / Gen.bcastDim regenerated from _umath._get_broadcast_shape each run; validated on every pair of shapes with <=3 axes, extents 0..3",
    "tie T2: hand models bshape2/bshapeN, COO.broadcastTo (coordinate expansion order + sorted claim), elemwiseN (fill decision, dense-mix rule, "
    "stored positions, prune, order) compared with the implementation on representation",
    "which scalar function a ufunc denotes per dtype, result dtypes, out=/dtype= and in-place forms are NumPy's own code on both sides: differential only (leg C)",
]

MODEL_FUNCS = {
    "add": (2, np.add), "subtract": (2, np.subtract), "multiply": (2, np.multiply), "maximum": (2, np.maximum), "minimum": (2, np.minimum),
    "negative": (1, np.negative), "absolute": (1, np.absolute), "square": (1, np.square), "sign": (1, np.sign), "equal": (2, np.equal),
    "not_equal": (2, np.not_equal), "less": (2, np.less), "greater_equal": (2, np.greater_equal), "logical_not": (1, np.logical_not),
    "logical_and": (2, np.logical_and), "logical_or": (2, np.logical_or), "where": (3, None), "add3": (3, None), "fma": (3, None), "add_one": (1, None),
}


def py_func(name):
    if name == "where":
        return lambda c, a, b: np.where(c != 0, a, b)
    if name == "add3":
        return lambda a, b, c: a + b + c
    if name == "fma":
        return lambda a, b, c: a * b + c
    if name == "add_one":
        return lambda a: a + 1
    return MODEL_FUNCS[name][1]


def operand_shapes(rng, result, n):
    """n operand shapes that broadcast (mostly) to `result`"""
    shapes = []
    for _ in range(n):
        lead = int(rng.integers(0, len(result) + 1)) if rng.random() < 0.4 else 0
        s = [1 if (d != 1 and rng.random() < 0.3) else d for d in result[lead:]]
        shapes.append(tuple(s))
    if rng.random() < 0.1 and shapes and shapes[0]:
        s = list(shapes[0])
        s[int(rng.integers(len(s)))] += 1  # make it (probably) non-broadcastable
        shapes[0] = tuple(s)
    return shapes


def broadcast_to_source(rng, target):
    """operand shape for broadcast_to(x, target): mostly admissible; also the two rejected regions —
    an operand with MORE axes than the target (fixed upstream in 13786a7: must raise like NumPy) and a
    target extent that would have to be stretched/incompatible."""
    (src,) = operand_shapes(rng, target, 1)
    r = rng.random()
    if r < 0.2:
        # more axes than the target: a trailing part that is compatible with the target, extra leading axes
        tail = tuple(1 if (d != 1 and rng.random() < 0.3) else d for d in target)
        extra = tuple(int(v) for v in rng.choice([1, 1, 2, 3], size=int(rng.integers(1, 3))))
        return extra + tail, "more-axes"
    if r < 0.3 and len(target) > 0:
        s = list(src) if len(src) == len(target) else list(target)
        a = int(rng.integers(len(s)))
        s[a] = target[a] + 1 if target[a] != 0 else 2  # operand extent differs from the target's and is not 1 (or target is 1: stretch)
        return tuple(s), "incompatible"
    return src, "regular"


def t1_validate(ctx):
    from sparse.numba_backend._umath import _get_broadcast_shape

    ext = [0, 1, 2, 3]
    shapes = [()] + [(a,) for a in ext] + [(a, b) for a in ext for b in ext] + [(a, b, c) for a in (1, 2, 3) for b in (0, 1, 2) for c in (1, 3)]
    reqs, want = [], []
    for s1, s2 in itertools.product(shapes, shapes):
        for r in (False, True):
            reqs.append(["bshape2", list(s1), list(s2), r])
            try:
                want.append({"ok": [int(v) for v in _get_broadcast_shape(s1, s2, is_result=r)]})
            except ValueError:
                want.append({"err": "value"})
    outs = ctx.driver.run(reqs)
    n = 0
    for r, w, o in zip(reqs, want, outs):
        if o != w:
            n += 1
            if n <= 3:
                ctx.fail("T1", "bshape2", r, f"generated rule gives {o}, Python gives {w}")
    ctx.notes["translator_grid"] = {"shape_pairs": len(reqs)}
    ctx.cov["evaluations"] += len(reqs)


def leg_a(ctx, rng, n):
    import sparse

    reqs, metas = [], []
    for _ in range(n):
        res = gen.shape(rng, 0, 4, extents=[0, 1, 2, 2, 3, 3, 4], max_size=150)
        if rng.random() < 0.35:
            # broadcast_to (incl. operands with more axes than the target and incompatible extents)
            src, region = broadcast_to_source(rng, res)
            if int(np.prod(src, dtype=np.int64)) > 600:
                continue
            fill = int(rng.choice([0, 0, 2]))
            try:
                x = sparse.COO.from_numpy(gen.dense(rng, src, fill), fill_value=fill)
            except Exception:  # noqa: BLE001
                continue
            case = {"op": "broadcast_to", "x": impl.coo_json(x), "shape": list(res), "region": region}
            reg = ctx.cov.setdefault("broadcast_to_regions", {})
            reg["A:" + region] = reg.get("A:" + region, 0) + 1
            try:
                want = {"ok": impl.coo_json(sparse.broadcast_to(x, res))}
            except ValueError:
                want = {"err": "value"}
            except Exception as e:  # noqa: BLE001
                want = {"err": impl.err_class(e)}
            reqs.append(["broadcast_to", case["x"], list(res)])
            metas.append((case, want))
            continue
        fname = str(rng.choice(list(MODEL_FUNCS)))
        k = MODEL_FUNCS[fname][0]
        shapes = operand_shapes(rng, res, k)
        ops_json, ops_impl = [], []
        have_sparse = False
        for j, s in enumerate(shapes):
            kind = str(rng.choice(["coo", "coo", "coo", "dense", "scalar"]))
            if j == k - 1 and not have_sparse:
                kind = "coo"
            fill = int(rng.choice([0, 0, 1, 2, -1]))
            if kind == "coo":
                d = gen.dense(rng, s, fill)
                x = sparse.COO.from_numpy(d, fill_value=fill)
                if x.ndim == 0:
                    # 0-d sparse operands are densified by _Elemwise
                    ops_json.append({"dense": {"shape": [], "flat": [int(d)]}})
                    ops_impl.append(x)
                    continue
                have_sparse = True
                ops_json.append({"coo": impl.coo_json(x)})
                ops_impl.append(x)
            elif kind == "dense":
                d = gen.dense(rng, s, fill, density=float(rng.choice([0.0, 0.5, 1.0])))
                ops_json.append({"dense": {"shape": list(s), "flat": [int(v) for v in d.ravel()]}})
                ops_impl.append(d)
            else:
                v = int(rng.integers(-3, 4))
                ops_json.append({"scalar": v})
                ops_impl.append(v)
        if not have_sparse:
            continue
        case = {"op": "elemwise", "func": fname, "operands": ops_json}
        f = py_func(fname)
        with warnings.catch_warnings():
            warnings.simplefilter("ignore")
            try:
                r = sparse.elemwise(f, *ops_impl)
                if isinstance(r, sparse.COO):
                    j = impl.coo_json(r) if r.dtype != np.bool_ else impl.coo_json(r.astype(np.int64))
                    want = {"ok": {"sparse": j}}
                elif isinstance(r, np.ndarray):
                    want = {"ok": {"dense": {"shape": list(r.shape), "flat": [int(v) for v in r.ravel()]}}}
                else:
                    want = {"ok": {"other": type(r).__name__}}
            except ValueError:
                want = {"err": "value"}
            except Exception as e:  # noqa: BLE001
                want = {"err": impl.err_class(e), "detail": f"{type(e).__name__}: {e}"[:200]}
        reqs.append(["elemwise", fname, ops_json])
        metas.append((case, want))
    outs = ctx.driver.run(reqs)
    for (case, want), out in zip(metas, outs):
        ctx.case(f"A:{case['op']}", case)
        kind = "sparse" if "ok" in want and "sparse" in want["ok"] else ("dense" if "ok" in want else "error")
        dec = ctx.cov.setdefault("elemwise_decisions", {})
        dec[kind] = dec.get(kind, 0) + 1
        w = {k: v for k, v in want.items() if k != "detail"}
        if out != w:
            ctx.fail("A", f"model:{case['op']}", case, f"model {str(out)[:600]} implementation {str(want)[:600]}")


# ---------------------------------------------------------------------------------------------------
# leg C: the ufunc / operator / method table against NumPy
# ---------------------------------------------------------------------------------------------------

UNARY = ["negative", "positive", "absolute", "fabs", "sign", "square", "sqrt", "cbrt", "exp", "expm1", "exp2", "log1p", "sin", "cos", "tan", "arcsin",
         "arctan", "sinh", "cosh", "tanh", "arcsinh", "floor", "ceil", "trunc", "rint", "isnan", "isinf", "isfinite", "signbit", "logical_not",
         "invert", "conj", "reciprocal", "deg2rad", "rad2deg"]
BINARY = ["add", "subtract", "multiply", "true_divide", "floor_divide", "power", "remainder", "maximum", "minimum", "fmax", "fmin", "hypot",
          "arctan2", "copysign", "nextafter", "logaddexp", "equal", "not_equal", "less", "less_equal", "greater", "greater_equal", "logical_and",
          "logical_or", "logical_xor", "bitwise_and", "bitwise_or", "bitwise_xor", "left_shift", "right_shift", "gcd", "lcm"]
DTYPES = [np.bool_, np.int8, np.uint8, np.int32, np.int64, np.uint64, np.float32, np.float64, np.complex128]


def typed_dense(rng, shape, dt, fill):
    k = np.dtype(dt).kind
    lo = 0 if k in "ub" else -3
    d = gen.dense(rng, shape, 0, lo=lo, hi=3).astype(dt)
    if k == "b":
        d = (rng.random(shape) < 0.4)
    if k in "fc" and rng.random() < 0.5:
        d = d / dt(2)
    f = np.asarray(fill).astype(dt)[()]
    mask = rng.random(shape) < float(rng.choice([0.0, 0.5, 0.8, 1.0]))
    return np.where(mask, f, d).astype(dt), f


def leg_c(ctx, rng, n):
    import sparse

    for it in range(n):
        res = gen.shape(rng, 0, 4, extents=[0, 1, 2, 2, 3, 3], max_size=120)
        arity = int(rng.choice([1, 2, 2, 2, 3]))
        if arity == 1:
            fname = str(rng.choice(UNARY + ["astype", "round", "clip", "real", "imag", "conj_m", "isnan_m", "isinf_m"]))
        elif arity == 2:
            fname = str(rng.choice(BINARY + ["op+", "op-", "op*", "op/", "op//", "op**", "op%", "op&", "op|", "op^", "op<", "op>=", "op==", "op!="]))
        else:
            fname = "where3"
        shapes = operand_shapes(rng, res, arity)
        dts = [rng.choice(DTYPES) for _ in range(arity)]
        if fname == "where3":
            dts[0] = np.bool_
        ops_np, ops_sp, desc = [], [], []
        have_sparse = False
        for j, (s, dt) in enumerate(zip(shapes, dts)):
            fill = rng.choice([0, 0, 0, 1, 2])
            d, f = typed_dense(rng, s, dt, fill)
            kind = str(rng.choice(["coo", "coo", "gcxs", "dok", "dense", "scalar", "scipy"]))
            if j == arity - 1 and not have_sparse:
                kind = str(rng.choice(["coo", "gcxs", "dok"]))
            if kind == "scalar":
                v = d.ravel()[0] if d.size else f
                ops_np.append(v); ops_sp.append(v); desc.append({"scalar": repr(v)})
                continue
            if kind == "dense":
                ops_np.append(d); ops_sp.append(d); desc.append({"dense": d.tolist(), "dtype": str(d.dtype)})
                continue
            if kind == "scipy" and (d.ndim != 2 or f != 0 or j == 0 or not have_sparse):
                kind = "coo"  # scipy.sparse operands only to the right of a sparse operand (its own operators win on the left)
            if kind == "scipy":
                import scipy.sparse as sp
                ops_np.append(d); ops_sp.append(sp.csr_matrix(d)); desc.append({"scipy": d.tolist(), "dtype": str(d.dtype)})
                continue
            if kind == "dok" and d.ndim == 0:
                kind = "coo"
            x, fd = gen.to_format(rng, d, kind, f)
            have_sparse = True
            ops_np.append(d); ops_sp.append(x); desc.append({"format": fd, "dense": d.tolist(), "dtype": str(d.dtype), "fill": repr(f)})
        if not have_sparse:
            continue
        case = {"func": fname, "operands": desc}
        thunks = build_call(fname, ops_sp, ops_np, rng)
        if thunks is None:
            continue
        it_, rt_, expect_fill = thunks
        ctx.case(f"C:{fname}", case)
        msg = compare_elemwise(it_, rt_, expect_fill, ops_sp, ops_np)
        if msg:
            ctx.fail("C", fname, case, msg, finding=findings.classify(PID, fname, case, msg))
        if it % 200 == 0:
            core.log(f"C01 leg C {it}/{n}")


def leg_c_broadcast(ctx, rng, n):
    """broadcast_to against np.broadcast_to: shape, fill, every element, canonical representation; and
    ValueError wherever NumPy rejects (stretched/incompatible extent, operand with more axes than the target)."""
    import sparse

    for _ in range(n):
        res = gen.shape(rng, 0, 4, extents=[0, 1, 2, 2, 3, 3], max_size=120)
        src, region = broadcast_to_source(rng, res)
        if int(np.prod(src, dtype=np.int64)) > 600:
            continue
        dt = rng.choice(DTYPES)
        d, f = typed_dense(rng, src, dt, rng.choice([0, 0, 1, 2]))
        x = sparse.COO.from_numpy(d, fill_value=f)
        how = str(rng.choice(["method", "function"]))
        case = {"func": "broadcast_to", "how": how, "region": region, "operand": {"dense": d.tolist(), "dtype": str(d.dtype), "fill": repr(f)},
                "shape": list(res)}
        ctx.case("C:broadcast_to", case)
        reg = ctx.cov.setdefault("broadcast_to_regions", {})
        reg["C:" + region] = reg.get("C:" + region, 0) + 1
        it_ = (lambda x=x, res=res: x.broadcast_to(res)) if how == "method" else (lambda x=x, res=res: sparse.broadcast_to(x, res))
        msg = oracle.compare(it_, lambda d=d, res=res: np.broadcast_to(d, res), fill=f, err_ok=("value",))
        if msg:
            ctx.fail("C", "broadcast_to", case, msg, finding=findings.classify(PID, "broadcast_to", case, msg))


OPS = {"op+": operator.add, "op-": operator.sub, "op*": operator.mul, "op/": operator.truediv, "op//": operator.floordiv, "op**": operator.pow,
       "op%": operator.mod, "op&": operator.and_, "op|": operator.or_, "op^": operator.xor, "op<": operator.lt, "op>=": operator.ge,
       "op==": operator.eq, "op!=": operator.ne}


def build_call(fname, sp_ops, np_ops, rng):
    """returns (impl thunk, numpy thunk, fill thunk | None)"""
    import sparse

    def fills():
        return [np.asarray(o.fill_value) if isinstance(o, sparse.SparseArray) else None for o in sp_ops]

    if fname in OPS:
        f = OPS[fname]
        return (lambda: f(*sp_ops)), (lambda: f(*np_ops)), f
    if fname == "where3":
        return (lambda: sparse.where(*sp_ops)), (lambda: np.where(*np_ops)), np.where
    if fname == "astype":
        dt = rng.choice([np.float64, np.int64, np.bool_, np.complex128, np.float32])
        return (lambda: sp_ops[0].astype(dt)), (lambda: np_ops[0].astype(dt)), (lambda a: a.astype(dt))
    if fname == "round":
        k = int(rng.integers(0, 2))
        return (lambda: sp_ops[0].round(k)), (lambda: np_ops[0].round(k)), (lambda a: np.round(a, k))
    if fname == "clip":
        lo, hi = -1, 2
        return (lambda: sp_ops[0].clip(lo, hi)), (lambda: np_ops[0].clip(lo, hi)), (lambda a: np.clip(a, lo, hi))
    if fname == "real":
        return (lambda: sp_ops[0].real), (lambda: np_ops[0].real), np.real
    if fname == "imag":
        return (lambda: sp_ops[0].imag), (lambda: np_ops[0].imag), np.imag
    if fname == "conj_m":
        return (lambda: sp_ops[0].conj()), (lambda: np.conj(np_ops[0])), np.conj
    if fname == "isnan_m":
        return (lambda: sparse.isnan(sp_ops[0])), (lambda: np.isnan(np_ops[0])), np.isnan
    if fname == "isinf_m":
        return (lambda: sparse.isinf(sp_ops[0])), (lambda: np.isinf(np_ops[0])), np.isinf
    uf = getattr(np, fname)
    mode = str(rng.choice(["np", "np", "sparse", "elemwise"]))
    if mode == "sparse" and hasattr(sparse, fname):
        sf = getattr(sparse, fname)
        return (lambda: sf(*sp_ops)), (lambda: uf(*np_ops)), uf
    if mode == "elemwise":
        return (lambda: sparse.elemwise(uf, *sp_ops)), (lambda: uf(*np_ops)), uf
    return (lambda: uf(*sp_ops)), (lambda: uf(*np_ops)), uf


def compare_elemwise(it, rt, fill_fn, sp_ops, np_ops):
    """the property's statement: same shape/dtype/elements as NumPy on the densified operands, fill = f(fills);
    when no sparse result exists: ValueError, or the correct dense array if a dense operand has the full shape"""
    import sparse

    with warnings.catch_warnings():
        warnings.simplefilter("ignore")
        try:
            ref = rt()
            ref_err = None
        except Exception as e:  # noqa: BLE001
            ref, ref_err = None, e
        try:
            got = it()
            got_err = None
        except Exception as e:  # noqa: BLE001
            got, got_err = None, e
    if ref_err is not None:
        if got_err is None:
            return f"numpy raises {type(ref_err).__name__} but the call returned {type(got).__name__}"
        if impl.err_class(got_err) not in ("value", "type"):
            return f"numpy raises {type(ref_err).__name__}; call raised {type(got_err).__name__}: {str(got_err)[:120]}"
        return None
    ref = np.asarray(ref)
    if got_err is not None:
        if isinstance(got_err, ValueError):
            # allowed only when no sparse result exists: f(fills, dense operands) is not constant and no dense operand has the result shape
            dense_shapes = [np.shape(o) for o in sp_ops if isinstance(o, np.ndarray)]
            if dense_shapes and not any(tuple(s) == ref.shape for s in dense_shapes):
                return None
            if dense_shapes and "would result in a dense array" in str(got_err):
                return f"raised ValueError although a dense operand has the full result shape {ref.shape}"
        return f"raised {type(got_err).__name__}: {str(got_err)[:160]} (numpy returns shape {ref.shape})"
    if isinstance(got, sparse.SparseArray):
        p = impl.canonical_problem(got) or impl.nofill_problem(got)
        if p:
            return f"result not canonical: {p}"
        d = got.todense()
    elif got is NotImplemented:
        return "returned NotImplemented"
    else:
        d = np.asarray(got)
    if d.shape != ref.shape:
        return f"shape {d.shape}, numpy {ref.shape}"
    if d.dtype != ref.dtype:
        return f"dtype {d.dtype}, numpy {ref.dtype}"
    # the sign of a zero is compared only when no dense operand takes part: with a dense operand the library decides
    # "f(fill values, dense values) is constant" with a loose (==) comparison by design, so -0.0 and +0.0 fill positions merge
    strict = not any(isinstance(o, np.ndarray) for o in sp_ops)
    if not oracle.same_values(d, ref, signed_zero=strict):
        return f"values differ: got {d.tolist()!r:.200} numpy {ref.tolist()!r:.200}"
    return None


# ---------------------------------------------------------------------------------------------------
# leg C, programs: in-place / out= forms and short sequences; every live array is compared with its NumPy twin
# ---------------------------------------------------------------------------------------------------

def leg_c_out_dtype(ctx, rng, n):
    """ufunc(x, y, out=o, dtype=t) with t DIFFERENT from o.dtype (and casting= given or not): afterwards `o` has its own dtype and
    NumPy's values (the loop runs in t, the result is cast into o), or both sides raise; the other operands are untouched"""
    import sparse

    pairs = [("float32", "float64"), ("float64", "float32"), ("int8", "int64"), ("int64", "int8"), ("int32", "float64"), ("float64", "complex128"),
             ("complex128", "float64"), ("int16", "int32"), ("uint8", "int64")]
    ufs = [np.add, np.multiply, np.subtract, np.maximum]
    for it in range(n):
        shp = gen.shape(rng, 1, 3, extents=[1, 2, 3, 4], max_size=40)
        ot, lt = pairs[int(rng.integers(len(pairs)))]
        uf = ufs[int(rng.integers(len(ufs)))]
        if np.dtype(lt).kind == "c" and uf is np.maximum:
            uf = np.add
        da = (gen.dense(rng, shp, 0, lo=0 if np.dtype(ot).kind == "u" else -3, hi=3) * 25).astype(ot)  # 50 + 75 leaves int8
        db = (gen.dense(rng, shp, 0, lo=0 if np.dtype(ot).kind == "u" else -3, hi=3) * 25).astype(ot)
        fmt = str(rng.choice(["coo", "gcxs", "dok"]))
        kw = {"dtype": np.dtype(lt)}
        if rng.random() < 0.4:
            kw["casting"] = str(rng.choice(["same_kind", "unsafe", "safe"]))
        mk = lambda d: gen.to_format(rng, d, fmt, 0)[0]  # noqa: E731
        a, b, o = mk(da), mk(db), mk(np.zeros(shp, dtype=ot))
        do = np.zeros(shp, dtype=ot)
        case = {"ufunc": uf.__name__, "format": fmt, "out_dtype": ot, "dtype": lt, "casting": kw.get("casting"), "a": da.tolist(), "b": db.tolist()}
        ctx.case(f"C:out+dtype:{uf.__name__}", case, nontrivial=True)
        with warnings.catch_warnings(), np.errstate(all="ignore"):
            warnings.simplefilter("ignore")
            try:
                uf(da, db, out=do, **kw)
                nerr = None
            except Exception as e:  # noqa: BLE001
                nerr = e
            try:
                r = uf(a, b, out=o, **kw)
                serr = None
            except Exception as e:  # noqa: BLE001
                serr = e
        msg = None
        if nerr is not None:
            if serr is None:
                msg = f"NumPy raises {type(nerr).__name__} ({str(nerr)[:80]}) but the call returned"
            elif not isinstance(serr, (TypeError, ValueError)):
                msg = f"NumPy raises {type(nerr).__name__}; the call raised {type(serr).__name__}: {str(serr)[:100]}"
        elif serr is not None:
            msg = f"raised {type(serr).__name__}: {str(serr)[:120]} (NumPy stores {do.tolist()!r:.80} in out)"
        else:
            got = o.todense()
            if r is not o:
                msg = "the call did not return the out= array"
            elif got.dtype != do.dtype:
                msg = f"out= array changed its dtype to {got.dtype} (it was {do.dtype}; NumPy keeps it)"
            elif not oracle.same_values(got, do):
                msg = f"out= holds {got.tolist()!r:.120}, NumPy's out holds {do.tolist()!r:.120}"
            elif not (np.array_equal(a.todense(), da) and np.array_equal(b.todense(), db)):
                msg = "an input operand changed"
        if msg:
            ctx.fail("C", f"out+dtype:{uf.__name__}", case, msg, finding=findings.classify(PID, "out+dtype", case, msg))


def leg_c_programs(ctx, rng, n):
    import sparse

    for it in range(n):
        shp = gen.shape(rng, 1, 3, extents=[1, 2, 3, 4], max_size=60)
        dt = rng.choice([np.float64, np.int64, np.float32, np.complex128])
        fillraw = rng.choice([0, 0, 1])
        d, f = typed_dense(rng, shp, dt, fillraw)
        if np.dtype(dt).kind == "f":
            d = np.where(rng.random(shp) < 0.3, -np.abs(d), d).astype(dt)  # negative entries: x*0.0 gives -0.0
        fmt = str(rng.choice(["coo", "gcxs", "dok"]))
        x, fd = gen.to_format(rng, d, fmt, f)
        live = {"x": (x, d.copy())}
        prog = []
        names = ["y", "z", "w"]
        failed = None
        for step_i in range(int(rng.integers(2, 5))):
            src = str(rng.choice(list(live)))
            a, da = live[src]
            op = str(rng.choice(["astype_same", "copy_op", "mul0", "neg", "inplace_mul", "inplace_add", "out_neg", "ceil_half", "recip", "copysign", "add_self", "round"]))
            tgt = names[len(live) - 1] if len(live) <= len(names) else src
            with warnings.catch_warnings():
                warnings.simplefilter("ignore")
                try:
                    if op == "astype_same":
                        r, dr = a.astype(a.dtype), da.astype(da.dtype)
                    elif op == "copy_op":
                        r, dr = +a, +da
                    elif op == "mul0":
                        r, dr = a * da.dtype.type(0), da * da.dtype.type(0)
                    elif op == "neg":
                        r, dr = -a, -da
                    elif op == "ceil_half" and da.dtype.kind == "f":
                        r, dr = np.ceil(a / 2), np.ceil(da / 2)
                    elif op == "recip" and da.dtype.kind in "fc":
                        r, dr = 1 / a, 1 / da
                    elif op == "copysign" and da.dtype.kind == "f":
                        r, dr = np.copysign(1, a), np.copysign(1, da)
                    elif op == "add_self":
                        r, dr = a + a, da + da
                    elif op == "round" and da.dtype.kind in "fc":
                        r, dr = a.round(0), da.round(0)
                    elif op == "inplace_mul":
                        a *= 2; da *= 2; r, dr, tgt = a, da, src
                    elif op == "inplace_add":
                        a += a; da += da; r, dr, tgt = a, da, src
                    elif op == "out_neg":
                        np.negative(a, out=a); np.negative(da, out=da); r, dr, tgt = a, da, src
                    else:
                        continue
                except Exception as e:  # noqa: BLE001
                    failed = f"step {op} on {src} raised {type(e).__name__}: {str(e)[:120]}"
                    prog.append(f"{tgt} = {op}({src})")
                    break
            prog.append(f"{tgt} = {op}({src})")
            live[tgt] = (r, dr)
            # compare EVERY live array (an aliasing slip shows up on an array the step did not name)
            for nm, (arr, den) in live.items():
                got = arr.todense() if isinstance(arr, sparse.SparseArray) else np.asarray(arr)
                if got.shape != den.shape or got.dtype != den.dtype or not oracle.same_values(got, den, signed_zero=True):
                    failed = f"after `{prog[-1]}` array {nm} is {got.tolist()!r:.160} but NumPy's {nm} is {den.tolist()!r:.160} (dtype {got.dtype}/{den.dtype})"
                    break
            if failed:
                break
        case = {"format": fd, "dtype": str(np.dtype(dt)), "fill": repr(f), "dense": d.tolist(), "program": prog}
        ctx.case(f"C:program:{fmt}", case)
        if failed:
            ctx.fail("C", "program", case, failed, finding=findings.classify(PID, "program", case, failed))


def run(ctx):
    ctx.trusted = TRUSTED
    ctx.assumptions = ["NumPy's ufuncs on the densified operands are the specification"]
    core.prove(ctx, PID, uses=["bcastOk", "bcastDim"])
    t1_validate(ctx)
    rng = gen.rng_for(ctx.seed, PID)
    leg_a(ctx, rng, 700 if ctx.quick else 7000)
    leg_c(ctx, rng, 700 if ctx.quick else 8000)
    leg_c_programs(ctx, gen.rng_for(ctx.seed, PID + 'programs'), 250 if ctx.quick else 3000)
    leg_c_out_dtype(ctx, gen.rng_for(ctx.seed, PID + 'outdtype'), 120 if ctx.quick else 2000)
    leg_c_broadcast(ctx, gen.rng_for(ctx.seed, PID + ":broadcast_to"), 250 if ctx.quick else 4000)
    ctx.cov["rule"] = ("T1: all shape pairs (<=3 axes, extents 0..3) x is_result through the generated rule; leg A: broadcast_to (admissible targets, incompatible "
                       "extents, operands with more axes than the target) and 20 scalar functions "
                       "(arity 1-3) on COO/dense/scalar operand mixes with broadcastable shapes, model vs implementation on representation and on the "
                       "sparse/dense/ValueError decision; leg C: 67 ufuncs, 14 operators, 8 methods, where x 9 dtypes x COO/GCXS/DOK/scipy/ndarray/scalar "
                       "vs NumPy, and COO.broadcast_to / sparse.broadcast_to vs np.broadcast_to over the same three regions (ValueError wherever NumPy raises); "
                       "non-trivial = at least one sparse operand; distinct by content hash")
    import extra_ops  # operation tables closing the measured coverage gaps (tools/coverage_audit.py; coverage/API_COVERAGE.md)
    extra_ops.run(ctx, PID)

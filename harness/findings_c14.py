"""Regions of the known findings of property C14 (see KNOWN_FINDINGS.txt).

classify(name, case, msg) -> finding id | None.  `name` is the leg-C family, `case` the case record
written by harness/c14.py, `msg` the observed failure.  Each region is the decidable `Excluded…`
condition of the corresponding Lean statement (Props/C14.lean) or, for the two container-level
findings, a predicate on the damaged file; anything outside is reported as a VIOLATION.
"""
from __future__ import annotations

ZIP_MIN_READ = 4096  # zipfile.ZipExtFile.MIN_READ_SIZE: a member smaller than this is read (and its CRC checked) in one go


def classify(name, case, msg):
    arr = case.get("array", {}) if isinstance(case, dict) else {}
    cls = arr.get("class")
    if name == "npz-roundtrip":
        # Excluded (Props/C14.lean), first disjunct: instance of a GCXS subclass while save_npz tests `type(m) is GCXS`
        if cls in ("CSR", "CSC") and "RuntimeError" in msg and "does not contain a valid sparse matrix" in msg:
            return "F-npz-gcxs-subclass"
        # Excluded, second disjunct: compressed_axes is None (fewer than two dimensions), stored as an object array
        if cls == "GCXS" and arr.get("compressed_axes", 0) is None and len(arr.get("shape", [0, 0])) <= 1 \
                and "Object arrays cannot be loaded" in msg:
            return "F-npz-gcxs-none-axes"
    if name == "njit-identity":
        # ¬ fits coords_dtype (max shape)  (box_unbox_counterexample)
        if cls == "COO" and case.get("shape_fits_coords_dtype") is False:
            return "F-numba-shape-dtype"
    if name == "njit-constructor":
        # same root cause: the struct's shape tuple has the coords dtype, the argument tuple is intp
        if case.get("coords_bits") not in (None, 64) and "Invalid store" in msg:
            return "F-numba-shape-dtype"
    if name == "truncation":
        # the strict prefix is itself a zip archive with data in front (h_single_dir of truncation_rejected is false)
        if case.get("prefix_is_archive_with_leading_data") and "loaded" in msg:
            return "F-npz-embedded-archive"
    if name == "corruption":
        # the damaged byte is in the header part of a member too large to be read in one chunk (h_crc is false there)
        if case.get("member_stored_bytes", 0) > ZIP_MIN_READ and case.get("in_member_header") and "different array" in msg:
            return "F-npz-crc-not-verified"
    return None

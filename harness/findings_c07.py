"""Regions of the known C07 findings.  Narrow on purpose: anything else that fails is a VIOLATION.

No region is open: F-diag-fill (diagonal/diagonalize dropped the fill) and F-sum-nonfinite-fill (add-reductions added fill*0 = NaN
to lanes without unstored elements) were repaired upstream; their witnesses stay in harness/c07.py and must pass."""
from __future__ import annotations


def classify(name, case, msg):
    return None

"""Regions of the known C07 findings.  Narrow on purpose: anything else that fails is a VIOLATION."""
from __future__ import annotations


def classify(name, case, msg):
    op = case.get("op", name) if isinstance(case, dict) else name
    base = op.split("[")[0]
    # F-sum-nonfinite-fill: reductions with np.add add `fill * (number of unstored elements of the lane)`; for a lane without
    # unstored elements and a fill in {NaN, +inf, -inf} that is fill * 0 = NaN.  Region: add-reductions over an axis, non-finite
    # fill, the answer is NaN exactly in such lanes and right everywhere else (checked on the case by the harness).
    if base in ("sum", "mean", "var", "std", "nansum", "nanmean", "nanreduce", "vecdot") and msg.startswith("silent:") \
            and case.get("fill") in ("nan", "+inf", "-inf") and case.get("wrong_only_in_full_lanes") is True:
        return "F-sum-nonfinite-fill"
    return None

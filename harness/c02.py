"""C02 — indexing agrees with NumPy for every index expression."""
from __future__ import annotations

import itertools

import numpy as np

import core
import boundscheck
import findings
import gen
import impl
import oracle

PID = "C02"
TRUSTED = [
    "Lean 4 kernel; axioms propext, Classical.choice, Quot.sound only (audited per theorem each run)",
    "tie T1: Gen.replaceNone/posifySlice/posifyInt/clipSlice/checkIndexInt regenerated from _slicing.py each run by tools/py2lean.py; "
    "the translator is validated each run by executing the generated definitions and the Python originals on an exhaustive small grid",
    "tie T2: hand model SparseV.Model.Getitem (normalize_index tuple logic, COO getitem incl. one/adjacent advanced indices) compared with the "
    "implementation on representation (coords order, data, shape, fill, scalar-vs-array, error class)",
    "Spec.pyAdjust is a transcription of CPython's PySlice_AdjustIndices, validated each run against slice.indices()",
    "tie T2 (GCXS): hand model SparseV.Model.GcxsIndex (_getitem, get_single_element, get_array_selection, get_slicing_selection = the loops of "
    "Model.Loops, convert_to_flat, is_sorted) compared with x[key] on the returned (data, indices, indptr, shape, compressed_axes, fill) and, "
    "kernel by kernel, with every call the real code makes to convert_to_flat / get_*_selection / is_sorted / uncompress_dimension (recorded "
    "arguments replayed through the model) plus direct calls of the jitted kernels on random well-formed CSR triples",
    "GCXS keys containing None, several index arrays, 0-d/1-d GCXS arrays and x[i, j, ...] go through COO in the real code: NumPy oracle only; DOK reads: oracle only",
]


# ---------------------------------------------------------------------------------------------------
# T1 validation: generated definitions vs the Python originals
# ---------------------------------------------------------------------------------------------------

def t1_validate(ctx, full):
    from sparse.numba_backend import _slicing as S

    vals = [None, *range(-9, 10)] if full else [None, -9, -8, -4, -2, -1, 0, 1, 2, 3, 7, 8, 9]
    dims = range(0, 9) if full else [0, 1, 2, 5, 8]
    reqs, want = [], []
    for a, b, c, d in itertools.product(vals, vals, vals, dims):
        if c == 0:
            continue
        reqs.append(["normalize_slice", a, b, c, d])
        sl = S.clip_slice(S.posify_index(d, S.replace_none(slice(a, b, c), d)), d)
        want.append([sl.start, sl.stop, sl.step])
        reqs.append(["py_adjust", a, b, 1 if c is None else c, d])
        want.append(list(slice(a, b, c).indices(d)))
    outs = ctx.driver.run(reqs)
    bad = 0
    for r, w, o in zip(reqs, want, outs):
        if o.get("ok") != w:
            bad += 1
            if bad <= 3:
                ctx.fail("T1", r[0], r, f"generated/spec definition gives {o}, Python gives {w}")
    # integers
    reqs, want = [], []
    for i, d in itertools.product(range(-12, 13), range(0, 9)):
        reqs.append(["normalize_int", i, d])
        try:
            S.check_index(i, d)
            want.append({"ok": S.posify_index(d, i)})
        except IndexError:
            want.append({"err": "index"})
    outs2 = ctx.driver.run(reqs)
    for r, w, o in zip(reqs, want, outs2):
        if o != w:
            ctx.fail("T1", r[0], r, f"generated definition gives {o}, Python gives {w}")
    ctx.notes["translator_grid"] = {"slices": len(outs) // 2, "ints": len(outs2), "exhaustive_box": "parts in [-9,9]+None, dim<=8" if full else "subset"}
    ctx.cov["evaluations"] += len(outs) + len(outs2)


# ---------------------------------------------------------------------------------------------------
# index generator (the grammar of the property)
# ---------------------------------------------------------------------------------------------------

def rand_index(rng, shp, allow_adv=True, allow_err=0.1):
    """returns (python index tuple, json form).  Grammar: ints, slices, None, Ellipsis, and at most one block of
    adjacent advanced entries (one 1-D int/bool array, or several equal-length int arrays, ints adjacent to them)."""
    nd = len(shp)
    n_axes = int(rng.integers(0, nd + 1)) if nd else 0
    # position of the Ellipsis among the axis-consuming entries (None = no Ellipsis)
    ell = int(rng.integers(0, n_axes + 1)) if rng.random() < 0.4 else None
    axes = list(range(n_axes)) if ell is None else list(range(ell)) + list(range(nd - (n_axes - ell), nd))
    use_adv = allow_adv and n_axes > 0 and rng.random() < 0.35
    blk_lo = blk_hi = -1
    if use_adv:
        blk_lo = int(rng.integers(0, n_axes))
        blk_hi = blk_lo + int(rng.integers(1, min(3, n_axes - blk_lo) + 1))  # exclusive
        if ell is not None and blk_lo < ell < blk_hi:  # must not straddle the Ellipsis
            blk_hi = ell
    L = int(rng.integers(0, 5))
    if use_adv and any(shp[axes[p]] == 0 for p in range(blk_lo, blk_hi)):
        L = 0
    items = []  # (python entry, json, in_block)
    n_arrays = 0
    for p in range(n_axes):
        dim = shp[axes[p]]
        if blk_lo <= p < blk_hi:
            kind = "arr" if (p == blk_lo or rng.random() < 0.6) else "int"
            if kind == "int" and dim == 0:
                kind = "arr"
            if kind == "arr" and blk_hi - blk_lo == 1 and rng.random() < 0.3:
                b = rng.random(dim) < 0.5
                items.append((np.asarray(b, dtype=bool), ["b", [bool(v) for v in b]], True))
            elif kind == "arr":
                a = rng.integers(-dim, dim, size=L) if dim else np.zeros(0, dtype=np.int64)
                if rng.random() < allow_err / 2 and L:
                    a[int(rng.integers(L))] = dim + 1
                items.append((np.asarray(a, dtype=np.int64), ["a", [int(v) for v in a]], True))
            else:
                i = int(rng.integers(-dim, dim))
                items.append((i, ["i", i], True))
        else:
            if rng.random() < 0.3 and not use_adv:  # an int away from the block would move the advanced axis
                i = int(rng.integers(-dim, dim)) if dim else 0
                if rng.random() < allow_err or dim == 0:
                    i = int(rng.choice([dim, -dim - 1, dim + 3]))
                items.append((i, ["i", i], False))
            else:
                sl = gen.rand_slice(rng, dim)
                items.append((sl, ["s", sl.start, sl.stop, sl.step], False))
    if ell is not None:
        items.insert(ell, (Ellipsis, ["e"], False))
    # sprinkle None outside the interior of the advanced block
    for _ in range(int(rng.integers(0, 3))):
        if rng.random() < 0.5:
            pos = int(rng.integers(0, len(items) + 1))
            left_in = pos > 0 and items[pos - 1][2]
            right_in = pos < len(items) and items[pos][2]
            if not (left_in and right_in):
                items.insert(pos, (None, ["n"], False))
    return tuple(it[0] for it in items), [it[1] for it in items]


def idx_repr(js):
    return js


def leg_a(ctx, rng, n):
    import sparse

    reqs, metas = [], []
    for _ in range(n):
        shp = gen.shape(rng, 0, 4)
        fill = int(rng.choice([0, 0, 2]))
        x = sparse.COO.from_numpy(gen.dense(rng, shp, fill), fill_value=fill)
        idx, js = rand_index(rng, shp)
        xj = impl.coo_json(x)
        case = {"x": xj, "index": js}
        try:
            r = x[idx]
            if isinstance(r, sparse.COO):
                want = {"ok": impl.coo_json(r)}
            else:
                want = {"ok": {"scalar": int(r)}}
        except Exception as e:  # noqa: BLE001
            want = {"err": impl.err_class(e)}
        reqs.append(["getitem", xj, js])
        metas.append((case, want))
    outs = ctx.driver.run(reqs)
    for (case, want), out in zip(metas, outs):
        ctx.case("A:getitem", case, nontrivial=bool(case["x"]["data"]))
        fam = ctx.cov.setdefault("index_entry_kinds", {})
        for e in case["index"]:
            fam[e[0]] = fam.get(e[0], 0) + 1
        if "err" in want:
            ctx.count("A_error_cases")
        if out != want:
            ctx.fail("A", "model:getitem", case, f"model {out} implementation {want}")


# ---------------------------------------------------------------------------------------------------
# GCXS: model of _compressed/indexing.py vs the implementation, public level and kernel level
# ---------------------------------------------------------------------------------------------------

def gcxs_index(rng, shp):
    """an index expression that stays on the `_getitem` path of GCXS `getitem`: no None, at most one index array (int or
    bool), not (all integers + Ellipsis); drawn from the property's grammar (rand_index)"""
    if rng.random() < 0.08 and all(d > 0 for d in shp):  # all integers: get_single_element
        vals = [int(rng.integers(-d, d)) for d in shp]
        if rng.random() < 0.15:
            vals[int(rng.integers(len(vals)))] = int(rng.choice([shp[0] + 7, -shp[0] - 9]))
        return tuple(vals), [["i", v] for v in vals]
    for _ in range(200):
        idx, js = rand_index(rng, shp)
        kinds = [e[0] for e in js]
        if "n" in kinds or sum(k in ("a", "b") for k in kinds) > 1:
            continue
        n_axes = sum(k in ("i", "s", "a", "b") for k in kinds)
        if "e" in kinds and n_axes == len(shp) and all(k in ("i", "e") for k in kinds):
            continue
        return idx, js
    return (slice(None),), [["s", None, None, None]]


class KernelTrace:
    """records every call `x[key]` makes to the numba kernels of _compressed/indexing.py (arguments and results)"""

    NAMES = ("convert_to_flat", "get_slicing_selection", "get_array_selection", "is_sorted", "uncompress_dimension")

    def __init__(self):
        from sparse.numba_backend._compressed import indexing as CI

        self.CI = CI
        self.calls = []
        self.saved = {}

    def __enter__(self):
        for n in self.NAMES:
            f = getattr(self.CI, n)
            self.saved[n] = f

            def wrap(*a, _f=f, _n=n):
                r = _f(*a)
                self.calls.append((_n, a, r))
                return r
            setattr(self.CI, n, wrap)
        return self

    def __exit__(self, *exc):
        for n, f in self.saved.items():
            setattr(self.CI, n, f)


def _ints(a):
    return [int(v) for v in np.asarray(a).reshape(-1).tolist()]


def kernel_requests(calls):
    """driver requests + expected answers for the recorded kernel calls"""
    out = []
    for name, a, r in calls:
        if name == "convert_to_flat":
            inds, shape = [_ints(v) for v in a[0]], _ints(a[1])
            if any(v < 0 for l in inds for v in l):
                continue
            out.append(("kernel:convert_to_flat", ["gx_convert_to_flat", inds, shape], {"ok": _ints(r)}, {"inds": inds, "shape": shape}))
        elif name in ("get_slicing_selection", "get_array_selection"):
            data, indices, _ptr, starts, ends, col = a
            op = "gx_slicing_selection" if name == "get_slicing_selection" else "gx_array_selection"
            rd, ri, rp = r
            case = {"indices": _ints(indices), "starts": _ints(starts), "ends": _ints(ends), "col": _ints(col)}
            out.append((f"kernel:{name}", [op, case["indices"], case["starts"], case["ends"], case["col"]],
                        {"indices": _ints(ri), "indptr": _ints(rp), "data": _ints(rd), "arr_data": _ints(data)}, case))
        elif name == "is_sorted":
            xs = _ints(a[0])
            out.append(("kernel:is_sorted", ["gx_is_sorted", xs], {"ok": bool(r)}, {"arr": xs}))
        elif name == "uncompress_dimension":
            ip = _ints(a[0])
            out.append(("kernel:uncompress_dimension", ["uncompress", ip], {"ok": _ints(r)}, {"indptr": ip}))
    return out


def check_kernel(ctx, fam, req, want, case, out):
    ctx.case("A:" + fam, case)
    if "arr_data" in want:  # selection kernels: the model returns positions into arr_data
        if "ok" not in out:
            ctx.fail("A", fam, case, f"model {out} implementation {want}")
            return
        m = out["ok"]
        got = {"indices": m["indices"], "indptr": m["indptr"], "data": [want["arr_data"][p] if p < len(want["arr_data"]) else None for p in m["ind_list"]]}
        ref = {k: want[k] for k in ("indices", "indptr", "data")}
        if got != ref:
            ctx.fail("A", fam, case, f"model {got} implementation {ref}")
    elif out != want:
        ctx.fail("A", fam, case, f"model {out} implementation {want}")


def rand_csr(rng):
    """a random well-formed CSR triple (rows of strictly increasing column numbers, empty rows, zero extents)"""
    R, C = int(rng.choice([0, 1, 2, 3, 5])), int(rng.choice([0, 1, 2, 4, 7, 12]))
    indptr, indices = [0], []
    for _ in range(R):
        k = int(rng.integers(0, C + 1)) if rng.random() < 0.8 else 0
        indices += sorted(int(v) for v in rng.choice(C, size=k, replace=False)) if k else []
        indptr.append(len(indices))
    return R, C, indptr, indices


def leg_gcxs(ctx, rng, n_public, n_kernel):
    import sparse
    import gx
    from sparse.numba_backend._compressed import indexing as CI

    # ---- public level, with the kernel calls of each evaluation recorded
    reqs, metas, kreqs = [], [], []
    for _ in range(n_public):
        x, d, fill, route = gx.rand_gcxs(rng)
        idx, js = gcxs_index(rng, x.shape)
        xj = gx.gcxs_json(x)
        case = {"x": xj, "route": route, "index": js}
        with KernelTrace() as tr:
            try:
                want = gx.result_json(x[idx])
            except Exception as e:  # noqa: BLE001
                want = {"err": impl.err_class(e)}
        reqs.append(["gx_getitem", xj, js])
        metas.append((case, want))
        kreqs += kernel_requests(tr.calls)
    outs = ctx.driver.run(reqs)
    for (case, want), out in zip(metas, outs):
        ctx.case("A:gcxs_getitem", case, nontrivial=bool(case["x"]["data"]))
        ctx.count("gcxs_public_" + ("err" if "err" in want else "scalar" if "scalar" in want["ok"] else "array"))
        fam = ctx.cov.setdefault("gcxs_index_entry_kinds", {})
        for e in case["index"]:
            k = e[0] + ("-" if e[0] == "s" and (e[3] or 1) < 0 else "")
            fam[k] = fam.get(k, 0) + 1
        if out != want:
            ctx.fail("A", "model:gcxs_getitem", case, f"model {str(out)[:400]} implementation {str(want)[:400]}")
    # ---- the recorded kernel calls, replayed through the model
    kouts = ctx.driver.run([k[1] for k in kreqs])
    for (fam, req, want, case), out in zip(kreqs, kouts):
        check_kernel(ctx, fam, req, want, case, out)
    # ---- direct calls of the jitted kernels on random well-formed CSR triples
    dreqs = []
    for _ in range(n_kernel):
        R, C, indptr, indices = rand_csr(rng)
        data = np.arange(100, 100 + len(indices), dtype=np.int64)
        rows = [int(v) for v in rng.integers(0, R, size=int(rng.integers(0, 5)))] if R else []
        k = int(rng.integers(0, 6))
        cols = [int(v) for v in rng.integers(0, max(C, 1), size=k)] if C else []
        if rng.random() < 0.5:
            cols = sorted(set(cols))
        sorted_cols = all(b > a for a, b in zip(cols, cols[1:]))
        ip = np.asarray(indptr, dtype=np.int64)
        starts, ends = ip[:-1][rows] if R else ip[:0], ip[1:][rows] if R else ip[:0]
        names = ["get_array_selection"] + (["get_slicing_selection"] if sorted_cols else [])
        calls = []
        for nm in names:
            out_ptr = np.empty(len(rows) + 1, dtype=np.int64)
            out_ptr[0] = 0
            a = (data, np.asarray(indices, dtype=np.int64), out_ptr, np.asarray(starts, dtype=np.int64), np.asarray(ends, dtype=np.int64),
                 np.asarray(cols, dtype=np.int64))
            calls.append((nm, a, getattr(CI, nm)(*a)))
        if len(calls) == 2:
            ra, rs = calls[0][2], calls[1][2]
            if not all(np.array_equal(u, v) for u, v in zip(ra, rs)):
                ctx.fail("A", "kernel:agree", {"indptr": indptr, "indices": indices, "rows": rows, "cols": cols},
                         "get_array_selection and get_slicing_selection differ on a sorted column list")
        dreqs += kernel_requests(calls)
        arr = [int(v) for v in rng.integers(-3, 6, size=int(rng.integers(0, 5)))]
        dreqs += kernel_requests([("is_sorted", (np.asarray(arr, dtype=np.int64),), CI.is_sorted(np.asarray(arr, dtype=np.int64)))])
    douts = ctx.driver.run([k[1] for k in dreqs])
    for (fam, req, want, case), out in zip(dreqs, douts):
        check_kernel(ctx, fam + ":direct", req, want, case, out)
    ctx.notes["gcxs_leg"] = {"public": n_public, "recorded_kernel_calls": len(kreqs), "direct_kernel_calls": len(dreqs)}


def leg_c(ctx, rng, n, formats=("coo", "gcxs", "dok")):
    import sparse

    for k in range(n):
        shp = gen.shape(rng, 0, 4)
        fill = int(rng.choice([0, 0, 3]))
        d = gen.dense(rng, shp, fill)
        for fmt in formats:
            if fmt == "dok" and len(shp) == 0:
                continue
            x, fdesc = gen.to_format(rng, d, fmt, fill)
            for _ in range(4):
                idx, js = rand_index(rng, shp)
                case = {"format": fdesc, "shape": list(shp), "fill": fill, "dense": d.tolist(), "index": js}
                ctx.case(f"C:getitem:{fmt}", case, nontrivial=bool(d.size))
                msg = oracle.compare(lambda: x[idx], lambda: d[idx], fill=np.asarray(fill, dtype=d.dtype), scalar_rule=True,
                                     err_ok=("index",))
                if msg:
                    ctx.fail("C", "getitem", case, msg, finding=findings.classify(PID, "getitem", case, msg))
        if k % 100 == 0:
            core.log(f"C02 leg C {k}/{n}")


def leg_c_long_arrays(ctx, rng, n):
    """an index array with MORE entries than a narrow coordinate type can count (so necessarily with repeats): the result axis is
    longer than every axis of the operand; operands with int8 / uint8 / default coordinates in every format"""
    import sparse

    for k in range(n):
        shp = gen.shape(rng, 1, 3, extents=[1, 2, 3, 5, 7])
        if 0 in shp:
            continue
        fill = int(rng.choice([0, 0, 3]))
        d = gen.dense(rng, shp, fill)
        idt = [np.int8, np.uint8, None][int(rng.integers(3))]
        base = sparse.COO.from_numpy(d, fill_value=fill)
        if idt is not None:
            base = sparse.COO(base.coords.astype(idt), base.data, shape=base.shape, fill_value=fill, sorted=True, has_duplicates=False)
        for fmt in ("coo", "gcxs", "dok"):
            if fmt == "coo":
                x = base
            elif fmt == "dok":
                x = sparse.DOK.from_coo(base)
            else:
                ch = gen.compressed_axes_choices(len(shp))
                ca = ch[int(rng.integers(len(ch)))]
                try:
                    x = sparse.GCXS.from_coo(base, compressed_axes=ca, idx_dtype=idt) if ca is not None else sparse.GCXS.from_coo(base, idx_dtype=idt)
                except ValueError:  # the requested narrow type cannot hold this array's compressed shape / nnz: refused cleanly (C15's subject)
                    continue
            ax = int(rng.integers(len(shp)))
            m = int(rng.choice([127, 128, 130, 255, 256, 260, 300]))
            arr = rng.integers(-shp[ax], shp[ax], size=m)
            idx = tuple([slice(None)] * ax + [arr] + ([rand_simple(rng, e) for e in shp[ax + 1:]] if rng.random() < 0.5 else []))
            case = {"format": fmt, "idx_dtype": str(np.dtype(idt)) if idt else "default", "shape": list(shp), "fill": fill, "dense": d.tolist(),
                    "axis": ax, "array_len": m, "array": arr.tolist()[:12] + ["..."], "rest": repr(idx[ax + 1:]),
                    "index": [["s", None, None, None]] * ax + [["a", arr.tolist()]] + [["i", e] if isinstance(e, int) else ["s", e.start, e.stop, e.step] for e in idx[ax + 1:]]}
            ctx.case(f"C:long-array:{fmt}", case, nontrivial=True)
            msg = oracle.compare(lambda: x[idx], lambda: d[idx], fill=np.asarray(fill, dtype=d.dtype), err_ok=("index",))
            if msg:
                ctx.fail("C", "getitem", case, msg, finding=findings.classify(PID, "getitem", case, msg))


def rand_simple(rng, e):
    r = rng.random()
    if r < 0.4:
        return slice(None)
    if r < 0.7:
        return int(rng.integers(-e, e))
    return slice(None, None, -1)


def run(ctx):
    ctx.trusted = TRUSTED
    ctx.assumptions = ["NumPy indexing is the specification", "index expressions are drawn from the grammar stated in the property"]
    core.prove(ctx, PID, extra_targets=["SparseV.Props.C02Gcxs"], uses=["replaceNone", "posifySlice", "posifyInt", "clipSlice", "checkIndexInt"])
    t1_validate(ctx, full=not ctx.quick)
    rng = gen.rng_for(ctx.seed, PID)
    leg_a(ctx, rng, 600 if ctx.quick else 6000)
    leg_gcxs(ctx, gen.rng_for(ctx.seed, PID + ":gcxs"), 500 if ctx.quick else 6000, 400 if ctx.quick else 5000)
    leg_c(ctx, rng, 150 if ctx.quick else 2000)
    leg_c_long_arrays(ctx, rng, 40 if ctx.quick else 600)
    boundscheck.leg(ctx, PID, 25 if ctx.quick else 400, classify=findings.classify)  # memory safety of the compiled kernels
    ctx.cov["rule"] = ("T1 grid: (start,stop,step,dim) boxes, generated vs Python; leg A: random COO (rank 0-4) x random index tuple from the "
                       "grammar, model vs implementation on representation; leg A (GCXS): random GCXS arrays of rank 2-4 (every compressed_axes, CSR/CSC, unsorted "
                       "constructor input, change_compressed_axes, zero extents, empty rows) x index tuples on the _getitem path (ints, slices of both signs, one "
                       "int/bool index array, Ellipsis), model vs x[key] on (data, indices, indptr, shape, compressed_axes, fill), every recorded kernel call "
                       "replayed through the model, plus direct kernel calls on random CSR triples; leg C: COO/GCXS/DOK vs NumPy incl. scalar rule and IndexError; "
                       "non-trivial = array stores at least one element; distinct by content hash")
    import extra_ops  # operation tables closing the measured coverage gaps (tools/coverage_audit.py; coverage/API_COVERAGE.md)
    extra_ops.run(ctx, PID)

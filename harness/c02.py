"""C02 — indexing agrees with NumPy for every index expression."""
from __future__ import annotations

import itertools

import numpy as np

import core
import findings
import gen
import impl
import oracle

PID = "C02"
TRUSTED = [
    "Lean 4 kernel; axioms propext, Classical.choice, Quot.sound only (audited per theorem each run)",
    "tie T1: Gen.replaceNone/posifySlice/posifyInt/clipSlice/checkIndexInt regenerated from _slicing.py each run by tools/py2lean.py; "
    "the translator is validated each run by executing the generated definitions and the Python originals on an exhaustive small grid",
    "tie T2: hand model SparseV.Model.Getitem (normalize_index tuple logic, COO getitem incl. one/adjacent advanced indices) compared with the "
    "implementation on representation (coords order, data, shape, fill, scalar-vs-array, error class)",
    "Spec.pyAdjust is a transcription of CPython's PySlice_AdjustIndices, validated each run against slice.indices()",
    "GCXS and DOK reads are covered by the NumPy oracle only (no model of the GCXS selection kernels)",
]


# ---------------------------------------------------------------------------------------------------
# T1 validation: generated definitions vs the Python originals
# ---------------------------------------------------------------------------------------------------

def t1_validate(ctx, full):
    from sparse.numba_backend import _slicing as S

    vals = [None, *range(-9, 10)] if full else [None, -9, -8, -4, -2, -1, 0, 1, 2, 3, 7, 8, 9]
    dims = range(0, 9) if full else [0, 1, 2, 5, 8]
    reqs, want = [], []
    for a, b, c, d in itertools.product(vals, vals, vals, dims):
        if c == 0:
            continue
        reqs.append(["normalize_slice", a, b, c, d])
        sl = S.clip_slice(S.posify_index(d, S.replace_none(slice(a, b, c), d)), d)
        want.append([sl.start, sl.stop, sl.step])
        reqs.append(["py_adjust", a, b, 1 if c is None else c, d])
        want.append(list(slice(a, b, c).indices(d)))
    outs = ctx.driver.run(reqs)
    bad = 0
    for r, w, o in zip(reqs, want, outs):
        if o.get("ok") != w:
            bad += 1
            if bad <= 3:
                ctx.fail("T1", r[0], r, f"generated/spec definition gives {o}, Python gives {w}")
    # integers
    reqs, want = [], []
    for i, d in itertools.product(range(-12, 13), range(0, 9)):
        reqs.append(["normalize_int", i, d])
        try:
            S.check_index(i, d)
            want.append({"ok": S.posify_index(d, i)})
        except IndexError:
            want.append({"err": "index"})
    outs2 = ctx.driver.run(reqs)
    for r, w, o in zip(reqs, want, outs2):
        if o != w:
            ctx.fail("T1", r[0], r, f"generated definition gives {o}, Python gives {w}")
    ctx.notes["translator_grid"] = {"slices": len(outs) // 2, "ints": len(outs2), "exhaustive_box": "parts in [-9,9]+None, dim<=8" if full else "subset"}
    ctx.cov["evaluations"] += len(outs) + len(outs2)


# ---------------------------------------------------------------------------------------------------
# index generator (the grammar of the property)
# ---------------------------------------------------------------------------------------------------

def rand_index(rng, shp, allow_adv=True, allow_err=0.1):
    """returns (python index tuple, json form).  Grammar: ints, slices, None, Ellipsis, and at most one block of
    adjacent advanced entries (one 1-D int/bool array, or several equal-length int arrays, ints adjacent to them)."""
    nd = len(shp)
    n_axes = int(rng.integers(0, nd + 1)) if nd else 0
    # position of the Ellipsis among the axis-consuming entries (None = no Ellipsis)
    ell = int(rng.integers(0, n_axes + 1)) if rng.random() < 0.4 else None
    axes = list(range(n_axes)) if ell is None else list(range(ell)) + list(range(nd - (n_axes - ell), nd))
    use_adv = allow_adv and n_axes > 0 and rng.random() < 0.35
    blk_lo = blk_hi = -1
    if use_adv:
        blk_lo = int(rng.integers(0, n_axes))
        blk_hi = blk_lo + int(rng.integers(1, min(3, n_axes - blk_lo) + 1))  # exclusive
        if ell is not None and blk_lo < ell < blk_hi:  # must not straddle the Ellipsis
            blk_hi = ell
    L = int(rng.integers(0, 5))
    if use_adv and any(shp[axes[p]] == 0 for p in range(blk_lo, blk_hi)):
        L = 0
    items = []  # (python entry, json, in_block)
    n_arrays = 0
    for p in range(n_axes):
        dim = shp[axes[p]]
        if blk_lo <= p < blk_hi:
            kind = "arr" if (p == blk_lo or rng.random() < 0.6) else "int"
            if kind == "int" and dim == 0:
                kind = "arr"
            if kind == "arr" and blk_hi - blk_lo == 1 and rng.random() < 0.3:
                b = rng.random(dim) < 0.5
                items.append((np.asarray(b, dtype=bool), ["b", [bool(v) for v in b]], True))
            elif kind == "arr":
                a = rng.integers(-dim, dim, size=L) if dim else np.zeros(0, dtype=np.int64)
                if rng.random() < allow_err / 2 and L:
                    a[int(rng.integers(L))] = dim + 1
                items.append((np.asarray(a, dtype=np.int64), ["a", [int(v) for v in a]], True))
            else:
                i = int(rng.integers(-dim, dim))
                items.append((i, ["i", i], True))
        else:
            if rng.random() < 0.3 and not use_adv:  # an int away from the block would move the advanced axis
                i = int(rng.integers(-dim, dim)) if dim else 0
                if rng.random() < allow_err or dim == 0:
                    i = int(rng.choice([dim, -dim - 1, dim + 3]))
                items.append((i, ["i", i], False))
            else:
                sl = gen.rand_slice(rng, dim)
                items.append((sl, ["s", sl.start, sl.stop, sl.step], False))
    if ell is not None:
        items.insert(ell, (Ellipsis, ["e"], False))
    # sprinkle None outside the interior of the advanced block
    for _ in range(int(rng.integers(0, 3))):
        if rng.random() < 0.5:
            pos = int(rng.integers(0, len(items) + 1))
            left_in = pos > 0 and items[pos - 1][2]
            right_in = pos < len(items) and items[pos][2]
            if not (left_in and right_in):
                items.insert(pos, (None, ["n"], False))
    return tuple(it[0] for it in items), [it[1] for it in items]


def idx_repr(js):
    return js


def leg_a(ctx, rng, n):
    import sparse

    reqs, metas = [], []
    for _ in range(n):
        shp = gen.shape(rng, 0, 4)
        fill = int(rng.choice([0, 0, 2]))
        x = sparse.COO.from_numpy(gen.dense(rng, shp, fill), fill_value=fill)
        idx, js = rand_index(rng, shp)
        xj = impl.coo_json(x)
        case = {"x": xj, "index": js}
        try:
            r = x[idx]
            if isinstance(r, sparse.COO):
                want = {"ok": impl.coo_json(r)}
            else:
                want = {"ok": {"scalar": int(r)}}
        except Exception as e:  # noqa: BLE001
            want = {"err": impl.err_class(e)}
        reqs.append(["getitem", xj, js])
        metas.append((case, want))
    outs = ctx.driver.run(reqs)
    for (case, want), out in zip(metas, outs):
        ctx.case("A:getitem", case, nontrivial=bool(case["x"]["data"]))
        fam = ctx.cov.setdefault("index_entry_kinds", {})
        for e in case["index"]:
            fam[e[0]] = fam.get(e[0], 0) + 1
        if "err" in want:
            ctx.count("A_error_cases")
        if out != want:
            ctx.fail("A", "model:getitem", case, f"model {out} implementation {want}")


def leg_c(ctx, rng, n, formats=("coo", "gcxs", "dok")):
    import sparse

    for k in range(n):
        shp = gen.shape(rng, 0, 4)
        fill = int(rng.choice([0, 0, 3]))
        d = gen.dense(rng, shp, fill)
        for fmt in formats:
            if fmt == "dok" and len(shp) == 0:
                continue
            x, fdesc = gen.to_format(rng, d, fmt, fill)
            for _ in range(4):
                idx, js = rand_index(rng, shp)
                case = {"format": fdesc, "shape": list(shp), "fill": fill, "dense": d.tolist(), "index": js}
                ctx.case(f"C:getitem:{fmt}", case, nontrivial=bool(d.size))
                msg = oracle.compare(lambda: x[idx], lambda: d[idx], fill=np.asarray(fill, dtype=d.dtype), scalar_rule=True,
                                     err_ok=("index",))
                if msg:
                    ctx.fail("C", "getitem", case, msg, finding=findings.classify(PID, "getitem", case, msg))
        if k % 100 == 0:
            core.log(f"C02 leg C {k}/{n}")


def run(ctx):
    ctx.trusted = TRUSTED
    ctx.assumptions = ["NumPy indexing is the specification", "index expressions are drawn from the grammar stated in the property"]
    core.prove(ctx, PID, uses=["replaceNone", "posifySlice", "posifyInt", "clipSlice", "checkIndexInt"])
    t1_validate(ctx, full=not ctx.quick)
    rng = gen.rng_for(ctx.seed, PID)
    leg_a(ctx, rng, 600 if ctx.quick else 6000)
    leg_c(ctx, rng, 150 if ctx.quick else 2000)
    ctx.cov["rule"] = ("T1 grid: (start,stop,step,dim) boxes, generated vs Python; leg A: random COO (rank 0-4) x random index tuple from the "
                       "grammar, model vs implementation on representation; leg C: COO/GCXS/DOK vs NumPy incl. scalar rule and IndexError; "
                       "non-trivial = array stores at least one element; distinct by content hash")
    import extra_ops  # operation tables closing the measured coverage gaps (tools/coverage_audit.py; coverage/API_COVERAGE.md)
    extra_ops.run(ctx, PID)

"""C04 worker process: executes ONE product call per request line, so that the parent can put every
call under a watchdog (a `nogil` numba loop cannot be interrupted from Python; the parent kills this
process when the deadline passes).  Protocol: one JSON object per stdin line, one JSON object per
stdout line.  Nothing here decides anything: it builds the operands, calls pydata/sparse and
describes what came back.
"""
from __future__ import annotations

import json
import os
import sys
import warnings

sys.path.insert(0, os.path.dirname(os.path.abspath(__file__)))
warnings.simplefilter("ignore")

import numpy as np  # noqa: E402

_real_stdout = os.fdopen(os.dup(1), "w")
sys.stdout = sys.stderr  # anything the library prints must not corrupt the protocol


def build(spec):
    """operand spec -> array.  spec: {"dense": nested list, "shape": [...], "dtype": str, "fmt": ..., "ca": [...]|None}"""
    import scipy.sparse as sp
    import sparse

    d = np.array(spec["dense"], dtype=spec.get("dtype", "int64")).reshape(spec["shape"])
    fmt = spec["fmt"]
    if fmt == "nd":
        return d
    if fmt == "coo":
        return sparse.COO.from_numpy(d)
    if fmt == "gcxs":
        ca = spec.get("ca")
        c = sparse.COO.from_numpy(d)
        return sparse.GCXS.from_coo(c, compressed_axes=tuple(ca) if ca is not None else None)
    if fmt == "scipy_csr":
        return sp.csr_matrix(d)
    if fmt == "scipy_csc":
        return sp.csc_matrix(d)
    if fmt == "scipy_coo":
        return sp.coo_matrix(d)
    if fmt == "scipy_csr_array":
        return sp.csr_array(d)
    raise ValueError(fmt)


def describe(r):
    import scipy.sparse as sp
    import sparse

    import impl

    out = {}
    if isinstance(r, sparse.SparseArray):
        out["type"] = "GCXS" if isinstance(r, sparse.GCXS) else type(r).__name__
        d = r.todense()
        out["canonical"] = impl.canonical_problem(r)
        out["nofill"] = impl.nofill_problem(r)
        out["fill"] = repr(r.fill_value)
        out["nnz"] = int(r.nnz)
        if isinstance(r, sparse.GCXS):
            out["ca"] = [int(x) for x in r.compressed_axes] if r.compressed_axes is not None else None
    elif sp.issparse(r):
        out["type"] = "scipy"
        d = r.toarray()
    elif isinstance(r, np.ndarray):
        out["type"] = "ndarray"
        d = r
    elif isinstance(r, np.generic | int | float | complex):
        out["type"] = "scalar"
        d = np.asarray(r)
    else:
        out["type"] = type(r).__name__
        d = np.asarray(r)
    out["shape"] = list(d.shape)
    out["dtype"] = str(d.dtype)
    if d.dtype.kind == "c":  # operands are real-valued: JSON carries the real part and the size of the rest
        out["imag_max"] = float(np.abs(d.imag).max()) if d.size else 0.0
        d = d.real
    out["dense"] = d.tolist()
    return out


RT = {"none": None}


def rt_of(name):
    import sparse

    return {"none": None, "coo": sparse.COO, "gcxs": sparse.GCXS, "nd": np.ndarray}[name]


def do_product(job):
    import sparse

    a, b = build(job["a"]), build(job["b"])
    op = job["op"]
    if op == "dot":
        r = sparse.dot(a, b)
    elif op == "matmul":
        r = sparse.matmul(a, b)
    elif op == "@":
        r = a @ b
    elif op == "tensordot":
        ax = job["axes"]
        axes = ax if isinstance(ax, int) else (tuple(ax[0]) if isinstance(ax[0], list) else ax[0], tuple(ax[1]) if isinstance(ax[1], list) else ax[1])
        r = sparse.tensordot(a, b, axes=axes, return_type=rt_of(job.get("rt", "none")))
    elif op == "einsum":
        r = sparse.einsum(job["subscripts"], a, b)
    elif op == "einsum1":
        r = sparse.einsum(job["subscripts"], a)
    elif op == "vecdot":
        r = sparse.vecdot(a, b, axis=job.get("axis", -1))
    elif op == "kron":
        r = sparse.kron(a, b)
    elif op == "outer":
        r = sparse.outer(a, b)
    elif op == "method_dot":
        r = a.dot(b)
    else:
        raise ValueError(op)
    return describe(r)


# ---- dispatch instrumentation -----------------------------------------------------------------

FACTORIES = {
    "_dot_csr_csr_type": "csr_csr", "_dot_csr_ndarray_type": "csr_nd", "_dot_csr_ndarray_type_sparse": "csr_nd_sparse",
    "_dot_csc_ndarray_type": "csc_nd", "_dot_csc_ndarray_type_sparse": "csc_nd_sparse", "_dot_coo_coo_type": "coo_coo",
    "_dot_coo_ndarray_type": "coo_nd", "_dot_coo_ndarray_type_sparse": "coo_nd_sparse",
    "_dot_ndarray_coo_type": "nd_coo", "_dot_ndarray_coo_type_sparse": "nd_coo_sparse",
}
_installed = False
_calls: list = []
_ORIG: dict = {}


def factory_of(fname):
    """the library's own kernel factory (not the probe wrapper)"""
    from sparse.numba_backend import _common as C

    return _ORIG.get(fname) or getattr(C, fname)


def install_probe():
    """wrap every kernel factory of _common so that a `_dot` call records (kernel, shapes of its arguments)"""
    global _installed
    if _installed:
        return
    from sparse.numba_backend import _common as C

    def wrap(fname, kname):
        orig = getattr(C, fname)
        _ORIG[fname] = orig

        def factory(*dts):
            k = orig(*dts)

            def kernel(*args):
                shapes = [list(x) if isinstance(x, tuple) else (list(x.shape) if hasattr(x, "shape") else None) for x in args]
                _calls.append({"kernel": kname, "args": shapes})
                return k(*args)

            return kernel

        setattr(C, fname, factory)

    for f, k in FACTORIES.items():
        wrap(f, k)
    _installed = True


def do_dispatch(job):
    """call _dot on 2-d operands and report which kernel ran, how it was oriented and what was built from it"""
    import sparse
    from sparse.numba_backend import _common as C

    install_probe()
    _calls.clear()
    a, b = build(job["a"]), build(job["b"])
    made = []
    # observe the constructor call that wraps the kernel output (prune / compressed_axes promises)
    orig_gcxs_init, orig_coo_init = sparse.GCXS.__init__, sparse.COO.__init__

    def gi(self, arg, shape=None, compressed_axes=None, prune=False, fill_value=None, idx_dtype=None):
        if isinstance(arg, tuple) and len(arg) == 3 and _calls and not made:
            made.append({"cls": "GCXS", "ca": [int(x) for x in compressed_axes] if compressed_axes is not None else None, "prune": bool(prune)})
        return orig_gcxs_init(self, arg, shape=shape, compressed_axes=compressed_axes, prune=prune, fill_value=fill_value, idx_dtype=idx_dtype)

    def ci(self, coords, data=None, shape=None, has_duplicates=True, sorted=False, prune=False, cache=False, fill_value=None, idx_dtype=None):
        if data is not None and _calls and not made:
            made.append({"cls": "COO", "prune": bool(prune), "sorted": bool(sorted), "has_duplicates": bool(has_duplicates)})
        return orig_coo_init(self, coords, data=data, shape=shape, has_duplicates=has_duplicates, sorted=sorted, prune=prune,
                             cache=cache, fill_value=fill_value, idx_dtype=idx_dtype)

    sparse.GCXS.__init__, sparse.COO.__init__ = gi, ci
    try:
        a_ca = [int(x) for x in a.compressed_axes] if isinstance(a, sparse.GCXS) else None
        a_default = None
        if isinstance(a, sparse.COO):
            a_default = [int(x) for x in a.asformat("gcxs").compressed_axes]
            made.clear()
        r = C._dot(a, b, rt_of(job["rt"]))
    finally:
        sparse.GCXS.__init__, sparse.COO.__init__ = orig_gcxs_init, orig_coo_init
    out = describe(r)
    out["calls"] = list(_calls)
    out["made"] = made[:1]
    out["a_default_ca"] = a_default
    out["a_ca"] = a_ca
    return out


# ---- direct kernel calls --------------------------------------------------------------------------

def _i(x, dt=np.intp):
    return np.array(x, dtype=dt)


def do_kernel(job):
    from sparse.numba_backend import _common as C

    name, g, py = job["name"], job["args"], job.get("py", False)
    dt = np.dtype(job.get("dtype", "int64"))

    def pick(f):
        return f.py_func if py else f

    def csr(c):
        return np.array(c["data"], dtype=dt), _i(c["indices"]), _i(c["indptr"])

    def dense(x, shape):
        return np.array(x, dtype=dt).reshape(shape)

    if name == "csr_csr_count":
        A, B = g["A"], g["B"]
        return {"nnz": int(pick(C._csr_csr_count_nnz)(tuple(g["shape"]), _i(A["indices"]), _i(B["indices"]), _i(A["indptr"]), _i(B["indptr"])))}
    if name == "csr_csr":
        ad, ai, ap = csr(g["A"])
        bd, bi, bp = csr(g["B"])
        f = factory_of("_dot_csr_csr_type")(dt, dt)  # (py_func still calls the jitted pre-count)
        d, i, p = pick(f)(tuple(g["shape"]), ad, bd, ai, bi, ap, bp)
        return {"data": d.tolist(), "indices": i.tolist(), "indptr": p.tolist(), "alloc": len(d)}
    if name == "csr_nd":
        ad, ai, ap = csr(g["A"])
        o = pick(factory_of("_dot_csr_ndarray_type")(dt, dt))(tuple(g["shape"]), ad, ai, ap, dense(g["b"], g["bshape"]))
        return {"dense": o.tolist(), "shape": list(o.shape)}
    if name == "csr_nd_count":
        ad, ai, ap = csr(g["A"])
        indptr = np.zeros(g["shape"][0] + 1, dtype=np.intp)
        n = pick(C._csr_ndarray_count_nnz)(tuple(g["shape"]), indptr, ai, ap, dense(g["b"], g["bshape"]))
        return {"nnz": int(n), "indptr": indptr.tolist()}
    if name == "csr_nd_sparse":
        ad, ai, ap = csr(g["A"])
        d, i, p = pick(factory_of("_dot_csr_ndarray_type_sparse")(dt, dt))(tuple(g["shape"]), ad, ai, ap, dense(g["b"], g["bshape"]))
        return {"data": d.tolist(), "indices": i.tolist(), "indptr": p.tolist(), "alloc": len(d)}
    if name == "csc_nd":
        ad, ai, ap = csr(g["A"])
        o = pick(factory_of("_dot_csc_ndarray_type")(dt, dt))(tuple(g["ashape"]), tuple(g["bshape"]), ad, ai, ap, dense(g["b"], g["bshape"]))
        return {"dense": o.tolist(), "shape": list(o.shape)}
    if name == "csc_nd_count":
        ad, ai, ap = csr(g["A"])
        indptr = np.zeros(g["bshape"][1] + 1, dtype=np.intp)
        n = pick(C._csc_ndarray_count_nnz)(tuple(g["ashape"]), tuple(g["bshape"]), indptr, ai, ap, dense(g["b"], g["bshape"]))
        return {"nnz": int(n), "indptr_tail": indptr[1:].tolist()}
    if name == "csc_nd_sparse":
        ad, ai, ap = csr(g["A"])
        d, i, p = pick(factory_of("_dot_csc_ndarray_type_sparse")(dt, dt))(tuple(g["ashape"]), tuple(g["bshape"]), ad, ai, ap, dense(g["b"], g["bshape"]))
        return {"data": d.tolist(), "indices": i.tolist(), "indptr": p.tolist(), "alloc": len(d)}
    if name == "coo_coo":
        ad, ai, ap = csr(g["A"])
        bd, bi, bp = csr(g["B"])
        ac = np.stack([_i(g["arows"]), ai])
        bc = np.stack([_i(g["brows"]), bi])
        c, d = pick(factory_of("_dot_coo_coo_type")(dt, dt))(tuple(g["shape"]), ac, bc, ad, bd, ap, bp)
        return {"rows": c[0].tolist(), "cols": c[1].tolist(), "data": d.tolist(), "alloc": len(d)}
    if name in ("coo_nd", "coo_nd_sparse"):
        e = g["ents"]
        coords = np.stack([_i(e["c0"]), _i(e["c1"])])
        data = np.array(e["data"], dtype=dt)
        x2 = dense(g["x2"], g["x2shape"])
        f = factory_of("_dot_coo_ndarray_type" if name == "coo_nd" else "_dot_coo_ndarray_type_sparse")(dt, dt)
        o = pick(f)(coords, data, x2, tuple(g["shape"]))
        if name == "coo_nd":
            return {"dense": o.tolist(), "shape": list(o.shape)}
        c, d = o
        return {"rows": c[0].tolist() if c.size else [], "cols": c[1].tolist() if c.size else [], "data": d.tolist(), "cshape": list(c.shape)}
    if name in ("nd_coo", "nd_coo_sparse"):
        e = g["ents"]
        coords = np.stack([_i(e["c0"]), _i(e["c1"])])
        data = np.array(e["data"], dtype=dt)
        x1 = dense(g["x1"], g["x1shape"])
        f = factory_of("_dot_ndarray_coo_type" if name == "nd_coo" else "_dot_ndarray_coo_type_sparse")(dt, dt)
        o = pick(f)(x1, coords, data, tuple(g["shape"]))
        if name == "nd_coo":
            return {"dense": o.tolist(), "shape": list(o.shape)}
        c, d = o
        return {"rows": c[0].tolist() if c.size else [], "cols": c[1].tolist() if c.size else [], "data": d.tolist(), "cshape": list(c.shape)}
    raise ValueError(name)


def main():
    import impl

    for line in sys.stdin:
        line = line.strip()
        if not line:
            continue
        job = json.loads(line)
        try:
            kind = job.get("kind", "product")
            if kind == "product":
                install_probe()
                _calls.clear()
                res = do_product(job)
                res["calls"] = list(_calls)
            elif kind == "dispatch":
                res = do_dispatch(job)
            elif kind == "kernel":
                res = do_kernel(job)
            elif kind == "ping":
                import sparse  # noqa: F401
                res = {"pong": True}
            else:
                raise ValueError(kind)
            out = {"ok": res}
        except BaseException as e:  # noqa: BLE001
            if isinstance(e, KeyboardInterrupt | SystemExit):
                raise
            out = {"raised": type(e).__name__, "cls": impl.err_class(e), "msg": str(e)[:200], "calls": list(_calls)}
        _real_stdout.write(json.dumps(out, default=str) + "\n")
        _real_stdout.flush()


if __name__ == "__main__":
    main()

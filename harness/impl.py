"""Helpers on the implementation side: JSON forms of arrays, canonicity checker, error classes."""
from __future__ import annotations

import numpy as np


def coo_json(x):
    """COO -> the driver's JSON form (entry-wise coordinate list, storage order)"""
    return {
        "shape": [int(d) for d in x.shape],
        "coords": [[int(v) for v in col] for col in x.coords.T.tolist()] if x.ndim else [[] for _ in range(x.nnz)],
        "data": [int(v) for v in x.data.tolist()],
        "fill": int(x.fill_value),
    }


def raw_json(shape, coords_cols, data, fill=0):
    return {"shape": list(map(int, shape)), "coords": [list(map(int, c)) for c in coords_cols], "data": list(map(int, data)), "fill": int(fill)}


def err_class(e: BaseException) -> str:
    import numba

    if isinstance(e, IndexError):
        return "index"
    if isinstance(e, NotImplementedError):
        return "notimpl"
    if isinstance(e, OverflowError):
        return "overflow"
    if isinstance(e, ValueError):  # includes np.exceptions.AxisError
        return "value"
    if isinstance(e, TypeError) and not isinstance(e, numba.core.errors.NumbaError):
        return "type"
    if isinstance(e, RuntimeError):
        return "runtime"
    return "internal"


def canonical_problem(x):
    """None if the array is in canonical form (property C06), else a description"""
    import sparse

    if isinstance(x, sparse.COO):
        if x.coords.ndim != 2 or x.coords.shape[0] != x.ndim:
            return f"coords shape {x.coords.shape} for ndim {x.ndim}"
        if x.coords.shape[1] != x.data.shape[0] or x.data.ndim != 1:
            return f"coords/data length {x.coords.shape} vs {x.data.shape}"
        if x.nnz:
            c = x.coords.astype(np.int64)
            if (c < 0).any() or (c >= np.asarray(x.shape, dtype=np.int64)[:, None]).any():
                return "coordinate outside shape"
            if x.ndim:
                lin = np.ravel_multi_index(tuple(c), x.shape) if all(d > 0 for d in x.shape) else None
                if lin is not None and (np.diff(lin.astype(object)) <= 0).any():
                    return "coords not strictly increasing in row-major order"
            elif x.nnz > 1:
                return "0-d array with more than one stored element"
        return None
    if isinstance(x, sparse.GCXS):
        if x.ndim == 0:
            return None if len(x.data) <= 1 else "0-d array with more than one stored element"
        ind = np.asarray(x.indices).astype(np.int64)
        if len(ind) != len(x.data):
            return "indices/data length"
        if x.ndim == 1:
            if len(ind) and ((np.diff(ind) <= 0).any() or ind.min() < 0 or ind.max() >= x.shape[0]):
                return "1-d indices not strictly increasing in range"
            return None
        if x.ndim == 0:
            return None
        if x.indptr is None or np.asarray(x.indptr).dtype == object:
            return f"{x.ndim}-d GCXS without index pointers"
        ip = np.asarray(x.indptr).astype(np.int64)
        rows, cols = x._compressed_shape
        if len(ip) != rows + 1:
            return f"indptr length {len(ip)} for {rows} rows"
        if ip[0] != 0 or ip[-1] != len(ind) or (np.diff(ip) < 0).any():
            return "indptr not non-decreasing from 0 to nnz"
        for r in range(rows):
            seg = ind[ip[r]:ip[r + 1]]
            if len(seg) and ((np.diff(seg) <= 0).any() or seg.min() < 0 or seg.max() >= cols):
                return f"row {r} indices not strictly increasing in range"
        return None
    if isinstance(x, sparse.DOK):
        for k, v in x.data.items():
            if not isinstance(k, tuple) or len(k) != x.ndim:
                return f"key {k!r}"
            if any((not 0 <= int(i) < d) for i, d in zip(k, x.shape)):
                return f"key {k!r} outside shape"
        return None
    return None


def equivalent(x, y):
    """The harness's OWN statement of "is the fill value" (independent of the library's _utils.equivalent, which is code under test),
    with the library's documented meaning: the same value bit for bit — NaN equals the same NaN, -0.0 differs from +0.0, and a NaN
    with the sign bit set differs from one without (log(-1.5) next to a fill value of +nan is kept, which is not claimed wrong)."""
    x, y = np.asarray(x), np.asarray(y)
    dt = np.result_type(x.dtype, y.dtype)
    if dt.kind == "c":
        return equivalent(x.real, y.real) & equivalent(x.imag, y.imag)
    if dt.kind != "f":
        return x == y
    x, y = np.broadcast_arrays(x.astype(dt), y.astype(dt))
    u = {2: np.uint16, 4: np.uint32, 8: np.uint64}.get(dt.itemsize)
    if u is None:  # long double: compare the bytes
        xb = np.ascontiguousarray(x).view(np.uint8).reshape(x.shape + (dt.itemsize,))
        yb = np.ascontiguousarray(y).view(np.uint8).reshape(y.shape + (dt.itemsize,))
        return (xb == yb).all(axis=-1)
    return np.ascontiguousarray(x).view(u) == np.ascontiguousarray(y).view(u)


def nofill_problem(x):
    import sparse

    if isinstance(x, sparse.DOK):
        vals = np.array(list(x.data.values())) if x.data else np.array([])
    else:
        vals = x.data
    if len(vals) and np.asarray(equivalent(vals, x.fill_value)).any():
        return "stores fill-valued entries"
    return None

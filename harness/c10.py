"""C10 — searching, sorting and set functions agree with NumPy / the Array API.

leg A  (tie T2)  `_sort_coo`, `_compute_minmax_args` called directly (jitted and `.py_func`), and the public
                 `unique_counts`, `unique_values`, `nonzero`, `argwhere`, `where(cond)` against the Lean model
                 (SparseV.Model.Search) on representation: result coordinates, data, index lists, value/count lists.
leg B            the dense specification (SparseV.Spec.Search) against NumPy itself, and the statement of every
                 property theorem re-evaluated on the generated rows (densify(model) == spec(densify)).
leg C            the public functions against NumPy on COO / GCXS / DOK arrays of rank 1..4.

Known defects are detected at the start of the run by replaying their witnesses on the code under test; the
model variant used in leg A (flags `gather`, `prune` of the Lean definitions) follows what the witnesses show, so
the check passes on the unchanged tree (failing cases are attributed to the listed findings) and after each
proposed fix (no failing case, corrected model variant).
"""
from __future__ import annotations

import itertools
import json
import warnings

import numpy as np

import core
import findings
import gen
import impl

PID = "C10"
TRUSTED = [
    "Lean 4 kernel; axioms propext, Classical.choice, Quot.sound only (audited per theorem each run)",
    "tie T2: hand model SparseV.Model.Search (sortRow/sortCoo, argMinMaxCol/computeMinmaxArgs, uniqueCountsWith, "
    "uniqueValuesWith, nonzeroWith) compared by this run with _sort_coo and _compute_minmax_args called directly "
    "(jitted and .py_func) and with the public unique_counts/unique_values/nonzero/argwhere/where on representation",
    "NumPy calls inside the modelled code (np.sort, np.argmax/argmin, np.unique, np.argsort) are modelled by their "
    "specification SparseV.Spec.Search, which this run compares with NumPy itself (leg B); np.argsort is taken to be "
    "stable on the <= 16-element arrays it is applied to",
    "group / column extraction inside the kernels is proved (sort_coo_rows, minmax_args_columns); the wrappers around the "
    "kernels (moveaxis/reshape/transpose of sort and _arg_minmax_common, flatten of unique_*, result shape logic) are C08 "
    "operations and are exercised here only differentially (leg C)",
    "NumPy is the reference for leg C; dtype and float behaviour are outside the theorems",
]
# normalised-AST hashes of the hand-modelled functions on the tree the model was written against.  A changed hash is
# not a verdict: it is reported as source drift and switches the quick box to its exhaustive mode for lengths <= 4.
MODEL_MAP = {
    "sparse/numba_backend/_coo/common.py": {
        "sort": "a67732f132140f85", "_sort_coo": "87278716d4bdddc0", "argmax": "938b56abe286e5d7", "argmin": "9d586be5f4589958",
        "_arg_minmax_common": "c3182e22269559ff", "_compute_minmax_args": "0a67565e89c2cd2a", "unique_counts": "cfe4a4dd161ac8b7",
        "unique_values": "194a4cdeb31d7d52", "argwhere": "6535c37648e62673", "where": "66b5a9081c30c105",
        "_validate_coo_input": "67febdb469f62d4d"},
    "sparse/numba_backend/_coo/core.py": {"COO.nonzero": "65573660953205a4"},
}
OPS = ("sort", "argmax", "argmin", "unique_values", "unique_counts", "nonzero", "argwhere", "where")


# ------------------------------------------------------------------------------------------------
# witnesses of the known defects, replayed on the code under test
# ------------------------------------------------------------------------------------------------

def replay_witnesses() -> dict:
    """True = the defect is present in the tree under test"""
    import sparse

    def probe(f):
        try:
            return bool(f())
        except Exception:  # noqa: BLE001
            return None

    xe = lambda: sparse.COO(np.array([[0]]), np.array([0]), shape=(2,))  # dense [0, 0], position 0 stored explicitly  # noqa: E731
    w = {
        "perm": probe(lambda: sparse.unique_counts(sparse.COO.from_numpy(np.array([-3, -2, 0, 1, 0]))).values.tolist() != [-3, -2, 0, 1]),
        "sf_unique_values": probe(lambda: sparse.unique_values(xe()).tolist() != [0]),
        "sf_unique_counts": probe(lambda: sparse.unique_counts(xe()).values.tolist() != [0]),
        "sf_argminmax": probe(lambda: int(sparse.argmax(xe()).todense()) != 0),
        "sf_nonzero": probe(lambda: len(sparse.COO(np.array([[0, 1]]), np.array([0, 5]), shape=(2,)).nonzero()[0]) != 1),
        "argminmax_shape": probe(lambda: sparse.argmax(sparse.COO.from_numpy(np.arange(8).reshape(2, 2, 2)), axis=-1, keepdims=True).shape != (2, 2, 1)),
        "sort_len1": probe(lambda: sparse.sort(sparse.COO.from_numpy(np.array([5]))).shape != (1,)),
    }
    try:
        sparse.sort(sparse.COO.from_numpy(np.zeros((2, 0), dtype=np.int64)))
        w["sort_empty_axis"] = False
    except ValueError:
        w["sort_empty_axis"] = True
    except Exception:  # noqa: BLE001
        w["sort_empty_axis"] = None
    return w


# ------------------------------------------------------------------------------------------------
# rows
# ------------------------------------------------------------------------------------------------

def rand_rows(rng, nrows, n, lo=-3, hi=3, explicit=True):
    """list of rows; a row is a list of (pos, val) with increasing positions (every stored subset, values may equal the fill)"""
    rows = []
    for _ in range(nrows):
        dens = float(rng.choice([0.0, 0.3, 0.6, 1.0]))
        pos = [p for p in range(n) if rng.random() < dens]
        rows.append([(p, int(rng.integers(lo, hi + 1))) for p in pos])
    return rows


def all_rows(n, values=(-2, -1, 0, 1, 2)):
    """every stored subset of positions 0..n-1 with every assignment of `values` to it"""
    for k in range(n + 1):
        for pos in itertools.combinations(range(n), k):
            for vals in itertools.product(values, repeat=k):
                yield list(zip(pos, vals))


def dense_row(n, fill, row):
    d = [fill] * n
    for p, v in row:
        d[p] = v
    return d


def rows_to_coo2(rows):
    """rows (groups) -> (coords (2, nnz) intp, data int64) in canonical order"""
    g = [i for i, r in enumerate(rows) for _ in r]
    c = [p for r in rows for p, _ in r]
    v = [val for r in rows for _, val in r]
    return np.array([g, c], dtype=np.intp).reshape(2, len(v)), np.array(v, dtype=np.int64)


def chunks(seq, k):
    seq = list(seq)
    for i in range(0, len(seq), k):
        yield seq[i:i + k]


# ------------------------------------------------------------------------------------------------
# leg A: kernels
# ------------------------------------------------------------------------------------------------

def leg_a_sort_kernel(ctx, rows, n, fill, desc, use_py):
    from sparse.numba_backend._coo.common import _sort_coo

    f = _sort_coo.py_func if use_py else _sort_coo
    coords, data = rows_to_coo2(rows)
    case = {"kernel": "_sort_coo" + (".py_func" if use_py else ""), "n": n, "fill": fill, "descending": desc, "rows": rows}
    ctx.case(f"A:_sort_coo:{'py' if use_py else 'jit'}", [n, fill, desc, rows], nontrivial=bool(len(data)))
    try:
        rc, rd = f(coords.copy(), data.copy(), np.int64(fill), int(n), bool(desc))
    except Exception as e:  # noqa: BLE001
        ctx.fail("A", "kernel:_sort_coo", case, f"implementation raised {type(e).__name__}: {e}")
        return None
    got = [[int(a), int(b), int(v)] for a, b, v in zip(rc[0].tolist(), rc[1].tolist(), rd.tolist())]
    entries = [[int(a), int(b), int(v)] for a, b, v in zip(coords[0].tolist(), coords[1].tolist(), data.tolist())]
    out = ctx.driver.run([["c10_sort_coo", bool(desc), n, fill, entries]])[0]
    if out.get("ok") != got:
        bad = first_diff_row(out.get("ok"), got, rows)
        ctx.fail("A", "kernel:_sort_coo", dict(case, rows=bad), f"model {str(out)[:300]} implementation {str(got)[:300]}")
    return got


def first_diff_row(model, got, rows):
    """shrink a kernel disagreement to the rows whose result differs"""
    if not isinstance(model, list):
        return rows[:3]
    by = lambda l: {g: [e for e in l if e[0] == g] for g in {e[0] for e in l}}  # noqa: E731
    m, g = by(model), by(got)
    bad = [i for i in range(len(rows)) if m.get(i) != g.get(i)]
    return [rows[i] for i in bad[:3]]


def leg_a_minmax_kernel(ctx, cols, n, fill, mx, use_py):
    """cols: list of columns (rows of (reduce coordinate, value)); kernel wants coords sorted by (reduce, column)"""
    from sparse.numba_backend._coo.common import _compute_minmax_args

    f = _compute_minmax_args.py_func if use_py else _compute_minmax_args
    ent = sorted((p, j, v) for j, col in enumerate(cols) for p, v in col)
    coords = np.array([[e[0] for e in ent], [e[1] for e in ent]], dtype=np.intp).reshape(2, len(ent))
    data = np.array([e[2] for e in ent], dtype=np.int64)
    case = {"kernel": "_compute_minmax_args" + (".py_func" if use_py else ""), "reduce_size": n, "fill": fill, "max_mode": mx, "cols": cols}
    ctx.case(f"A:_compute_minmax_args:{'py' if use_py else 'jit'}", [n, fill, mx, cols], nontrivial=bool(len(ent)))
    if not ent:
        return
    try:
        ri, rd = f(coords.copy(), data.copy(), int(n), np.int64(fill), bool(mx))
    except Exception as e:  # noqa: BLE001
        ctx.fail("A", "kernel:_compute_minmax_args", case, f"implementation raised {type(e).__name__}: {e}")
        return
    got = [[int(a), int(b)] for a, b in zip(np.asarray(ri).tolist(), np.asarray(rd).tolist())]
    out = ctx.driver.run([["c10_minmax_args", bool(mx), n, fill, [[int(a), int(b), int(c)] for a, b, c in ent]]])[0]
    if out.get("ok") != got:
        m = dict(map(tuple, out.get("ok") or []))
        g = dict(map(tuple, got))
        bad = [cols[j] for j in range(len(cols)) if m.get(j) != g.get(j)][:3]
        ctx.fail("A", "kernel:_compute_minmax_args", dict(case, cols=bad), f"model {str(out)[:300]} implementation {str(got)[:300]}")


def leg_b_rows(ctx, rows, n, fill, w):
    """the theorems' statements evaluated: densify(model row) == spec(dense row) (== NumPy), outside the excluded regions"""
    reqs, meta = [], []
    for r in rows:
        jr = [[p, v] for p, v in r]
        d = dense_row(n, fill, r)
        for desc in (False, True):
            reqs.append(["c10_sort_row", desc, n, fill, jr])
            meta.append(("sort", desc, r, d))
        reqs.append(["c10_spec_sort", False, d]); meta.append(("spec_sort", False, r, d))
        reqs.append(["c10_spec_sort", True, d]); meta.append(("spec_sort", True, r, d))
        for mx in (True, False):
            reqs.append(["c10_spec_argmax", mx, d]); meta.append(("spec_arg", mx, r, d))
            reqs.append(["c10_argminmax_col", False, mx, n, fill, jr]); meta.append(("arg", mx, r, d))
            reqs.append(["c10_argminmax_col", True, mx, n, fill, jr]); meta.append(("arg_fixed", mx, r, d))
            reqs.append(["c10_excluded_arg", mx, n, fill, jr]); meta.append(("exc_arg", mx, r, d))
        reqs.append(["c10_spec_unique", d]); meta.append(("spec_unique", None, r, d))
        reqs.append(["c10_unique_counts", False, False, n, fill, jr]); meta.append(("uc", (False, False), r, d))
        reqs.append(["c10_unique_counts", True, True, n, fill, jr]); meta.append(("uc", (True, True), r, d))
        reqs.append(["c10_unique_values", False, n, fill, jr]); meta.append(("uv", False, r, d))
        reqs.append(["c10_unique_values", True, n, fill, jr]); meta.append(("uv", True, r, d))
        reqs.append(["c10_excluded_unique", False, n, fill, jr]); meta.append(("exc_u", None, r, d))
        reqs.append(["c10_densify_row", n, fill, jr]); meta.append(("dens", None, r, d))
    outs = ctx.driver.run(reqs)
    cur = {}
    for (kind, par, r, d), out in zip(meta, outs):
        o = out.get("ok")
        key = (tuple(r),)
        st = cur.setdefault(key, {})
        st[(kind, par)] = o
    for (kind, par, r, d), out in zip(meta, outs):
        o = out.get("ok")
        st = cur[(tuple(r),)]
        case = {"n": n, "fill": fill, "row": r, "what": kind, "param": par}

        def bad(msg):
            ctx.fail("B", f"spec:{kind}", case, msg)

        if kind == "dens" and o != d:
            bad(f"densifyRow {o} expected {d}")
        elif kind == "spec_sort":
            ref = sorted(d, reverse=bool(par))
            if o != ref:
                bad(f"sortD {o} numpy {ref}")
        elif kind == "sort":
            dd = dense_row(n, fill, [tuple(e) for e in o]) if o is not None else None
            if dd != sorted(d, reverse=bool(par)):
                bad(f"densify(sortRow) {dd} vs sorted {sorted(d, reverse=bool(par))}")
        elif kind == "spec_arg" and n > 0:
            ref = int(np.argmax(d)) if par else int(np.argmin(d))
            if o != ref:
                bad(f"argmaxD/argminD {o} numpy {ref}")
        elif kind == "arg" and n > 0:
            ref = int(np.argmax(d)) if par else int(np.argmin(d))
            exc = st[("exc_arg", par)]
            if (o != ref) != bool(exc):
                bad(f"argMinMaxCol {o} numpy {ref} excluded={exc}: the excluded region is not exactly the failure set")
        elif kind == "arg_fixed" and n > 0:
            ref = int(np.argmax(d)) if par else int(np.argmin(d))
            if o != ref:
                bad(f"argMinMaxColWith prune {o} numpy {ref}")
        elif kind == "spec_unique":
            u, c = np.unique(np.array(d, dtype=np.int64), return_counts=True)
            if o != [[int(a), int(b)] for a, b in zip(u, c)]:
                bad(f"uniqueCountsD {o} numpy {u.tolist()} {c.tolist()}")
        elif kind == "uc":
            u, c = np.unique(np.array(d, dtype=np.int64), return_counts=True)
            ok = o == [u.tolist(), c.tolist()]
            if par == (True, True):
                if not ok:
                    bad(f"uniqueCountsFixed {o} numpy {u.tolist()} {c.tolist()}")
            else:
                sf, tb = st[("exc_u", None)]
                if not ok and not (sf or tb):
                    bad(f"uniqueCounts {o} numpy {u.tolist()} {c.tolist()} outside both excluded regions")
                if ok and tb and not sf:
                    bad("uniqueCounts right inside ExcludedTwoBelow: the region is not exact")
        elif kind == "uv":
            u = np.unique(np.array(d, dtype=np.int64)).tolist()
            sf, _ = st[("exc_u", None)]
            if par and o != u:
                bad(f"uniqueValuesFixed {o} numpy {u}")
            if not par and (o != u) != bool(sf):
                bad(f"uniqueValues {o} numpy {u} ExcludedStoredFill={sf}: the region is not exactly the failure set")
    ctx.count("leg_b_rows", len(rows))
    for r in rows:
        ctx.case("B:row-statements", [n, fill, r], nontrivial=bool(r))


# ------------------------------------------------------------------------------------------------
# cases of the public functions (leg A for unique/nonzero, leg C for everything)
# ------------------------------------------------------------------------------------------------

def build(case):
    """case -> (sparse array, dense ndarray built independently of the library)"""
    import sparse

    shape = tuple(case["shape"])
    dt = np.dtype(case.get("dtype", "int64"))  # int64: the values; float64: halves of the values; bool: values are 0/1
    scale = 0.5 if dt.kind == "f" else 1
    coords = np.array(case["coords"], dtype=np.intp).reshape(len(case["data"]), len(shape)).T
    data = (np.array(case["data"], dtype=np.int64) * scale).astype(dt)
    fill = (np.array(case["fill"], dtype=np.int64) * scale).astype(dt)[()]
    d = np.full(shape, fill, dtype=dt)
    if len(case["data"]):
        d[tuple(coords)] = data
    c = sparse.COO(coords, data, shape=shape, fill_value=fill, has_duplicates=False, sorted=True)
    fmt = case.get("format", "coo")
    if fmt == "coo":
        x = c
    elif fmt == "dok":
        x = sparse.DOK.from_coo(c)
    else:
        ca = case.get("compressed_axes")
        x = sparse.GCXS.from_coo(c, compressed_axes=tuple(ca) if ca is not None else None)
    return x, d


def call_impl(case, x):
    import sparse

    op, kw = case["op"], case.get("kw", {})
    if op == "sort":
        return sparse.sort(x, **kw)
    if op in ("argmax", "argmin"):
        return getattr(sparse, op)(x, **kw)
    if op == "unique_values":
        return sparse.unique_values(x)
    if op == "unique_counts":
        r = sparse.unique_counts(x)
        return (r.values, r.counts)
    if op == "nonzero":
        return sparse.nonzero(x)
    if op == "argwhere":
        return sparse.argwhere(x)
    if op == "where":
        return sparse.where(x)
    raise ValueError(op)


def call_numpy(case, d):
    op, kw = case["op"], case.get("kw", {})
    if op == "sort":
        r = np.sort(d, axis=kw.get("axis", -1), kind="stable")
        return np.flip(r, axis=kw.get("axis", -1)) if kw.get("descending") else r
    if op in ("argmax", "argmin"):
        return getattr(np, op)(d, axis=kw.get("axis"), keepdims=bool(kw.get("keepdims", False)))
    if op == "unique_values":
        return np.unique(d)
    if op == "unique_counts":
        return np.unique(d, return_counts=True)
    if op in ("nonzero", "where"):
        return np.nonzero(d)
    if op == "argwhere":
        return np.argwhere(d)
    raise ValueError(op)


def jsonable(v):
    import sparse

    if isinstance(v, sparse.SparseArray):
        v = v.todense()
    if isinstance(v, tuple):
        return [jsonable(e) for e in v]
    v = np.asarray(v)
    if v.dtype.kind == "f":
        return (v * 2).astype(np.int64).tolist() if np.all(v * 2 == np.round(v * 2)) else v.tolist()
    return v.astype(np.int64).tolist() if v.dtype.kind in "biu" else v.tolist()


def evaluate(case):
    """run one public-function case against NumPy; list of (aspect, message, observed)"""
    import sparse

    op, kw = case["op"], case.get("kw", {})
    with warnings.catch_warnings():
        warnings.simplefilter("ignore")
        x, d = build(case)
        try:
            ref, ref_err = call_numpy(case, d), None
        except Exception as e:  # noqa: BLE001
            ref, ref_err = None, e
        try:
            got, got_err = call_impl(case, x), None
        except Exception as e:  # noqa: BLE001
            got, got_err = None, e
    res = []
    if op == "sort" and kw.get("stable") and isinstance(got_err, ValueError) and "stable" in str(got_err):
        return res  # documented: stable=True is not accepted
    if op in ("nonzero", "argwhere", "where") and case["fill"] != 0 and isinstance(got_err, ValueError) and "zero fill" in str(got_err):
        return res  # documented: these require a zero fill value (clean rejection, C07)
    if ref_err is not None:
        if got_err is None:
            res.append(("error", f"numpy raises {type(ref_err).__name__} but the call returned", None))
        elif impl.err_class(got_err) not in ("value", "index", "type"):
            res.append(("error", f"numpy raises {type(ref_err).__name__}; call raised {type(got_err).__name__}: {str(got_err)[:120]}", None))
        return res
    if got_err is not None:
        res.append(("error", f"raised {type(got_err).__name__}: {str(got_err)[:160]} (numpy returns)", None))
        return res
    if op == "sort" or op in ("argmax", "argmin"):
        if not isinstance(got, sparse.SparseArray):
            res.append(("type", f"result is {type(got).__name__}, not a sparse array", None))
            return res
        p = impl.canonical_problem(got)
        if p:
            res.append(("canonical", f"result not canonical: {p}", None))
        g = got.todense()
        ref = np.asarray(ref)
        if op == "sort" and g.dtype != ref.dtype:
            res.append(("dtype", f"dtype {g.dtype}, numpy {ref.dtype}", None))
        if op != "sort" and g.dtype.kind not in "iu":
            res.append(("dtype", f"index dtype {g.dtype}", None))
        if op == "sort" and not np.array_equal(np.asarray(got.fill_value), np.asarray(x.fill_value)):
            res.append(("fill", f"fill value {got.fill_value!r}, expected {x.fill_value!r}", None))
        if g.shape != ref.shape:
            res.append(("shape", f"shape {g.shape}, numpy {ref.shape}", list(g.shape)))
        if g.size == ref.size and not np.array_equal(g.reshape(-1), ref.reshape(-1)):
            res.append(("values", f"values differ: got {g.reshape(-1).tolist()!r:.200} numpy {ref.reshape(-1).tolist()!r:.200}", jsonable(g.reshape(-1))))
        elif g.size != ref.size:
            res.append(("values", f"size {g.size}, numpy {ref.size}", None))
        return res
    if op == "unique_values":
        g = np.asarray(got)
        if g.dtype != np.asarray(ref).dtype:
            res.append(("dtype", f"dtype {g.dtype}, numpy {np.asarray(ref).dtype}", None))
        if g.tolist() != np.asarray(ref).tolist():
            res.append(("values", f"values {g.tolist()!r:.200} numpy {np.asarray(ref).tolist()!r:.200}", jsonable(g)))
        return res
    if op == "unique_counts":
        gv, gc = np.asarray(got[0]), np.asarray(got[1])
        if gv.dtype != ref[0].dtype:
            res.append(("dtype", f"dtype {gv.dtype}, numpy {ref[0].dtype}", None))
        if gv.tolist() != ref[0].tolist() or gc.tolist() != ref[1].tolist():
            res.append(("values", f"values/counts {gv.tolist()!r:.150} {gc.tolist()!r:.150} numpy {ref[0].tolist()!r:.150} {ref[1].tolist()!r:.150}",
                        [jsonable(gv), jsonable(gc)]))
        return res
    if op in ("nonzero", "where"):
        if not isinstance(got, tuple) or len(got) != len(ref):
            res.append(("indices", f"result {type(got).__name__} of length {len(got) if hasattr(got, '__len__') else '?'}, numpy tuple of {len(ref)}", None))
            return res
        g = [np.asarray(a).tolist() for a in got]
        r = [a.tolist() for a in ref]
        if g != r:
            res.append(("indices", f"indices {g!r:.200} numpy {r!r:.200}", [list(t) for t in zip(*g)] if g and g[0] else []))
        return res
    if op == "argwhere":
        g, r = np.asarray(got), np.asarray(ref)
        if g.shape != r.shape or g.tolist() != r.tolist():
            res.append(("indices", f"argwhere {g.tolist()!r:.200} shape {g.shape} numpy {r.tolist()!r:.200} shape {r.shape}", g.tolist() if g.ndim == 2 else None))
        return res
    return res


def flat_row(case):
    """the flattened array as a model row: [[linear position, value], ...]"""
    shape = tuple(case["shape"])
    if not case["data"]:
        return []
    lin = np.ravel_multi_index(tuple(np.array(case["coords"], dtype=np.int64).reshape(len(case["data"]), len(shape)).T), shape) if shape else [0]
    return [[int(p), int(v)] for p, v in zip(np.asarray(lin).tolist(), case["data"])]


def columns_of(case):
    """(n, columns) of an argmax/argmin case along its axis: columns in row-major order of the remaining axes,
    each a list [[reduce coordinate, value], ...] in increasing reduce coordinate"""
    shape = tuple(case["shape"])
    axis = case["kw"].get("axis")
    nnz = len(case["data"])
    co = np.array(case["coords"], dtype=np.int64).reshape(nnz, len(shape))
    if axis is None:
        return int(np.prod(shape, dtype=np.int64)), [flat_row(case)]
    a = axis % len(shape)
    rest = tuple(d for i, d in enumerate(shape) if i != a)
    ncol = int(np.prod(rest, dtype=np.int64))
    cols = [[] for _ in range(ncol)]
    if nnz:
        other = np.delete(co, a, axis=1)
        cid = np.ravel_multi_index(tuple(other.T), rest) if rest else np.zeros(nnz, dtype=np.int64)
        for k in np.lexsort((co[:, a], cid)):
            cols[int(cid[k])].append([int(co[k, a]), int(case["data"][k])])
    return shape[a], cols


def model_requests(case, w):
    """driver requests whose answers give what the Lean model of the code under test predicts for a
    public-function case (int units; float cases are halves of ints, an order-preserving scaling), with the
    Excluded… predicates of the theorems; and a decoder.  None when the op has no model at this level (sort)."""
    op = case["op"]
    n = int(np.prod(case["shape"], dtype=np.int64))
    fill = case["fill"]
    if op in ("unique_values", "unique_counts"):
        row = flat_row(case)
        prune = not w["sf_" + op]
        first = ["c10_unique_values", prune, n, fill, row] if op == "unique_values" else ["c10_unique_counts", not w["perm"], prune, n, fill, row]

        def dec(o):
            sf, tb = o[1]["ok"]
            return {"predicted": o[0].get("ok"), "variant": {"prune": prune, "gather": not w["perm"]},
                    "excluded": {"ExcludedStoredFill": sf, "ExcludedTwoBelow": tb}}
        return [first, ["c10_excluded_unique", prune, n, fill, row]], dec
    if op in ("argmax", "argmin"):
        nd = len(case["shape"])
        axis = case["kw"].get("axis")
        if axis is not None and not -nd <= axis < nd:
            return None
        nred, cols = columns_of(case)
        if nred == 0:
            return None
        mx = op == "argmax"

        def dec(o):
            return {"predicted": o[0].get("ok"), "variant": {"prune": not w["sf_argminmax"]},
                    "excluded": {"ExcludedArgStoredFill": any(o[1]["ok"])}}
        return [["c10_argminmax_cols", not w["sf_argminmax"], mx, nred, fill, cols], ["c10_excluded_arg_cols", mx, nred, fill, cols]], dec
    if op in ("nonzero", "argwhere", "where"):
        xj = {"shape": case["shape"], "coords": case["coords"], "data": case["data"], "fill": fill}

        def dec(o):
            return {"predicted": o[0].get("ok"), "error": o[0].get("err"), "variant": {"prune": not w["sf_nonzero"]},
                    "excluded": {"StoresZero": any(v == 0 for v in case["data"])}}
        return [["c10_nonzero", not w["sf_nonzero"], xj]], dec
    return None


class Batch:
    """public-function cases: leg C immediately, model prediction (public-level leg A, region predicates) in one
    driver call per flush"""

    def __init__(self, ctx, w):
        self.ctx, self.w, self.items = ctx, w, []

    def add(self, case, leg_a=True):
        ctx = self.ctx
        fam = f"C:{case['op']}:{case.get('format', 'coo')[:4]}"
        ctx.case(fam, case, nontrivial=bool(int(np.prod(case["shape"], dtype=np.int64))))
        try:
            fails = evaluate(case)
        except Exception as e:  # noqa: BLE001
            ctx.fail("C", f"{case['op']}:harness", case, f"harness error {type(e).__name__}: {e}")
            return
        is_coo = case.get("format", "coo") == "coo"
        mr = model_requests(case, self.w) if (fails or (leg_a and is_coo)) else None
        got = None
        if mr is not None and leg_a and is_coo:
            got = self.observe(case)
        if mr is None:
            self.classify(case, fails, None)
        else:
            self.items.append((case, fails, mr, got, leg_a and is_coo))
        if len(self.items) >= 4000:
            self.flush()

    @staticmethod
    def observe(case):
        """the implementation's answer in the model's terms"""
        try:
            with warnings.catch_warnings():
                warnings.simplefilter("ignore")
                x, _ = build(case)
                r = call_impl(case, x)
            if case["op"] in ("argmax", "argmin"):
                return jsonable(r.todense().reshape(-1))
            if case["op"] == "unique_values":
                return jsonable(r)
            if case["op"] == "unique_counts":
                return [jsonable(r[0]), jsonable(r[1])]
            if case["op"] in ("nonzero", "where"):
                g = [np.asarray(a).tolist() for a in r]
                return [list(t) for t in zip(*g)] if g and g[0] else []
            if case["op"] == "argwhere":
                return np.asarray(r).tolist()
        except Exception as e:  # noqa: BLE001
            return {"raised": impl.err_class(e)}
        return None

    def classify(self, case, fails, model):
        for aspect, msg, observed in fails:
            c = dict(case)
            if observed is not None:
                c["observed"] = observed
            if model is not None:
                c["model"] = model
            name = f"{case['op']}:{aspect}"
            self.ctx.fail("C", name, c, msg, finding=findings.classify(PID, name, c, msg))

    def flush(self):
        if not self.items:
            return
        reqs = [r for _, _, (rq, _), _, _ in self.items for r in rq]
        outs = self.ctx.driver.run(reqs)
        k = 0
        for case, fails, (rq, dec), got, leg_a in self.items:
            model = dec(outs[k:k + len(rq)])
            k += len(rq)
            if leg_a:
                # public-level correspondence: the implementation answers what the model predicts
                pred = model["predicted"] if model.get("error") is None else {"raised": model["error"]}
                self.ctx.count("public_correspondence")
                if case["op"] in ("argmax", "argmin") and isinstance(got, dict):
                    pass  # the wrapper raised: its shape/error logic is not modelled (leg C reports it)
                elif got != pred:
                    self.ctx.fail("A", f"public:{case['op']}", case, f"model {str(pred)[:200]} implementation {str(got)[:200]}")
            self.classify(case, fails, model)
        self.items = []


# ------------------------------------------------------------------------------------------------
# generators of public-function cases
# ------------------------------------------------------------------------------------------------

EXT = [1, 1, 2, 2, 3, 3, 4, 5]


def rand_array_case(rng, allow_zero_extent=True):
    nd = int(rng.choice([1, 1, 2, 2, 3, 4]))
    for _ in range(30):
        shape = [int(rng.choice(EXT)) for _ in range(nd)]
        if allow_zero_extent and rng.random() < 0.06:
            shape[int(rng.integers(nd))] = 0
        if int(np.prod(shape, dtype=np.int64)) <= 120:
            break
    dtype = str(rng.choice(["int64"] * 8 + ["float64", "bool"]))
    lo = int(rng.integers(-3, 2))
    hi = int(rng.integers(lo, 4))
    fill = int(rng.choice([0, 0, 0, lo - 1, hi + 1, int(rng.integers(lo, hi + 1)), int(rng.integers(-4, 5))]))
    if dtype == "bool":  # conditions, the usual argument of where/nonzero/argwhere
        lo, hi, fill = 0, 1, int(rng.integers(0, 2))
    d = gen.dense(rng, tuple(shape), fill, lo=lo, hi=hi)
    stored = d != fill
    if rng.random() < 0.3:  # explicitly stored fill values ("every stored subset")
        stored = stored | (rng.random(size=d.shape) < float(rng.choice([0.2, 0.5, 1.0])))
    co = np.argwhere(stored)
    fmt = str(rng.choice(["coo", "coo", "coo", "gcxs", "dok"]))
    case = {"shape": shape, "fill": fill, "coords": co.tolist(), "data": d[stored].tolist(), "format": fmt,
            "dtype": dtype}
    if fmt == "gcxs" and nd >= 2:
        ch = gen.compressed_axes_choices(nd)
        case["compressed_axes"] = [int(a) for a in ch[int(rng.integers(len(ch)))]]
    return case


def ops_for(rng, base):
    """the public calls tried on one array"""
    nd = len(base["shape"])
    shape = base["shape"]
    size = int(np.prod(shape, dtype=np.int64))
    coo = base["format"] == "coo"
    for _ in range(2):
        ax = int(rng.integers(-nd, nd))
        yield dict(base, op="sort", kw={"axis": ax, "descending": bool(rng.random() < 0.5)})
    if rng.random() < 0.3:
        yield dict(base, op="sort", kw={"descending": bool(rng.random() < 0.5)})  # default axis
    if rng.random() < 0.1:
        yield dict(base, op="sort", kw={"axis": int(rng.integers(-nd, nd)), "stable": True})
    for op in ("argmax", "argmin"):
        if size > 0:
            yield dict(base, op=op, kw={"axis": None, "keepdims": bool(rng.random() < 0.4)})
        ax = int(rng.integers(-nd, nd))
        if shape[ax] > 0:
            yield dict(base, op=op, kw={"axis": ax, "keepdims": bool(rng.random() < 0.5)})
    yield dict(base, op="unique_values")
    yield dict(base, op="unique_counts")
    if coo:
        yield dict(base, op="nonzero")
        yield dict(base, op="argwhere")
    yield dict(base, op="where")


def leg_c_random(ctx, rng, n, batch):
    for k in range(n):
        base = rand_array_case(rng)
        for case in ops_for(rng, base):
            batch.add(case)
        if k % 100 == 0:
            core.log(f"C10 leg C {k}/{n}")
    batch.flush()


def corpus():
    """fixed cases: the witnesses of the findings and the situations the property names"""
    def one_d(vals, stored, fill):
        return {"shape": [len(vals)], "fill": fill, "coords": [[i] for i in stored], "data": [vals[i] for i in stored], "format": "coo"}

    c = []
    w1 = one_d([-3, -2, 0, 1, 0], [0, 1, 3], 0)
    c += [dict(w1, op="unique_counts"), dict(w1, op="unique_values")]
    e = one_d([0, 0], [0], 0)
    c += [dict(e, op=o, kw={}) if o in ("argmax", "argmin") else dict(e, op=o) for o in ("argmax", "argmin", "unique_values", "unique_counts", "nonzero", "argwhere", "where")]
    cube = {"shape": [2, 2, 2], "fill": 0, "coords": [list(i) for i in np.ndindex(2, 2, 2)][1:], "data": list(range(1, 8)), "format": "coo"}
    for ax in (-1, -2, -3, 0, 1, 2):
        for kd in (True, False):
            c.append(dict(cube, op="argmax", kw={"axis": ax, "keepdims": kd}))
    v = one_d([0, 3, 1], [1, 2], 0)
    for ax in (0, -1, None):
        for kd in (True, False):
            c.append(dict(v, op="argmin", kw={"axis": ax, "keepdims": kd}))
    c.append(dict(one_d([5], [0], 0), op="sort", kw={}))
    c.append(dict(one_d([0], [], 0), op="sort", kw={"descending": True}))
    c.append({"shape": [1, 3], "fill": 0, "coords": [[0, 1], [0, 2]], "data": [3, 1], "format": "coo", "op": "argmax", "kw": {"axis": 1, "keepdims": False}})
    c.append({"shape": [3, 1], "fill": 0, "coords": [[1, 0], [2, 0]], "data": [3, 1], "format": "coo", "op": "argmin", "kw": {"axis": 0, "keepdims": False}})
    for shp, ax in (([2, 0], 1), ([0], 0), ([0, 3], 0), ([0, 3], 1), ([3, 0, 2], 1)):
        c.append({"shape": shp, "fill": 0, "coords": [], "data": [], "format": "coo", "op": "sort", "kw": {"axis": ax}})
    # fill above / below / between / tied, rows empty / partly / fully filled, both directions
    m = {"shape": [4, 5], "fill": 1, "format": "coo",
         "coords": [[0, 0], [0, 2], [0, 4], [2, 0], [2, 1], [2, 2], [2, 3], [2, 4], [3, 1], [3, 3]],
         "data": [3, -2, 1, 2, 2, -1, 5, 0, 1, 1]}
    for f in (-5, 0, 1, 2, 9):
        for desc in (False, True):
            for ax in (0, 1, -1, -2):
                c.append(dict(m, fill=f, op="sort", kw={"axis": ax, "descending": desc}))
        for op in ("argmax", "argmin"):
            for ax in (0, 1, None, -1):
                c.append(dict(m, fill=f, op=op, kw={"axis": ax, "keepdims": False}))
        c += [dict(m, fill=f, op="unique_counts"), dict(m, fill=f, op="unique_values")]
    for fmt in ("gcxs", "dok"):
        c += [dict(m, fill=0, format=fmt, op="sort", kw={"axis": 0}), dict(m, fill=0, format=fmt, op="argmax", kw={"axis": 1}),
              dict(m, fill=0, format=fmt, op="unique_counts"), dict(m, fill=0, format=fmt, op="where")]
    return c


# ------------------------------------------------------------------------------------------------
# exhaustive small box (thorough tier) and its sampled version (quick tier)
# ------------------------------------------------------------------------------------------------

def stacked_case(rows, n, fill):
    return {"shape": [len(rows), n], "fill": fill, "format": "coo",
            "coords": [[i, p] for i, r in enumerate(rows) for p, _ in r], "data": [v for r in rows for _, v in r]}


def box(ctx, rng, batch, lengths, fills, sample=None):
    """every row of the box (or a sample) through: both kernels vs the model (leg A), the theorem statements
    (leg B), the public sort/argmax/argmin on the stacked 2-d array and unique_* per row vs NumPy (leg C)."""
    import sparse

    w = batch.w
    total = 0
    for n in lengths:
        rows_all = list(all_rows(n))
        for fill in fills:
            rows = rows_all
            if sample is not None and len(rows) > sample:
                idx = rng.choice(len(rows), size=sample, replace=False)
                rows = [rows_all[int(i)] for i in sorted(idx)]
            total += len(rows)
            for part in chunks(rows, 1500):
                for desc in (False, True):
                    leg_a_sort_kernel(ctx, part, n, fill, desc, use_py=False)
                for mx in (True, False):
                    leg_a_minmax_kernel(ctx, part, n, fill, mx, use_py=False)
                leg_b_rows(ctx, part, n, fill, w)
                if n == 0:
                    continue
                # leg C on the stacked array: row i of the 2-d array is row i of the box
                sc = stacked_case(part, n, fill)
                with warnings.catch_warnings():
                    warnings.simplefilter("ignore")
                    x, d = build(sc)
                    for desc in (False, True):
                        ctx.case("C:box:sort", [n, fill, desc, len(part)], nontrivial=True)
                        try:
                            g = sparse.sort(x, axis=1, descending=desc).todense()
                        except Exception as e:  # noqa: BLE001
                            ctx.fail("C", "sort:error", dict(sc, op="sort", kw={"axis": 1, "descending": desc}), f"raised {type(e).__name__}: {e}")
                            continue
                        ref = np.sort(d, axis=1)
                        ref = ref[:, ::-1] if desc else ref
                        for i in np.nonzero((g != ref).any(axis=1))[0][:20]:
                            batch.add(dict(stacked_case([part[int(i)]] * 2, n, fill), op="sort", kw={"axis": 1, "descending": desc}))
                    for op in ("argmax", "argmin"):
                        ctx.case(f"C:box:{op}", [n, fill, len(part)], nontrivial=True)
                        try:
                            g = getattr(sparse, op)(x, axis=1).todense().reshape(-1)
                        except Exception as e:  # noqa: BLE001
                            ctx.fail("C", f"{op}:error", dict(sc, op=op, kw={"axis": 1}), f"raised {type(e).__name__}: {e}")
                            continue
                        ref = getattr(np, op)(d, axis=1)
                        bad = np.nonzero(g != ref)[0] if g.shape == ref.shape else np.arange(len(part))
                        # each failing row must be inside the Lean region and predicted by the model
                        if len(bad):
                            cols = [[[p, v] for p, v in part[int(i)]] for i in bad]
                            o = ctx.driver.run([["c10_argminmax_cols", not w["sf_argminmax"], op == "argmax", n, fill, cols],
                                                ["c10_excluded_arg_cols", op == "argmax", n, fill, cols]])
                            for i, pred, exc in zip(bad, o[0]["ok"], o[1]["ok"]):
                                r = part[int(i)]
                                case = dict(stacked_case([r] * 2, n, fill), op=op, kw={"axis": 1},
                                            observed=[int(g[i])] * 2, model={"predicted": [pred] * 2, "variant": {"prune": not w["sf_argminmax"]},
                                                   "excluded": {"ExcludedArgStoredFill": exc}})
                                name = f"{op}:values"
                                msg = f"row {dense_row(n, fill, r)} stored {r}: got {int(g[i])} numpy {int(ref[i])}"
                                ctx.fail("C", name, case, msg, finding=findings.classify(PID, name, case, msg))
                # unique_* per row through the public functions
                step = 1 if sample is None else max(1, len(part) // 150)
                for r in part[::step]:
                    base = {"shape": [n], "fill": fill, "coords": [[p] for p, _ in r], "data": [v for _, v in r], "format": "coo"}
                    batch.add(dict(base, op="unique_counts"))
                    batch.add(dict(base, op="unique_values"))
            batch.flush()
            core.log(f"C10 box n={n} fill={fill} rows={len(rows)}")
    ctx.count("box_rows", total)
    return total


# ------------------------------------------------------------------------------------------------

def leg_a_random(ctx, rng, n, w):
    for k in range(n):
        nn = int(rng.choice([0, 1, 2, 3, 4, 5, 6, 8]))
        rows = rand_rows(rng, int(rng.integers(0, 7)), nn)
        fill = int(rng.integers(-4, 5))
        use_py = k % 3 == 0
        leg_a_sort_kernel(ctx, rows, nn, fill, bool(k % 2), use_py)
        leg_a_minmax_kernel(ctx, rows, nn, fill, bool((k // 2) % 2), use_py)
        if k % 4 == 0:
            leg_b_rows(ctx, rows, nn, fill, w)


def replay(ctx, path):
    """./check C10 --replay <file>: re-run the failing case(s) of a replay file on the code under test"""
    obj = json.loads(open(path).read())
    w = {k: bool(v) for k, v in replay_witnesses().items()}
    cases = [f["case"] for f in [obj.get("failure")] + list(obj.get("more") or []) + list(obj.get("correspondence_failures") or []) if f]
    still = 0
    for case in cases:
        if not isinstance(case, dict) or "op" not in case:
            print(f"not a public-function case (kernel/spec correspondence): {json.dumps(case)[:300]}")
            continue
        case = {k: v for k, v in case.items() if k not in ("observed", "model")}
        fails = evaluate(case)
        for aspect, msg, _ in fails:
            still += 1
            print(f"STILL-FAILS {case['op']}:{aspect}: {msg}")
        if not fails:
            print(f"passes now: {case['op']} {case.get('kw', {})} shape={case['shape']}")
    return 1 if still else 0


def run(ctx):
    ctx.trusted = TRUSTED
    ctx.assumptions = [
        "NumPy's functions are the specification (np.sort, flipped for descending; np.argmax/argmin; np.unique; np.nonzero/argwhere)",
        "element values are small integers (exact) or halves; NaN ordering is outside the property as tested",
        "stable=True (documented as unsupported) and non-zero fill values for nonzero/argwhere/where (documented ValueError) count as not accepted",
        "argmax/argmin over a zero-length axis (NumPy raises) is not generated",
    ]
    core.prove(ctx, PID, uses=[])
    w = replay_witnesses()
    ctx.notes["witnesses_defect_present"] = w
    ctx.notes["partial"] = {
        "argmax_first_occurrence_partial/argmin_first_occurrence_partial": "ExcludedArgStoredFill",
        "unique_values_partial": "ExcludedStoredFill",
        "unique_counts_partial": "ExcludedTwoBelow, ExcludedStoredFill",
        "nonzero_rowmajor": "array stores a zero",
    }
    ctx.notes["stated_not_proved"] = ["Statement_argmax_first_occurrence", "Statement_argmin_first_occurrence", "Statement_unique_values_spec",
                                      "Statement_unique_counts_spec", "Statement_nonzero_rowmajor"]
    if any(v is None for v in w.values()):
        ctx.broke("witness-replay", f"a witness could not be replayed: {w}")
        w = {k: bool(v) for k, v in w.items()}
    drift = []
    for rel, names in MODEL_MAP.items():
        try:
            now = core.source_fingerprint(rel, list(names))
        except Exception as e:  # noqa: BLE001
            now = {n: f"unreadable: {type(e).__name__}" for n in names}
        drift += [f"{rel}:{n}" for n in names if now.get(n) != names[n]]
    ctx.notes["source_drift"] = drift
    rng = gen.rng_for(ctx.seed, PID)
    batch = Batch(ctx, w)
    for case in corpus():
        batch.add(case)
    batch.flush()
    leg_a_random(ctx, rng, 60 if ctx.quick else 600, w)
    leg_c_random(ctx, rng, 110 if ctx.quick else 1500, batch)
    if ctx.quick:
        box(ctx, rng, batch, lengths=[0, 1, 2, 3, 4], fills=[-3, 0, 1, 3], sample=None if drift else 250)
        ctx.cov["exhaustive"] = False
    else:
        box(ctx, rng, batch, lengths=[0, 1, 2, 3, 4, 5], fills=[-3, -2, -1, 0, 1, 2, 3], sample=None)
        ctx.cov["exhaustive"] = True
    ctx.cov["rule"] = (
        "corpus (witnesses of the findings; fill above/below/between/tied; rows empty/partly/fully filled; negative axes; keepdims; "
        "formats) + seeded random arrays of rank 1-4 (extents {0..5}, values in a random window of [-3,3], fill below/inside/above it, "
        "30 % with explicitly stored fill values, COO/GCXS/DOK, 10 % float halves, 10 % bool) x every C10 function and option + the box of rows "
        "(thorough: EVERY row of length <= 5 over values {-2..2} x fill {-3..3} x every stored subset; quick: a sample of it) through both "
        "kernels, the model, the theorem statements and the public functions.  Non-trivial = the array/row has at least one element; "
        "distinct by content hash of (family, case).")
    import extra_ops  # operation tables closing the measured coverage gaps (tools/coverage_audit.py; coverage/API_COVERAGE.md)
    extra_ops.run(ctx, PID)

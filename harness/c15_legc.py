"""C15 leg C — every operation family re-run with the coordinates stored in a narrow index type.

Run as a worker (`python c15_legc.py <dtype> <tier> <seed> [limits] [subset] [families] [outfile]`): writes a
{"begin": case} line before and one {"family","case","status","detail"} line after every explored case; status is
  equal     both runs agree (same representation, or the same error class)
  rejected  the narrow run raised a ValueError whose message names the index dtype (allowed)
  differ    anything else: a failing input of the property
The reference run stores the same coordinates as int64.  Nothing here consults the model.
"""
from __future__ import annotations

import io
import json
import os
import pickle
import sys
import warnings

import numpy as np

IDX = ["int8", "uint8", "int16", "uint16", "int32", "uint32", "int64", "uint64"]
LIMITS = {"int8": 127, "uint8": 255, "int16": 32767, "uint16": 65535}
DENSE_CAP = 400_000  # never densify anything larger


def holds(t, shape):
    return max(shape, default=0) <= np.iinfo(t).max


# --------------------------------------------------------------------------------------------------
# canonical representation of a result (computed with 64-bit arithmetic on our side)
# --------------------------------------------------------------------------------------------------

def _coo_rep(shape, coords, data, fill):
    shape = tuple(int(s) for s in shape)
    coords = np.asarray(coords)
    if coords.dtype.kind not in "iu":
        return ("bad", f"coords dtype {coords.dtype}")
    if coords.dtype == np.uint64 and coords.size and int(coords.max()) > np.iinfo(np.int64).max:
        return ("bad", "coordinate above 2**63")
    c = coords.astype(np.int64)
    if c.ndim != 2 or c.shape[0] != len(shape) or c.shape[1] != len(data):
        return ("bad", f"coords shape {c.shape} for shape {shape} and {len(data)} values")
    if c.size:
        if (c < 0).any() or (c >= np.asarray(shape, dtype=np.int64)[:, None]).any():
            return ("bad", f"coordinate outside shape {shape}: column {c[:, np.argmax(((c < 0) | (c >= np.asarray(shape, dtype=np.int64)[:, None])).any(axis=0))].tolist()}")
    order = np.lexsort(c[::-1]) if c.shape[0] else np.arange(c.shape[1])
    c = c[:, order]
    d = np.asarray(data)[order]
    if c.shape[0] and c.shape[1] > 1 and all(s > 0 for s in shape):
        if not (np.diff(np.ravel_multi_index(tuple(c), shape)) > 0).all():
            return ("bad", "duplicate coordinates")
    return ("coo", shape, c, d, np.asarray(fill).tolist())


def rep(r):
    import scipy.sparse as sp
    import sparse

    if isinstance(r, sparse.COO):
        return _coo_rep(r.shape, r.coords, r.data, r.fill_value)
    if isinstance(r, sparse.GCXS):
        shape = tuple(int(s) for s in r.shape)
        if r.ndim <= 1:
            ind = np.asarray(r.indices)
            return _coo_rep(shape, ind.reshape((r.ndim, -1)) if r.ndim else np.empty((0, len(r.data)), dtype=np.int64), r.data, r.fill_value)
        ip = np.asarray(r.indptr)
        ind = np.asarray(r.indices)
        if ip.dtype.kind not in "iu" or ind.dtype.kind not in "iu":
            return ("bad", f"indptr/indices dtype {ip.dtype}/{ind.dtype}")
        ip = ip.astype(np.int64)
        rows, cols = (int(v) for v in r._compressed_shape)
        if len(ip) != rows + 1 or ip[0] != 0 or (np.diff(ip) < 0).any() or ip[-1] != len(ind) or len(ind) != len(r.data):
            return ("bad", f"indptr inconsistent: len {len(ip)} rows {rows} first {ip[:3].tolist()} last {ip[-3:].tolist()} nnz {len(ind)}")
        rr = np.repeat(np.arange(rows, dtype=np.int64), np.diff(ip))
        cc = ind.astype(np.int64)
        if cc.size and ((cc < 0).any() or (cc >= cols).any()):
            return ("bad", f"column index outside {cols}")
        rshape = tuple(int(v) for v in r._reordered_shape)
        lin = rr * cols + cc
        rc = np.stack(np.unravel_index(lin, rshape)) if lin.size else np.empty((len(rshape), 0), dtype=np.int64)
        inv = np.argsort(np.asarray(r._axis_order))
        return _coo_rep(shape, rc[inv], r.data, r.fill_value)
    if isinstance(r, sparse.DOK):
        ks = sorted(r.data)
        return _coo_rep(r.shape, np.array(ks, dtype=np.int64).T.reshape((r.ndim, len(ks))), [r.data[k] for k in ks], r.fill_value)
    if sp.issparse(r):
        m = r.tocoo()
        return _coo_rep(m.shape, np.stack([m.row, m.col]), m.data, 0)
    if isinstance(r, tuple | list):
        return ("seq", [rep(v) for v in r])
    a = np.asarray(r)
    return ("dense", a.shape, a.astype(np.float64) if a.dtype.kind in "fiub" else a)


def same(a, b):
    """None when equal, else a short description"""
    if a[0] != b[0]:
        return f"{a[0]} vs {b[0]}"
    if a[0] == "bad":
        return None if a[1] == b[1] else f"{a[1]} vs {b[1]}"
    if a[0] == "seq":
        if len(a[1]) != len(b[1]):
            return "sequence lengths differ"
        for u, v in zip(a[1], b[1]):
            m = same(u, v)
            if m:
                return m
        return None
    if a[0] == "dense":
        if a[1] != b[1]:
            return f"shape {a[1]} vs {b[1]}"
        if not np.array_equal(a[2], b[2], equal_nan=True):
            bad = np.flatnonzero(~np.isclose(np.ravel(a[2]), np.ravel(b[2]), equal_nan=True))[:3] if a[2].dtype.kind == "f" else []
            return f"dense values differ at flat positions {list(map(int, bad))}: {np.ravel(a[2])[bad].tolist()} vs {np.ravel(b[2])[bad].tolist()}"
        return None
    _, sa, ca, da, fa = a
    _, sb, cb, db, fb = b
    if sa != sb:
        return f"shape {sa} vs {sb}"
    if not (fa == fb or (fa != fa and fb != fb)):
        return f"fill {fa} vs {fb}"
    if ca.shape != cb.shape:
        return f"nnz {ca.shape[1]} vs {cb.shape[1]}"
    if not np.array_equal(ca, cb):
        j = int(np.argmax((ca != cb).any(axis=0)))
        return f"stored coordinates differ, first at position {j}: {ca[:, j].tolist()} vs {cb[:, j].tolist()}"
    if not np.array_equal(da, db, equal_nan=da.dtype.kind in "fc"):
        j = int(np.argmax(da != db))
        return f"stored values differ, first at {ca[:, j].tolist()}: {da[j]!r} vs {db[j]!r}"
    return None


# --------------------------------------------------------------------------------------------------
# scenarios: operands placed at the limits
# --------------------------------------------------------------------------------------------------

def _uniq(shape, pts):
    seen, out = set(), []
    for p in pts:
        p = tuple(int(v) for v in p)
        if len(p) == len(shape) and all(0 <= v < s for v, s in zip(p, shape)) and p not in seen:
            seen.add(p)
            out.append(p)
    out.sort()
    return np.array(out, dtype=np.int64).T.reshape((len(shape), len(out)))


def scenarios(L, rng, thorough, subset=False):
    """yield (name, shape, coords int64 (ndim, nnz), data) for extents/nnz just below, at and above L"""
    for n in ((L - 1, L) if subset else (L - 1, L, L + 1)):
        m = n // 2
        # 1-d, a few stored elements at both ends
        c = _uniq((n,), [(0,), (1,), (m,), (n - 2,), (n - 1,)])
        yield f"vec{n}", (n,), c, np.arange(1, c.shape[1] + 1)
        # 1-d, every element stored: nnz = extent
        yield f"vecfull{n}", (n,), np.arange(n, dtype=np.int64)[None, :], (np.arange(n) % 5 + 1)
        # (3, n): one full row (a long group for reductions), corners
        c = _uniq((3, n), [(0, 0), (0, n - 1), (2, 0), (2, n - 1), (0, m)] + [(1, j) for j in range(n)])
        yield f"wide{n}", (3, n), c, (np.arange(c.shape[1]) % 4 + 1)
        # (n, 3): corners and a sparse middle
        c = _uniq((n, 3), [(0, 0), (0, 2), (n - 1, 0), (n - 1, 2), (m, 1), (n - 2, 1), (1, 1)])
        yield f"tall{n}", (n, 3), c, np.arange(1, c.shape[1] + 1)
        # (n, n): corners and near-diagonal entries
        c = _uniq((n, n), [(0, 0), (0, n - 1), (n - 1, 0), (n - 1, n - 1), (n - 2, n - 1), (n - 1, n - 2), (m, m), (m, m + 1), (m + 1, m),
                           (1, 0), (0, 1), (n - 1, m), (m, n - 1), (100, 0) if n > 100 else (2, 0), (0, 100) if n > 100 else (0, 2)])
        yield f"square{n}", (n, n), c, np.arange(1, c.shape[1] + 1)
        # 3-d
        c = _uniq((2, n, 3), [(0, 0, 0), (1, n - 1, 2), (0, n - 1, 1), (1, 0, 2), (1, m, 0), (0, m, 2)])
        yield f"cube{n}", (2, n, 3), c, np.arange(1, c.shape[1] + 1)
    # number of stored elements at the limit while every extent is far below it
    r, cdim = (16, 17) if L < 1000 else (256, 257)
    for k in ((L, L + 1) if subset else (L - 1, L, L + 1, L + 2)):
        lin = np.arange(k, dtype=np.int64)
        yield f"nnz{k}", (r, cdim), np.stack(np.unravel_index(lin, (r, cdim))).astype(np.int64), (lin % 3 + 1)


# --------------------------------------------------------------------------------------------------
# operations.  Each entry: (family, name, min_ndim, max_ndim, f(ctx) -> result); ctx gives x, y, n, t
# --------------------------------------------------------------------------------------------------

class Operands:
    def __init__(self, shape, coords, data, t, L):
        import sparse

        self.L = L
        self.t = np.dtype(t)
        self.shape = shape
        self.nd = len(shape)
        self.n = max(shape)
        self.mk = lambda c, d, s: sparse.COO(np.asarray(c).astype(self.t), np.asarray(d), shape=tuple(s), has_duplicates=False, sorted=True)
        self.x = self.mk(coords, data, shape)
        self.mk64 = lambda: sparse.COO(np.asarray(coords, dtype=np.int64), np.asarray(data), shape=tuple(shape), has_duplicates=False, sorted=True)
        # second operand: same shape, pattern mirrored along the last axis (overlaps partly)
        c2 = coords.copy()
        if c2.size:
            c2[-1] = shape[-1] - 1 - c2[-1]
            order = np.lexsort(c2[::-1])
            c2 = c2[:, order]
            d2 = (np.asarray(data)[order] % 3) + 1
        else:
            d2 = np.asarray(data)
        self.y = self.mk(c2, d2, shape)
        self.coords, self.data = coords, np.asarray(data)
        self.nnz = coords.shape[1]
        self.small = int(np.prod(shape, dtype=np.int64)) <= DENSE_CAP


_NUMBA = {}


def _njit():
    if not _NUMBA:
        import numba

        @numba.njit
        def ident(a):
            return a

        @numba.njit
        def shape_of(a):
            return a.shape

        @numba.njit
        def nnz_of(a):
            return a.coords.shape[1]

        _NUMBA.update(ident=ident, shape_of=shape_of, nnz_of=nnz_of)
    return _NUMBA


def op_table(o: Operands, subset=False):
    """list of (family, name, thunk).  Everything is a function of the operands only (deterministic)."""
    import sparse

    x, y, n, nd, t, L = o.x, o.y, o.n, o.nd, o.t, o.L
    ops = []

    def add(family, name, f, cond=True):
        if cond:
            ops.append((family, name, f))

    ax = int(np.argmax(o.shape))  # the long axis
    e = o.shape[ax]
    sl = lambda s: (slice(None),) * ax + (s,)  # noqa: E731
    # ---- indexing -------------------------------------------------------------------------------
    for s in [slice(None, None, -1), slice(5, None, -1), slice(e - 1, 0, -2), slice(1, None), slice(2, e - 1, 3), slice(None, None, 2),
              slice(e - 2, None), slice(None, None, e - 1), slice(None, None, e), slice(None, None, e + 1), slice(None, None, -(e - 1)),
              slice(None, None, 200), slice(None, None, 40000), slice(None, None, -200), slice(-3, None), slice(None, -3, -1)]:
        add("getitem", f"x[{'ax%d ' % ax}{s.start}:{s.stop}:{s.step}]", lambda s=s: x[sl(s)])
    add("getitem", "x[int -1]", lambda: x[sl(-1)])
    add("getitem", "x[int e-1]", lambda: x[sl(e - 1)])
    add("getitem", "x[int 0]", lambda: x[sl(0)])
    add("getitem", "x[..., None]", lambda: x[..., None])
    add("getitem", "x[None]", lambda: x[None])
    add("getitem", "x[adv [0,e-1,1]]", lambda: x[sl(np.array([0, e - 1, 1]))])
    add("getitem", "x[adv [e-1,0]]", lambda: x[sl([e - 1, 0])])
    # an index array with more entries than the index type can count: the RESULT axis outgrows the operands' type
    for kk in ((L + 2,) if subset else (L, L + 1, L + 2)):
        add("getitem", f"x[adv long {kk}]", lambda kk=kk: x[sl(np.arange(kk) % e)])
        add("getitem", f"x[adv long {kk} ax0]", lambda kk=kk: x[np.arange(kk) % o.shape[0]], ax != 0 and not subset)
        add("getitem", f"dok[adv long {kk}]", lambda kk=kk: x.asformat("dok")[sl(np.arange(kk) % e)].asformat("coo"), nd <= 2 and o.nnz <= 2000 and not subset)
    add("getitem", "x[::-1,::-1]", lambda: x[::-1, ::-1], nd >= 2)
    add("getitem", "x[1:, :-1]", lambda: x[1:, :-1], nd >= 2)
    add("getitem", "x[bool mask]", lambda: x[sl(np.arange(e) % 2 == 0)], e <= 70000)
    add("getitem", "take", lambda: sparse.take(x, np.array([0, e - 1]), axis=ax))
    add("getitem", "nonzero", lambda: x.nonzero())
    add("getitem", "argwhere", lambda: sparse.argwhere(x))
    # ---- reductions -----------------------------------------------------------------------------
    add("reduce", "sum()", lambda: x.sum())
    for a in range(nd):
        add("reduce", f"sum(axis={a})", lambda a=a: x.sum(axis=a))
        add("reduce", f"max(axis={a})", lambda a=a: x.max(axis=a), not subset)
        add("reduce", f"mean(axis={a})", lambda a=a: x.mean(axis=a), not subset)
        add("reduce", f"any(axis={a})", lambda a=a: x.any(axis=a), not subset)
        add("reduce", f"sum(axis={a},keepdims)", lambda a=a: x.sum(axis=a, keepdims=True), not subset)
        add("reduce", f"argmax(axis={a})", lambda a=a: sparse.argmax(x, axis=a), not subset and nd <= 2)
    add("reduce", "sum(axis=(0,-1))", lambda: x.sum(axis=(0, -1)), nd >= 2)
    add("reduce", "min()", lambda: x.min(), not subset)
    add("reduce", "prod(axis=0)", lambda: x.prod(axis=0), not subset)
    add("reduce", "(x>1).sum(axis=-1)", lambda: (x > 1).sum(axis=-1), not subset)
    add("reduce", "argmax()", lambda: sparse.argmax(x), not subset)
    # ---- shape ----------------------------------------------------------------------------------
    size = int(np.prod(o.shape, dtype=np.int64))
    add("reshape", "reshape(-1)", lambda: x.reshape((-1,)))
    add("reshape", "flatten", lambda: x.flatten())
    add("reshape", "reshape(1,-1)", lambda: x.reshape((1, -1)))
    add("reshape", "reshape(reversed)", lambda: x.reshape(o.shape[::-1]), nd >= 2)
    add("reshape", "reshape(-1,last)", lambda: x.reshape((-1, o.shape[-1])), nd >= 3)
    add("reshape", "reshape(first,-1)", lambda: x.reshape((o.shape[0], -1)), nd >= 3)
    for k in (2, 3, 5):
        add("reshape", f"reshape(-1,{k})", lambda k=k: x.reshape((-1, k)), size % k == 0)
        add("reshape", f"reshape({k},-1)", lambda k=k: x.reshape((k, -1)), size % k == 0)
    add("transpose", "T", lambda: x.T)
    add("transpose", "transpose(rot)", lambda: x.transpose(tuple(range(1, nd)) + (0,)), nd >= 3)
    add("transpose", "swapaxes(0,-1)", lambda: x.swapaxes(0, -1), nd >= 2)
    add("transpose", "moveaxis(0,-1)", lambda: sparse.moveaxis(x, 0, -1), nd >= 2)
    add("shape", "expand_dims(0)", lambda: sparse.expand_dims(x, axis=0))
    add("shape", "expand_dims(-1)", lambda: sparse.expand_dims(x, axis=-1))
    add("shape", "squeeze(x[None])", lambda: sparse.squeeze(sparse.expand_dims(x, axis=0), axis=0))
    add("shape", "broadcast_to", lambda: sparse.broadcast_to(x, (2,) + o.shape), o.nnz <= 1000)
    add("shape", "broadcast_to col", lambda: sparse.broadcast_to(x[..., :1], o.shape[:-1] + (3,)), o.nnz <= 1000)
    # ---- joining --------------------------------------------------------------------------------
    for a in sorted({0, nd - 1}):
        add("concatenate", f"concatenate([x,y],{a})", lambda a=a: sparse.concatenate([x, y], axis=a))
        add("concatenate", f"concatenate([x,x[:1]],{a})", lambda a=a: sparse.concatenate([x, x[(slice(None),) * a + (slice(0, 1),)]], axis=a))
        add("concatenate", f"concatenate([x[:2],x],{a})", lambda a=a: sparse.concatenate([x[(slice(None),) * a + (slice(0, 2),)], x], axis=a))
        add("concatenate", f"concatenate([x,y,x],{a})", lambda a=a: sparse.concatenate([x, y, x], axis=a), not subset)
        add("stack", f"stack([x,y],{a})", lambda a=a: sparse.stack([x, y], axis=a))
    add("stack", "stack([x,y],-1)", lambda: sparse.stack([x, y], axis=-1))
    # the NEW axis of stack / the grown axis of concatenate counts the operands: more operands than the operands' index type can count
    if nd == 1:
        tiny = o.mk(np.array([[0, 1]]), np.array([1, 2]), (2,))
        tiny2 = o.mk(np.array([[0, 1], [0, 1]]), np.array([3, 4]), (2, 2))
        for k in ((L, L + 2) if subset else (L - 1, L, L + 1, L + 2)):
            add("concatenate", f"stack([tiny]*{k},0)", lambda k=k: sparse.stack([tiny] * k, axis=0))
            add("concatenate", f"stack([tiny]*{k},-1)", lambda k=k: sparse.stack([tiny] * k, axis=-1))
            add("concatenate", f"stack([tiny2]*{k},1)", lambda k=k: sparse.stack([tiny2] * k, axis=1), not subset)
            add("concatenate", f"concatenate([tiny]*{k})", lambda k=k: sparse.concatenate([tiny] * k, axis=0))
            add("concatenate", f"concatenate([tiny2]*{k},1)", lambda k=k: sparse.concatenate([tiny2] * k, axis=1), not subset)
            add("gcxs-join", f"stack([tiny2.gcxs]*{k},0)", lambda k=k: sparse.stack([tiny2.asformat("gcxs")] * k, axis=0), not subset)
            add("gcxs-join", f"stack([tiny.gcxs]*{k},0)", lambda k=k: sparse.stack([tiny.asformat("gcxs")] * k, axis=0))
    # operands of DIFFERENT index types: a narrow-index operand broadcast against a wide-index operand that has more rows than the narrow
    # type can count (the matched / broadcast coordinates come from the wide operand)
    if nd == 1:
        m = 4
        nar1 = o.mk(np.array([[0, 2, 3]]), np.array([2, 3, 4]), (m,))
        nar2 = o.mk(np.array([[0, 0, 0], [0, 2, 3]]), np.array([2, 3, 4]), (1, m))
        wrows, wcols = np.array([0, 1, L - 1, L, L + 1, L + 1]), np.array([0, 2, 3, 0, 2, 3])
        wide = sparse.COO(np.stack([wrows, wcols]).astype(np.int64), np.arange(1, 7), shape=(L + 2, m), has_duplicates=False, sorted=True)
        widef = sparse.COO(np.stack([wrows, wcols]).astype(np.int64), np.arange(1, 7), shape=(L + 2, m), has_duplicates=False, sorted=True, fill_value=1)
        # products: the result's column numbers come from the RIGHT operand's last axis, which the left operand's narrow type cannot count
        left = o.mk(np.array([[0, 1, 2, 2], [0, 2, 1, 3]]), np.array([1, 2, 3, 4]), (3, m))
        rcols = np.array([0, 1, L - 1, L, L + 1, L + 1])
        right = sparse.COO(np.stack([np.array([0, 2, 3, 0, 1, 3]), rcols]).astype(np.int64), np.arange(1, 7), shape=(m, L + 2), has_duplicates=False, sorted=True)
        add("product", "narrow@wide", lambda: left @ right)
        add("product", "dot(narrow,wide)", lambda: sparse.dot(left, right))
        add("product", "tensordot(narrow,wide)", lambda: sparse.tensordot(left, right, axes=([1], [0])), not subset)
        add("product", "wide.T@narrow.T", lambda: right.T @ left.T, not subset)
        add("product", "narrow.gcxs@wide.gcxs", lambda: left.asformat("gcxs") @ right.asformat("gcxs"), not subset)
        add("product", "einsum(narrow,wide)", lambda: sparse.einsum("ij,jk->ik", left, right), not subset)
        add("product", "kron(narrow,narrow big)", lambda: sparse.kron(left, o.mk(np.array([[0, L // 3]]), np.array([1, 2]), (L // 3 + 1,))), not subset)
        for nm, nar in (("nar(m,)", nar1), ("nar(1,m)", nar2)):
            add("elemwise", f"{nm}*wide", lambda nar=nar: nar * wide)
            add("elemwise", f"wide*{nm}", lambda nar=nar: wide * nar)
            add("elemwise", f"{nm}+wide", lambda nar=nar: nar + wide)
            add("elemwise", f"maximum({nm},wide)", lambda nar=nar: sparse.elemwise(np.maximum, nar, wide), not subset)
            add("elemwise", f"{nm}*wide(fill 1)", lambda nar=nar: nar * widef, not subset)
            add("elemwise", f"where(wide>2,{nm},wide)", lambda nar=nar: sparse.where(wide > 2, nar, wide), not subset)
            add("gcxs-elemwise", f"gcxs {nm}*wide", lambda nar=nar: nar.asformat("gcxs") * wide.asformat("gcxs"), not subset)
    add("concatenate", "concatenate(axis=None)", lambda: sparse.concatenate([x, y], axis=None), not subset)
    # ---- roll / flip ----------------------------------------------------------------------------
    for sh in (1, -1, e - 1, -(e - 1), e, 2 * e + 1, L - e + 1, L - e, L, -L, 100, -100):
        add("roll", f"roll({sh},axis={ax})", lambda sh=sh: sparse.roll(x, sh, axis=ax))
    add("roll", "roll(3)", lambda: sparse.roll(x, 3))
    add("roll", "roll(-3)", lambda: sparse.roll(x, -3))
    add("roll", "roll((1,2),(0,-1))", lambda: sparse.roll(x, (1, 2), axis=(0, nd - 1)), nd >= 2)
    add("roll", "roll((-1,e-1),(0,ax))", lambda: sparse.roll(x, (-1, e - 1), axis=(0, ax)), nd >= 2)
    add("roll", "roll((1,1),(ax,ax))", lambda: sparse.roll(x, (1, 1), axis=(ax, ax)), nd >= 2)
    add("roll", "roll(2,axis=(0,-1))", lambda: sparse.roll(x, 2, axis=(0, nd - 1)), nd >= 2)
    add("flip", "flip()", lambda: sparse.flip(x))
    add("flip", f"flip({ax})", lambda: sparse.flip(x, axis=ax))
    add("flip", "flip(0)", lambda: sparse.flip(x, axis=0))
    # ---- kron / pad -----------------------------------------------------------------------------
    two = o.mk(np.zeros((nd, 2), dtype=np.int64) + np.array([0, 1])[None, :] * (np.arange(nd) == nd - 1)[:, None], [1, 2], (1,) * (nd - 1) + (2,))
    add("kron", "kron(x,[1,2])", lambda: sparse.kron(x, two), o.nnz <= 70000)
    add("kron", "kron([1,2],x)", lambda: sparse.kron(two, x), o.nnz <= 70000)
    add("kron", "kron(x[:2],y[:3])", lambda: sparse.kron(x[sl(slice(0, 2))], y[sl(slice(0, 3))]), not subset)
    add("pad", "pad(1)", lambda: sparse.pad(x, 1))
    add("pad", "pad((0,1))", lambda: sparse.pad(x, (0, 1)))
    add("pad", "pad((2,0))", lambda: sparse.pad(x, (2, 0)))
    add("pad", "pad(L)", lambda: sparse.pad(x, ((0, 0),) * ax + ((L, 0),) + ((0, 0),) * (nd - ax - 1)), not subset)
    # ---- triangles / diagonals ------------------------------------------------------------------
    if nd >= 2:
        for k in (0, 1, -1, 2, e - 1, -(e - 1), 100, -100, L, -L, L - 1, L + 1, e + 5):
            add("triu", f"triu(k={k})", lambda k=k: sparse.triu(x, k))
            add("tril", f"tril(k={k})", lambda k=k: sparse.tril(x, k))
    if nd >= 2 and o.shape[0] == o.shape[1] and o.nnz <= 5000:
        for k in (0, 1, -1, e - 2, -(e - 2), 100, -100, L - e + 1):
            add("diagonal", f"diagonal({k})", lambda k=k: sparse.diagonal(x, offset=k), abs(k) < e)
    add("diagonal", "diagonalize", lambda: sparse.diagonalize(x, axis=ax), o.nnz <= 70000)
    # ---- element-wise ---------------------------------------------------------------------------
    add("elemwise", "x+y", lambda: x + y)
    add("elemwise", "x*y", lambda: x * y)
    add("elemwise", "x*2", lambda: x * 2)
    add("elemwise", "x-y", lambda: x - y, not subset)
    add("elemwise", "x>y", lambda: x > y, not subset)
    add("elemwise", "maximum", lambda: sparse.elemwise(np.maximum, x, y), not subset)
    add("elemwise", "where", lambda: sparse.where(x > 1, x, y), not subset)
    add("elemwise", "x*row (broadcast)", lambda: x * x[:1], nd >= 2)
    add("elemwise", "x*col (broadcast)", lambda: x * y[..., :1], nd >= 2 and o.nnz <= 5000)
    add("elemwise", "x+x.T", lambda: x + y.T, nd == 2 and o.shape[0] == o.shape[1])
    add("elemwise", "x*dense row", lambda: x * np.arange(1, o.shape[-1] + 1), True)
    add("elemwise", "astype/copy", lambda: x.astype(np.float32).copy(), not subset)
    add("elemwise", "clip", lambda: sparse.clip(x, 1, 3), not subset)
    # ---- products -------------------------------------------------------------------------------
    if nd == 2:
        a, b = (x, y.T) if o.shape[0] <= o.shape[1] else (x.T, y)
        add("product", "a@b (small result)", lambda: a @ b)
        add("product", "matmul other way", lambda: b @ a, o.nnz <= 200)
        add("product", "x@dense", lambda: x @ np.ones((o.shape[1], 2), dtype=np.int64))
        add("product", "dense@x", lambda: np.ones((2, o.shape[0]), dtype=np.int64) @ x)
        add("product", "tensordot", lambda: sparse.tensordot(a, b, axes=([1], [0])), not subset)
        add("product", "einsum ij,kj->ik", lambda: sparse.einsum("ij,kj->ik", a, a), not subset)
    add("product", "dot 1-d", lambda: sparse.dot(x, y), nd == 1)
    add("product", "x@dense 1-d", lambda: x @ np.arange(e), nd == 1)
    add("product", "outer-ish x[:,None]*y[None,:3]", lambda: x[:, None] * y[None, :3], nd == 1 and not subset)
    # ---- sorting, sets --------------------------------------------------------------------------
    add("sort", "sort(-1)", lambda: sparse.sort(x, axis=-1), not subset and o.small)
    add("sort", "sort(0)", lambda: sparse.sort(x, axis=0), not subset and o.small)
    add("sort", "unique_values", lambda: sparse.unique_values(x), not subset and o.small)
    add("sort", "unique_counts", lambda: tuple(sparse.unique_counts(x)), not subset and o.small)
    # ---- conversions ----------------------------------------------------------------------------
    add("convert", "asformat(gcxs)", lambda: x.asformat("gcxs"))
    add("convert", "GCXS(x,idx_dtype=own)", lambda: sparse.GCXS(x, idx_dtype=x.coords.dtype.type))
    add("convert", "asformat(gcxs,idx_dtype=own)", lambda: x.asformat("gcxs", idx_dtype=x.coords.dtype.type), not subset)
    for ca in ([(0,), (nd - 1,)] if nd >= 2 else []) + ([(0, 1), (0, 2)] if nd >= 3 else []):
        add("convert", f"asformat(gcxs,ca={ca})", lambda ca=ca: x.asformat("gcxs", compressed_axes=ca))
        add("convert", f"gcxs(ca={ca}).tocoo()", lambda ca=ca: x.asformat("gcxs", compressed_axes=ca).tocoo())
    add("convert", "gcxs.tocoo()", lambda: x.asformat("gcxs").tocoo())
    add("convert", "gcxs.todense()", lambda: x.asformat("gcxs").todense(), o.small)
    add("convert", "todense()", lambda: x.todense(), o.small)
    add("request", "COO.from_numpy(idx_dtype=t)", lambda: sparse.COO.from_numpy(o.mk64().todense(), idx_dtype=t.type), o.small)
    add("request", "GCXS.from_numpy(idx_dtype=t)", lambda: sparse.GCXS.from_numpy(o.mk64().todense(), idx_dtype=t.type), o.small and not subset)
    add("request", "COO(coords,idx_dtype=t)", lambda: sparse.COO(o.coords, o.data, shape=o.shape, idx_dtype=t.type))
    add("convert", "DOK round trip", lambda: sparse.DOK.from_coo(x).to_coo(), o.nnz <= 2000 and not subset)
    add("convert", "to_scipy csr", lambda: x.tocsr(), nd == 2)
    add("convert", "to_scipy coo", lambda: x.to_scipy_sparse(), nd == 2 and not subset)
    add("convert", "gcxs to_scipy", lambda: x.asformat("gcxs").to_scipy_sparse(), nd == 2 and not subset)
    add("convert", "linear_loc", lambda: x.linear_loc())
    add("convert", "pickle", lambda: pickle.loads(pickle.dumps(x)), not subset)
    add("convert", "npz", lambda: _npz(x), not subset)
    add("request", "asformat(gcxs,idx_dtype=t)", lambda: o.mk64().asformat("gcxs", idx_dtype=t.type), nd >= 1)
    add("request", "GCXS.from_coo(ca=(0,),idx_dtype=t)", lambda: sparse.GCXS.from_coo(o.mk64(), compressed_axes=(0,), idx_dtype=t.type), nd >= 2)
    add("request", "random(idx_dtype=t)", lambda: sparse.random(o.shape, nnz=min(o.nnz, 50), random_state=7, idx_dtype=t.type))
    # ---- GCXS operations ------------------------------------------------------------------------
    if nd >= 2:
        for ca in [(0,), (nd - 1,)] + ([(0, 2)] if nd >= 3 else []):
            g = None

            def G(ca=ca, cache={}):  # noqa: B006
                if "g" not in cache:
                    cache["g"] = x.asformat("gcxs", compressed_axes=ca)
                    cache["h"] = y.asformat("gcxs", compressed_axes=ca)
                return cache["g"], cache["h"]
            tag = f"gcxs{list(ca)}"
            add("gcxs-getitem", f"{tag}[1:]", lambda G=G: G()[0][1:])
            add("gcxs-getitem", f"{tag}[::-1]", lambda G=G: G()[0][::-1])
            add("gcxs-getitem", f"{tag}[..., ::2]", lambda G=G: G()[0][..., ::2])
            add("gcxs-getitem", f"{tag}[..., ::-2]", lambda G=G: G()[0][..., ::-2], not subset)
            add("gcxs-getitem", f"{tag}[int]", lambda G=G: G()[0][sl(e - 1)])
            add("gcxs-getitem", f"{tag}[adv]", lambda G=G: G()[0][sl(np.array([e - 1, 0]))], not subset)
            # an integer for the first / last axis only: for nd >= 3 the remaining axes are re-split (indices // size, indices % size)
            add("gcxs-getitem", f"{tag}[0]", lambda G=G: G()[0][0])
            add("gcxs-getitem", f"{tag}[-1]", lambda G=G: G()[0][-1])
            add("gcxs-getitem", f"{tag}[..., 0]", lambda G=G: G()[0][..., 0])
            add("gcxs-getitem", f"{tag}[..., -1]", lambda G=G: G()[0][..., -1], not subset)
            add("gcxs-getitem", f"{tag}[0, ..., -1]", lambda G=G: G()[0][0, ..., -1], nd >= 3)
            add("gcxs-getitem", f"{tag}[adv long]", lambda G=G: G()[0][sl(np.arange(L + 2) % e)])
            add("gcxs-getitem", f"{tag}[adv long ax0]", lambda G=G: G()[0][np.arange(L + 2) % o.shape[0]], ax != 0)
            add("gcxs-getitem", f"{tag}[all ints]", lambda G=G: G()[0][tuple(int(v) for v in o.coords[:, -1])])
            add("gcxs-shape", f"{tag}.T", lambda G=G: G()[0].T)
            add("gcxs-shape", f"{tag}.reshape(-1)", lambda G=G: G()[0].reshape((-1,)))
            add("gcxs-shape", f"{tag}.reshape(rev)", lambda G=G: G()[0].reshape(o.shape[::-1]))
            add("gcxs-shape", f"{tag}.change_compressed_axes", lambda G=G, ca=ca: G()[0].change_compressed_axes((1,) if ca != (1,) else (0,)))
            add("gcxs-shape", f"{tag}.flatten", lambda G=G: G()[0].flatten(), not subset)
            add("gcxs-reduce", f"{tag}.sum(0)", lambda G=G: G()[0].sum(axis=0))
            add("gcxs-reduce", f"{tag}.sum(-1)", lambda G=G: G()[0].sum(axis=-1))
            add("gcxs-reduce", f"{tag}.max(0)", lambda G=G: G()[0].max(axis=0), not subset)
            add("gcxs-elemwise", f"{tag} g+h", lambda G=G: G()[0] + G()[1])
            add("gcxs-elemwise", f"{tag} g*h", lambda G=G: G()[0] * G()[1], not subset)
            for a in sorted({0, nd - 1}):
                add("gcxs-join", f"{tag} concatenate {a}", lambda G=G, a=a: sparse.concatenate(list(G()), axis=a))
                add("gcxs-join", f"{tag} concatenate {a} ca=other", lambda G=G, a=a: sparse.concatenate(list(G()), axis=a, compressed_axes=((a + 1) % nd,)), not subset)
                add("gcxs-join", f"{tag} stack {a}", lambda G=G, a=a: sparse.stack(list(G()), axis=a))
                add("gcxs-join", f"{tag} concatenate {a} .todense()", lambda G=G, a=a: sparse.concatenate(list(G()), axis=a).tocoo(), not subset)
            if nd == 2:
                add("gcxs-product", f"{tag} g@h.T small", lambda G=G: (G()[0] @ G()[1].T) if o.shape[0] <= o.shape[1] else (G()[0].T @ G()[1]))
                add("gcxs-product", f"{tag} g@dense", lambda G=G: G()[0] @ np.ones((o.shape[1], 2), dtype=np.int64), not subset)
    else:
        add("gcxs-getitem", "gcxs1d[::-1]", lambda: x.asformat("gcxs")[::-1])
        add("gcxs-getitem", "gcxs1d[1:]", lambda: x.asformat("gcxs")[1:])
        add("gcxs-shape", "gcxs1d.reshape(1,-1)", lambda: x.asformat("gcxs").reshape((1, -1)))
        add("gcxs-shape", "gcxs1d.reshape(-1,k)", lambda: x.asformat("gcxs").reshape((-1, 3)), size % 3 == 0)
        add("gcxs-join", "gcxs1d concatenate", lambda: sparse.concatenate([x.asformat("gcxs"), y.asformat("gcxs")]))
        add("gcxs-join", "gcxs1d stack", lambda: sparse.stack([x.asformat("gcxs"), y.asformat("gcxs")]))
        add("gcxs-reduce", "gcxs1d.sum()", lambda: x.asformat("gcxs").sum())
    # ---- numba boxing ---------------------------------------------------------------------------
    add("numba", "box(unbox(x))", lambda: _njit()["ident"](x))
    add("numba", "x.shape in njit", lambda: tuple(int(v) for v in _njit()["shape_of"](x)))
    add("numba", "x.coords.shape[1] in njit", lambda: int(_njit()["nnz_of"](x)), not subset)
    return ops


def _npz(x):
    import sparse

    buf = io.BytesIO()
    sparse.save_npz(buf, x)
    buf.seek(0)
    return sparse.load_npz(buf)


def outcome(thunk):
    with warnings.catch_warnings():
        warnings.simplefilter("ignore")
        try:
            return ("ok", rep(thunk()))
        except Exception as e:  # noqa: BLE001
            return ("err", type(e).__name__, str(e)[:240].replace("\x1b", ""), [c.__name__ for c in type(e).__mro__])


def judge(ref, got, tname):
    """-> (status, detail)"""
    if got[0] == "ok" and got[1][0] == "bad":
        return "differ", f"result malformed: {got[1][1]}"
    if ref[0] == "ok" and got[0] == "ok":
        m = same(ref[1], got[1])
        return ("equal", "") if m is None else ("differ", m)
    if got[0] == "err":
        names_dtype = any(nm in got[2] for nm in IDX)
        if ref[0] == "err" and ref[1] == got[1]:
            return "equal", f"both raise {got[1]}"
        if "ValueError" in got[3] and names_dtype:
            return "rejected", f"{got[1]}: {got[2][:100]}"
        return "differ", f"raised {got[1]}: {got[2][:200]}" + (f" (int64 run raises {ref[1]})" if ref[0] == "err" else "")
    return "differ", f"returned although the int64 run raises {ref[1]}: {ref[2][:100]}"


def run_worker(tname, tier, seed, limits=None, subset=False, families=None, out=sys.stdout, only_case=None):
    rng = np.random.default_rng([seed, 15])
    t = np.dtype(tname)
    thorough = tier == "thorough"
    lims = limits or ([127, 255] if not thorough else [127, 255, 32767, 65535])
    count = 0

    def one(L, sname, shape, coords, data, only=None):
        nonlocal count
        if only_case and sname != only_case[0]:
            return
        o_ref = Operands(shape, coords, data, np.int64, L)
        o_t = Operands(shape, coords, data, t, L)
        t_ref = op_table(o_ref, subset)
        t_got = op_table(o_t, subset)
        assert [a[:2] for a in t_ref] == [a[:2] for a in t_got]
        for (fam, name, f_ref), (_, _, f_got) in zip(t_ref, t_got):
            if (families and fam not in families) or (only and fam not in only) or (only_case and (sname, name) != only_case):
                continue
            case = {"op": name, "scenario": sname, "shape": list(shape), "nnz": int(coords.shape[1]), "idx_dtype": tname, "limit": L}
            # announce the case first: a wrapped index inside a compiled kernel can kill the interpreter
            out.write(json.dumps({"begin": case, "family": fam}) + "\n")
            out.flush()
            ref = outcome(f_ref)
            got = outcome(f_got)
            status, detail = judge(ref, got, tname)
            rec = {"family": fam, "case": case, "status": status, "detail": detail, "ref": ref[0] if ref[0] == "ok" else f"{ref[1]}"}
            out.write(json.dumps(rec) + "\n")
            count += 1

    for L in lims:
        for sname, shape, coords, data in scenarios(L, rng, thorough, subset):
            if holds(t, shape):
                one(L, sname, shape, coords, data)
        if np.iinfo(t).max == L:
            # every coordinate is representable, the extent itself is not: outside the property's quantifier except for
            # what a user-supplied coordinate array can be handed to — compiled code (numba boxing) — and for the calls that
            # *request* this dtype (idx_dtype=...), which must be refused with a ValueError naming it
            one(L, f"coordsfit{L + 1}", (L + 1,), np.array([[0, L // 2, L]], dtype=np.int64), np.array([1, 2, 3]), only={"numba", "request"})
            one(L, f"coordsfit3x{L + 1}", (3, L + 1), np.array([[0, 1, 2], [0, L // 2, L]], dtype=np.int64), np.array([1, 2, 3]), only={"request"})
            # the requested dtype cannot even hold the coordinates (the operand `x` is not used by the request family)
            one(L, f"above{L + 3}", (L + 3,), np.array([[0, L + 1, L + 2]], dtype=np.int64), np.array([1, 2, 3]), only={"request"})
            one(L, f"above3x{2 * L}", (3, 2 * L), np.array([[0, 1, 2], [L + 1, 2 * L - 2, 2 * L - 1]], dtype=np.int64), np.array([1, 2, 3]), only={"request"})
        out.flush()
    return count


if __name__ == "__main__":
    sys.path.insert(0, os.path.dirname(os.path.abspath(__file__)))
    tname, tier, seed = sys.argv[1], sys.argv[2], int(sys.argv[3])
    limits = [int(v) for v in sys.argv[4].split(",")] if len(sys.argv) > 4 and sys.argv[4] else None
    subset = len(sys.argv) > 5 and sys.argv[5] == "subset"
    families = set(sys.argv[6].split(",")) if len(sys.argv) > 6 and sys.argv[6] else None
    if len(sys.argv) > 7:
        with open(sys.argv[7], "w") as fh:
            run_worker(tname, tier, seed, limits, subset, families, out=fh)
    else:
        run_worker(tname, tier, seed, limits, subset, families)

"""C05 — construction and format conversion are lossless and representation-independent."""
from __future__ import annotations

import numpy as np

import core
import findings
import gen
import impl
import oracle

PID = "C05"
TRUSTED = [
    "Lean 4 kernel; axioms propext, Classical.choice, Quot.sound only (audited per theorem each run)",
    "tie T2: hand models COO.build (sort/sum-duplicates/prune), COO.fromDense, GCXS.fromCoo, GCXS.tocoo, SArr.convert compared with the "
    "implementation on representation (coords order, indptr/indices/data, dict insertion order) after every step of random conversion chains",
    "NumPy primitives assumed as list functions: stable argsort, add.reduceat (left fold), bincount/cumsum, flatnonzero",
    "dtype preservation, NaN/inf/-0.0 fill values and scipy's own conversions are outside the theorems (NumPy oracle only)",
]


def gcxs_json(g):
    return {
        "shape": [int(d) for d in g.shape],
        "caxes": None if g.compressed_axes is None else [int(a) for a in g.compressed_axes],
        "indptr": [] if g.indptr is None or len(np.shape(g.indptr)) == 0 or g.ndim <= 1 else [int(v) for v in g.indptr],
        "indices": [int(v) for v in np.asarray(g.indices).ravel()] if g.ndim >= 1 else [],
        "data": [int(v) for v in g.data],
        "fill": int(g.fill_value),
    }


def dok_json(d):
    return {"shape": [int(v) for v in d.shape], "coords": [[int(i) for i in k] for k in d.data], "data": [int(v) for v in d.data.values()],
            "fill": int(d.fill_value)}


def rep_json(a):
    import sparse

    if isinstance(a, sparse.COO):
        return {"coo": impl.coo_json(a)}
    if isinstance(a, sparse.GCXS):
        return {"gcxs": gcxs_json(a)}
    if isinstance(a, sparse.DOK):
        return {"dok": dok_json(a)}
    a = np.asarray(a)
    return {"dense": {"shape": list(a.shape), "flat": [int(v) for v in a.ravel()]}}


def rand_caxes(rng, nd, shuffle=True):
    if nd < 2:
        return None
    if rng.random() < 0.2:
        return None
    ch = gen.compressed_axes_choices(nd)
    c = list(ch[int(rng.integers(len(ch)))])
    if shuffle and rng.random() < 0.1:
        rng.shuffle(c)  # unsorted axes are rejected with ValueError (check_compressed_axes)
    return [int(v) for v in c]


def noncontiguous(rng, d):
    """same values, different memory layout: Fortran order, a transposed view, or a strided view of a larger array"""
    r = rng.random()
    if d.ndim < 2 or r < 0.5:
        if d.ndim >= 1 and r < 0.15:
            big = np.zeros(d.shape[:-1] + (2 * d.shape[-1],), dtype=d.dtype)
            big[..., ::2] = d
            return big[..., ::2]
        return d
    if r < 0.75:
        return np.asfortranarray(d)
    perm = rng.permutation(d.ndim)
    inv = np.argsort(perm)
    return np.ascontiguousarray(d.transpose(perm)).transpose(inv)


def leg_a_build(ctx, rng, n):
    import sparse

    reqs, metas = [], []
    for _ in range(n):
        shp = gen.shape(rng, 0, 4, extents=[1, 2, 2, 3, 4, 5])
        nd = len(shp)
        k = int(rng.integers(0, 9))
        coords = np.array([[int(rng.integers(0, d)) for d in shp] for _ in range(k)], dtype=np.int64).reshape(k, nd)
        data = rng.integers(-3, 4, size=k)
        fill = int(rng.choice([0, 0, 2]))
        lin = [int(np.ravel_multi_index(tuple(c), shp)) if nd else 0 for c in coords]
        is_sorted = all(a <= b for a, b in zip(lin, lin[1:]))
        is_unique = len(set(lin)) == len(lin)
        sorted_flag = bool(is_sorted and rng.random() < 0.5)
        dups_flag = bool((not is_unique) or rng.random() < 0.5)
        prune = bool(rng.random() < 0.5)
        if nd == 0 and k > 1:
            continue
        case = {"shape": list(shp), "coords": coords.tolist(), "data": data.tolist(), "fill": fill, "sorted": sorted_flag, "has_duplicates": dups_flag,
                "prune": prune}
        try:
            x = sparse.COO(coords.T if nd else np.empty((0, k), dtype=np.int64), data, shape=shp, sorted=sorted_flag, has_duplicates=dups_flag, prune=prune,
                           fill_value=fill)
            want = {"ok": impl.coo_json(x)}
        except Exception as e:  # noqa: BLE001
            ctx.fail("A", "coo_build", case, f"implementation raised {type(e).__name__}: {e}")
            continue
        reqs.append(["coo_build", impl.raw_json(shp, coords.tolist(), data.tolist(), fill), sorted_flag, dups_flag, prune])
        metas.append((case, want))
    outs = ctx.driver.run(reqs)
    for (case, want), out in zip(metas, outs):
        ctx.case("A:coo_build", case, nontrivial=bool(case["data"]))
        if out != want:
            ctx.fail("A", "model:coo_build", case, f"model {out} implementation {want}")


def leg_a_convert(ctx, rng, n):
    import sparse

    reqs, metas = [], []
    for _ in range(n):
        shp = gen.shape(rng, 0, 4)
        fill = int(rng.choice([0, 0, 2, -1]))
        d = gen.dense(rng, shp, fill)
        d = noncontiguous(rng, d)
        x = sparse.COO.from_numpy(d, fill_value=fill)
        # from_dense
        reqs.append(["from_dense", list(shp), [int(v) for v in d.ravel()], fill])
        metas.append(("from_dense", {"shape": list(shp), "dense": d.tolist(), "fill": fill}, {"ok": impl.coo_json(x)}))
        # chain
        steps, want_steps, cur = [], [], x
        err = None
        for _ in range(int(rng.integers(1, 7))):
            f = str(rng.choice(["coo", "gcxs", "gcxs", "dok", "dense"]))
            if f == "gcxs":
                ca = rand_caxes(rng, len(shp))
                steps.append(["gcxs", ca])
            else:
                steps.append([f])
            try:
                if f == "dense":
                    cur_d = cur.todense() if not isinstance(cur, np.ndarray) else cur
                    want_steps.append({"dense": {"shape": list(cur_d.shape), "flat": [int(v) for v in cur_d.ravel()], "fill": fill}})
                    cur = cur_d
                else:
                    src = sparse.COO.from_numpy(cur, fill_value=fill) if isinstance(cur, np.ndarray) else cur
                    if f == "gcxs":
                        cur = src.asformat("gcxs", compressed_axes=None if ca is None else tuple(ca))
                    else:
                        cur = src.asformat(f)
                    want_steps.append(rep_json(cur))
            except Exception as e:  # noqa: BLE001
                err = impl.err_class(e) + ":" + type(e).__name__ + ":" + str(e)[:80]
                break
        want = {"steps": want_steps}
        if err:
            want["err"] = err.split(":")[0]
            want["detail"] = err
        case = {"x": impl.coo_json(x), "steps": steps}
        reqs.append(["convert_chain", impl.coo_json(x), steps])
        metas.append(("convert_chain", case, want))
    outs = ctx.driver.run(reqs)
    for (fam, case, want), out in zip(metas, outs):
        ctx.case(f"A:{fam}", case, nontrivial=True)
        w = {k: v for k, v in want.items() if k != "detail"}
        if fam == "convert_chain" and "err" in want and out != w:
            # the implementation raised where the model converts: a failing input of the property
            ctx.fail("C", "convert_chain", case, f"conversion raised {want['detail']}", finding=findings.classify(PID, "convert_chain", case, want["detail"]))
            continue
        if out != w:
            ctx.fail("A", f"model:{fam}", case, f"model {json_short(out)} implementation {json_short(w)}")


def json_short(o):
    import json
    s = json.dumps(o)
    return s if len(s) < 900 else s[:900] + "…"


def oracle_eq(d, fill):
    """elementwise d == fill, NaN equal to NaN"""
    with np.errstate(all="ignore"):
        return (d == fill) | ((d != d) & (fill != fill))


def leg_c(ctx, rng, n):
    import scipy.sparse as sp
    import sparse

    for k in range(n):
        shp = gen.shape(rng, 0, 5)
        dt = rng.choice([np.int64, np.int8, np.float64, np.float32, np.bool_, np.complex128, np.uint16])
        fillraw = rng.choice([0, 0, 2, 1])
        d = gen.dense(rng, shp, int(fillraw), lo=0 if np.dtype(dt).kind in "ub" else -4).astype(dt)
        fill = np.asarray(fillraw).astype(dt)[()]
        if np.dtype(dt).kind == "f" and rng.random() < 0.3:
            fill = dt(np.nan) if rng.random() < 0.5 else dt(np.inf)
            d = np.where(rng.random(size=shp) < 0.5, fill, d).astype(dt)
        d = noncontiguous(rng, d)
        idt = None
        if len(shp) and rng.random() < 0.3:
            cands = [t for t in (np.uint8, np.int8, np.int16, np.uint16) if max(shp) <= np.iinfo(t).max]
            idt = cands[int(rng.integers(len(cands)))] if cands else None
        # the fill value in every spelling a caller may use: the array's own scalar type, a Python number, a NumPy scalar
        # or 0-d array of ANOTHER dtype holding the same number — the stored fill value always has the array's dtype
        spell = int(rng.integers(5))
        fill_arg = fill
        if not (np.dtype(dt).kind in "fc" and not np.isfinite(fill)):
            if spell == 1 and np.dtype(dt).kind in "iuf":
                fill_arg = fill.item()
            elif spell == 2:
                other = np.float64 if np.dtype(dt).kind in "iub" else (np.int8 if np.dtype(dt).kind == "f" else np.float32)
                fill_arg = other(fill.real if np.dtype(dt).kind == "c" else fill)
            elif spell == 3:
                fill_arg = np.asarray(fill, dtype=np.float64 if np.dtype(dt).kind in "iub" else (np.int16 if np.dtype(dt).kind == "f" else np.float64))
        x = sparse.COO.from_numpy(d, fill_value=fill_arg)
        if idt is not None:  # (from_numpy(idx_dtype=...) goes through a flattened array and rejects sizes the dtype cannot hold)
            x = sparse.COO(x.coords.astype(idt), x.data, shape=x.shape, fill_value=fill_arg, sorted=True, has_duplicates=False)
        if spell == 4 and len(shp):
            x = sparse.DOK(shp, {tuple(int(v) for v in c): d[tuple(c)] for c in np.argwhere(~oracle_eq(d, fill))}, dtype=d.dtype, fill_value=fill_arg)
        cur = x
        chain = []
        ok = True
        for _ in range(int(rng.integers(1, 7))):
            opts = ["coo", "gcxs", "dok", "dense"]
            if len(shp) == 2 and fill == 0:
                opts += ["csr", "csc", "scipy"]
            f = str(rng.choice(opts))
            case = {"shape": list(shp), "dtype": str(np.dtype(dt)), "fill": repr(fill), "fill_given_as": repr(fill_arg) + ":" + type(fill_arg).__name__,
                    "dense": d.tolist() if d.size < 60 else "large", "chain": chain + [f]}
            try:
                if isinstance(cur, np.ndarray):
                    cur = sparse.COO.from_numpy(cur, fill_value=fill_arg)
                elif sp.issparse(cur):
                    cur = sparse.COO.from_scipy_sparse(cur)
                if f == "dense":
                    cur = cur.todense()
                elif f == "scipy":
                    cur = cur.asformat("coo").to_scipy_sparse() if rng.random() < 0.5 else cur.asformat("gcxs").to_scipy_sparse()
                elif f == "gcxs":
                    ca = rand_caxes(rng, len(shp), shuffle=False)
                    cur = cur.asformat("gcxs", compressed_axes=None if ca is None else tuple(ca))
                    f = f"gcxs{ca}"
                else:
                    cur = cur.asformat(f)
            except Exception as e:  # noqa: BLE001
                msg = f"conversion to {f} raised {type(e).__name__}: {str(e)[:120]}"
                ctx.fail("C", "chain", case, msg, finding=findings.classify(PID, "chain", case, msg))
                ok = False
                break
            chain.append(f)
            case["chain"] = list(chain)
            ctx.case("C:chain", case, nontrivial=bool(d.size))
            dd = oracle.densify(cur)
            msg = None
            if dd.shape != d.shape:
                msg = f"shape {dd.shape} != {d.shape}"
            elif dd.dtype != d.dtype:
                msg = f"dtype {dd.dtype} != {d.dtype}"
            elif not oracle.same_values(dd, d):
                msg = f"values differ after {chain}"
            elif isinstance(cur, sparse.SparseArray):
                if not oracle.same_values(np.asarray(cur.fill_value), np.asarray(fill)):
                    msg = f"fill value {cur.fill_value!r} != {fill!r}"
                elif np.asarray(cur.fill_value).dtype != d.dtype:
                    msg = f"fill value {cur.fill_value!r} is stored with dtype {np.asarray(cur.fill_value).dtype}, the array has {d.dtype}"
                else:
                    msg = impl.canonical_problem(cur)
            if msg:
                ctx.fail("C", "chain", case, msg, finding=findings.classify(PID, "chain", case, msg))
                break
        # constructors: coords in any order with repeats; dict; iterable of pairs
        if len(shp) >= 1 and d.size and np.dtype(dt).kind in "if":
            nz = np.argwhere(~(d == fill)) if not (isinstance(fill, np.floating) and np.isnan(fill)) else np.argwhere(~np.isnan(d))
            if len(nz):
                perm = rng.permutation(len(nz))
                coords = nz[perm]
                vals = d[tuple(coords.T)]
                # split one value into two summands at a repeated coordinate
                if np.dtype(dt).kind == "i":
                    coords2 = np.vstack([coords, coords[:1]])
                    vals2 = np.concatenate([vals, [3]]).astype(dt)
                    vals2[0] = vals[0] - dt(3)
                else:
                    coords2, vals2 = coords, vals
                case = {"shape": list(shp), "dtype": str(np.dtype(dt)), "fill": repr(fill), "coords": coords2.tolist(), "data": vals2.tolist()}
                ctx.case("C:constructors", case)
                for nm, mk in [
                    ("COO(coords,data)", lambda: sparse.COO(coords2.T, vals2, shape=shp, fill_value=fill)),
                    ("from_iter(dict)", lambda: sparse.COO.from_iter({tuple(int(v) for v in c): v for c, v in zip(coords, vals)}, shape=shp, fill_value=fill, dtype=dt)),
                    ("from_iter(pairs)", lambda: sparse.COO.from_iter([(tuple(int(v) for v in c), v) for c, v in zip(coords, vals)], shape=shp, fill_value=fill, dtype=dt)),
                    ("DOK(dict)", lambda: sparse.DOK(shp, {tuple(int(v) for v in c): v for c, v in zip(coords, vals)}, dtype=dt, fill_value=fill)),
                ]:
                    msg = oracle.compare(mk, lambda: d, fill=fill)
                    if msg:
                        ctx.fail("C", nm, case, msg, finding=findings.classify(PID, nm, case, msg))
        if k % 100 == 0:
            core.log(f"C05 leg C {k}/{n}")


def leg_c_noncanonical(ctx, rng, n):
    """compressed input that is VALID but not canonical — indices unsorted within a row, an element split into two summands
    at a repeated index — through the public constructors (GCXS triple, scipy csr/csc/coo with unsorted / duplicate entries):
    every conversion of it equals the dense array"""
    import scipy.sparse as sp
    import sparse

    for k in range(n):
        shp = gen.shape(rng, 2, 4)
        fill = int(rng.choice([0, 0, 3]))
        d = gen.dense(rng, shp, fill, density=float(rng.choice([0.3, 0.6, 1.0])))
        ca = rand_caxes(rng, len(shp), shuffle=False) or [0]
        g = sparse.GCXS.from_numpy(d, compressed_axes=tuple(ca), fill_value=fill)
        data, indices, indptr = g.data.copy(), g.indices.copy(), g.indptr.copy()
        nd_, ni_, np_ = [], [], [0]
        for r in range(len(indptr) - 1):
            seg = list(range(indptr[r], indptr[r + 1]))
            vals = [(int(indices[j]), int(data[j])) for j in seg]
            if vals and rng.random() < 0.5:  # split one element into two summands
                c0, v0 = vals[int(rng.integers(len(vals)))]
                vals = [(c, v) for c, v in vals if c != c0] + [(c0, v0 - 7), (c0, 7)]
            order = rng.permutation(len(vals))
            for j in order:
                ni_.append(vals[int(j)][0])
                nd_.append(vals[int(j)][1])
            np_.append(len(ni_))
        triple = (np.array(nd_, dtype=d.dtype), np.array(ni_, dtype=indices.dtype), np.array(np_, dtype=indptr.dtype))
        case = {"shape": list(shp), "fill": fill, "dense": d.tolist(), "compressed_axes": list(ca), "data": nd_, "indices": ni_, "indptr": np_}
        makers = [("GCXS(triple)", lambda: sparse.GCXS(triple, shape=shp, compressed_axes=tuple(ca), fill_value=fill))]
        if len(shp) == 2 and fill == 0:
            if list(ca) == [0]:
                m = sp.csr_matrix(triple, shape=shp)
            else:
                m = sp.csc_matrix(triple, shape=shp)
            makers += [("GCXS.from_scipy_sparse", lambda m=m: sparse.GCXS.from_scipy_sparse(m.copy())),
                       ("COO.from_scipy_sparse", lambda m=m: sparse.COO.from_scipy_sparse(m.copy())),
                       ("asarray(scipy)", lambda m=m: sparse.asarray(m.copy())),
                       ("GCXS(scipy)", lambda m=m: sparse.GCXS(m.copy()))]
        for mname, mk in makers:
            try:
                x = mk()
            except Exception as e:  # noqa: BLE001
                msg = f"{mname} raised {type(e).__name__}: {str(e)[:120]}"
                ctx.fail("C", "noncanonical", dict(case, maker=mname), msg, finding=findings.classify(PID, "noncanonical", case, msg))
                continue
            steps = [("todense", lambda x=x: x.todense()), ("tocoo", lambda x=x: x.asformat("coo")), ("dok", lambda x=x: x.asformat("dok")),
                     ("coo.T.T", lambda x=x: x.asformat("coo").T.T), ("T", lambda x=x: x.T.T if hasattr(x, "T") else x),
                     ("gcxs(other axes)", lambda x=x: x.asformat("gcxs", compressed_axes=(len(shp) - 1,) if list(ca) != [len(shp) - 1] else (0,))),
                     ("coo+coo", lambda x=x: (x.asformat("coo") + sparse.COO.from_numpy(np.zeros(shp, dtype=d.dtype))) if fill == 0 else x.asformat("coo")),
                     ("coo[::-1]", None), ("coo.sum(0)", None)]
            for sname, st in steps:
                c2 = dict(case, maker=mname, step=sname)
                ctx.case(f"C:noncanonical:{mname}", c2, nontrivial=bool(len(ni_)))
                if sname == "coo[::-1]":
                    msg = oracle.compare(lambda x=x: x.asformat("coo")[::-1], lambda: d[::-1], fill=np.asarray(fill, dtype=d.dtype))
                elif sname == "coo.sum(0)":
                    msg = oracle.compare(lambda x=x: x.asformat("coo").sum(axis=0), lambda: d.sum(axis=0))
                elif sname == "todense":
                    try:
                        dd = st()
                        msg = None if (dd.shape == d.shape and dd.dtype == d.dtype and oracle.same_values(dd, d)) else f"todense() differs from the dense array: shape {dd.shape} dtype {dd.dtype}"
                    except Exception as e:  # noqa: BLE001
                        msg = f"todense raised {type(e).__name__}: {str(e)[:120]}"
                else:
                    # values only for results that stay compressed (a non-canonical operand may stay non-canonical there: C05 is about
                    # values); a COO made from it must be canonical
                    msg = oracle.compare(st, lambda: d, fill=np.asarray(fill, dtype=d.dtype), check_canonical=sname in ("tocoo", "coo.T.T", "coo+coo"))
                if msg:
                    ctx.fail("C", "noncanonical", c2, msg, finding=findings.classify(PID, "noncanonical", c2, msg))
                    break


def leg_c_narrow(ctx, rng, n):
    """more stored elements than the coordinate dtype can count, every extent still fitting it"""
    import sparse

    for _ in range(n):
        shp, idt = [((20, 20), np.uint8), ((6, 6, 6), np.int8), ((16, 17), np.uint8), ((12, 12), np.int8), ((3, 90), np.uint8), ((130, 2), np.uint8)][int(rng.integers(6))]
        d = gen.dense(rng, shp, 0, density=float(rng.choice([0.8, 1.0])), lo=1, hi=4)
        x = sparse.COO.from_numpy(d)
        x = sparse.COO(x.coords.astype(idt), x.data, shape=x.shape, sorted=True, has_duplicates=False)
        chain = []
        cur = x
        for _ in range(int(rng.integers(1, 4))):
            f = str(rng.choice(["gcxs", "coo", "dok", "csr" if len(shp) == 2 else "gcxs"]))
            case = {"shape": list(shp), "idx_dtype": np.dtype(idt).name, "nnz": int(x.nnz), "chain": chain + [f]}
            ctx.case("C:narrow-index-chain", case)
            try:
                if f == "gcxs":
                    ca = rand_caxes(rng, len(shp), shuffle=False)
                    cur = cur.asformat("gcxs", compressed_axes=None if ca is None else tuple(ca))
                else:
                    cur = cur.asformat(f)
                dd = cur.todense()
                msg = None if (dd.shape == d.shape and np.array_equal(dd, d)) else "values differ after conversion"
                msg = msg or impl.canonical_problem(cur)
            except ValueError as e:
                msg = None if "dtype" in str(e) or "cast" in str(e) else f"raised ValueError: {e}"
            except Exception as e:  # noqa: BLE001
                msg = f"conversion to {f} raised {type(e).__name__}: {str(e)[:120]}"
            if msg:
                ctx.fail("C", "narrow-index-chain", case, msg, finding=findings.classify(PID, "narrow-index-chain", case, msg))
                break
            chain.append(f)


def run(ctx):
    ctx.trusted = TRUSTED
    ctx.assumptions = ["values are small integers on the model legs; dtype/NaN/inf fills only on the NumPy leg"]
    core.prove(ctx, PID, uses=[])
    rng = gen.rng_for(ctx.seed, PID)
    leg_a_build(ctx, rng, 400 if ctx.quick else 4000)
    leg_a_convert(ctx, rng, 300 if ctx.quick else 3000)
    leg_c(ctx, rng, 200 if ctx.quick else 2500)
    leg_c_narrow(ctx, rng, 40 if ctx.quick else 400)
    leg_c_noncanonical(ctx, rng, 60 if ctx.quick else 1200)
    ctx.cov["rule"] = ("leg A: constructor flag combinations on unsorted/duplicated coordinates; random conversion chains (length<=6) over "
                       "COO/GCXS(every compressed axes, any order)/DOK/dense compared step by step on representation; leg C: chains incl. "
                       "CSR/CSC/scipy over 7 dtypes and NaN/inf fills vs the original dense array, the fill value given in five spellings "
                       "(own scalar, Python number, NumPy scalar / 0-d array of another dtype, DOK); constructors from coords/dict/pairs; "
                       "non-canonical compressed input (rows unsorted, elements split at repeated indices) through GCXS(triple) and scipy; "
                       "non-trivial = non-empty array; distinct by content hash")
    import extra_ops  # operation tables closing the measured coverage gaps (tools/coverage_audit.py; coverage/API_COVERAGE.md)
    extra_ops.run(ctx, PID)

"""C07 child process: SPARSE_AUTO_DENSIFY is read when sparse is imported, so each setting runs in its own process.
Prints one JSON line: the coercion outcomes and the sparse/dense mix outcomes."""
from __future__ import annotations

import json
import sys
import warnings

import numpy as np

warnings.simplefilter("ignore")
import sparse  # noqa: E402
from sparse.numba_backend import _settings  # noqa: E402


def outcome(thunk):
    try:
        with np.errstate(all="ignore"):
            r = thunk()
    except RuntimeError as e:
        return "runtime", None, str(e)
    except ValueError as e:
        return "value", None, str(e)
    except TypeError as e:
        return "type", None, str(e)
    except Exception as e:  # noqa: BLE001
        return type(e).__name__, None, str(e)
    if isinstance(r, sparse.SparseArray):
        return "sparse", r, ""
    return "dense", r, ""


def eq(a, b):
    a, b = np.asarray(a), np.asarray(b)
    return a.shape == b.shape and bool(np.array_equal(a, b, equal_nan=a.dtype.kind in "fc" or b.dtype.kind in "fc"))


def main():
    seed = int(sys.argv[1]) if len(sys.argv) > 1 else 0
    rng = np.random.default_rng([seed, 707])
    coercions, mix = [], []
    for fmt in ("coo", "gcxs", "dok"):
        for fk, fv in (("0", 0.0), ("2", 2.0), ("nan", float("nan"))):
            mask = rng.random((3, 4)) < 0.5
            d = np.where(mask, rng.integers(1, 5, size=(3, 4)).astype(float) + 10, fv)
            x = sparse.COO.from_numpy(d, fill_value=fv)
            if fmt == "gcxs":
                x = sparse.GCXS.from_coo(x)
            elif fmt == "dok":
                x = sparse.DOK.from_coo(x)
            tgt = np.zeros((3, 4))
            routes = [
                # (description, thunk, goes through __array__, explicit request)
                ("np.asarray(x)", lambda: np.asarray(x), True, False),
                ("np.array(x)", lambda: np.array(x), True, False),
                ("np.asarray(x, dtype=float)", lambda: np.asarray(x, dtype=float), True, False),
                ("x.__array__()", lambda: x.__array__(), True, False),
                ("np.asanyarray(x)", lambda: np.asanyarray(x), True, False),
                ("np.ascontiguousarray(x)", lambda: np.ascontiguousarray(x), True, False),
                ("np.array([x, x])", lambda: np.array([x, x]), True, False),
                ("x.todense()", lambda: x.todense(), False, True),
                ("sparse.asnumpy(x)", lambda: sparse.asnumpy(x), False, True),
                ("np.linalg.inv-free: np.median(x)", lambda: np.median(x), False, False),
                ("np.cumsum(x)", lambda: np.cumsum(x), False, False),
                ("np.trace(x)", lambda: np.trace(x), False, False),
                ("np.add(dense, x, out=dense)", lambda: np.add(tgt, x, out=tgt), False, False),
                ("np.add.accumulate(x)", lambda: np.add.accumulate(x), False, False),
            ]
            for how, thunk, via_array, explicit in routes:
                o, r, detail = outcome(thunk)
                rec = {"how": how, "format": fmt, "fill": fk, "outcome": o, "via_array": via_array, "explicit": explicit, "detail": detail[:160]}
                if o == "dense":
                    want = d if "[x, x]" not in how else np.array([d, d])
                    rec["equal"] = eq(r, want) if via_array or explicit else False
                coercions.append(rec)
            if fmt == "dok":
                continue
            # sparse/dense mixes: (expression, thunk, numpy thunk, dense operand)
            full = rng.integers(1, 4, size=(3, 4)).astype(float)
            row = rng.integers(1, 4, size=(4,)).astype(float)
            zfull, zrow = np.zeros((3, 4)), np.zeros((4,))
            ofull, orow = np.ones((3, 4)), np.ones((4,))
            cases = [
                ("x + full", lambda: x + full, lambda: d + full, full),
                ("full + x", lambda: full + x, lambda: full + d, full),
                ("x + row", lambda: x + row, lambda: d + row, row),
                ("x * full", lambda: x * full, lambda: d * full, full),
                ("x * row", lambda: x * row, lambda: d * row, row),
                ("x * zfull", lambda: x * zfull, lambda: d * zfull, zfull),
                ("x * zrow", lambda: x * zrow, lambda: d * zrow, zrow),
                ("x + zrow", lambda: x + zrow, lambda: d + zrow, zrow),
                ("x * orow", lambda: x * orow, lambda: d * orow, orow),
                ("x + ofull", lambda: x + ofull, lambda: d + ofull, ofull),
                ("np.maximum(x, row)", lambda: np.maximum(x, row), lambda: np.maximum(d, row), row),
                ("np.where(x > 11, x, row)", lambda: np.where(x > 11, x, row), lambda: np.where(d > 11, d, row), row),
                ("x > full", lambda: x > full, lambda: d > full, full),
            ]
            for expr, thunk, ref, dense in cases:
                o, r, detail = outcome(thunk)
                with np.errstate(all="ignore"):
                    want = ref()
                    # the rule's first input, computed independently of the implementation: func(fill, dense operands) evaluated on an
                    # all-fill stand-in for the sparse operand is one constant
                    const_arr = eval_expr(expr, np.full(d.shape, fv), dense)
                const = bool(np.all(equalnan(const_arr, const_arr.flat[0])))
                rec = {"expr": expr, "format": fmt, "fill": fk, "outcome": o, "const_fill": const,
                       "dense_has_result_shape": tuple(dense.shape) == tuple(want.shape), "detail": detail[:160]}
                if o in ("sparse", "dense"):
                    rec["equal"] = eq(r.todense() if o == "sparse" else r, want)
                mix.append(rec)
    print(json.dumps({"auto_densify": bool(_settings.AUTO_DENSIFY), "coercions": coercions, "mix": mix}))


def equalnan(a, b):
    a = np.asarray(a)
    return (a == b) | ((a != a) & (b != b))


def eval_expr(expr, x, dense):
    """the expression of a mix case on dense stand-ins (x := an all-fill array)"""
    env = {"np": np, "x": x, "full": dense, "row": dense, "zfull": dense, "zrow": dense, "ofull": dense, "orow": dense}
    return np.asarray(eval(expr, env))  # noqa: S307 - fixed expressions from the table above


if __name__ == "__main__":
    main()

"""C18 worker: a long-lived subprocess that executes JSON-described calls of pydata/sparse.

Protocol (one JSON object per line on stdin, one or more JSON lines per case on stdout):

    parent -> worker   {"id": n, "op": name, "arrays": [array descriptions], "args": [...], "kwargs": {...},
                        "warm": <optional case executed first, not judged>}
    worker -> parent   {"phase": "ready", "file": sparse.__file__}                      once, after importing sparse
                       {"id": n, "phase": "warm"}                                      after the optional prelude
                       {"id": n, "phase": "ref", "np": "ok"|"err"|"none", ...}          NumPy / contract verdict
                       {"id": n, "phase": "done", "out": "ok"|"err"|"setup", ...}       outcome of the call

The parent owns the clock: it kills this process when a phase misses its deadline (a `nogil` numba loop cannot be
interrupted from inside) and reads the exit status when the process dies.

Argument encoding (`dec`): JSON scalars are themselves; a JSON list is a *tuple*; tagged objects:
    {"x": i}  array number i of the case (the sparse array for the call, the dense one for the NumPy reference)
    {"d": i}  the dense ndarray number i on both sides
    {"l": [...]} list    {"s": [a, b, c]} slice    {"e": 1} Ellipsis    {"a": nested, "dtype": "int64", "shape": [...]} ndarray
    {"f": "nan"|"inf"|"-inf"} float    {"dt": "float32"} numpy dtype    {"ufunc": "add"} numpy ufunc
    {"hex": "..."} bytes    {"kv": [[key, value], ...]} dict    {"cplx": [re, im]} complex    {"cls": "COO"|"GCXS"|"DOK"|"ndarray"} class
Array descriptions: {"dense": nested list, "shape": [...], "dtype": "int64", "format": "coo"|"gcxs"|"dok"|"dense"|"csr"|"csc",
                     "ca": [compressed axes]|null, "fill": 0, "idx_dtype": null|"uint8"}
"""
from __future__ import annotations

import io
import json
import operator
import os
import sys
import time
import traceback
import warnings

# -----------------------------------------------------------------------------------------------------------------
# decoding
# -----------------------------------------------------------------------------------------------------------------


def dec(v, arrs, dense):
    import numpy as np

    if isinstance(v, list):
        return tuple(dec(e, arrs, dense) for e in v)
    if isinstance(v, dict):
        if "x" in v:
            return arrs[v["x"]]
        if "d" in v:
            return dense[v["d"]]
        if "l" in v:
            return [dec(e, arrs, dense) for e in v["l"]]
        if "s" in v:
            return slice(*[dec(e, arrs, dense) for e in v["s"]])
        if "e" in v:
            return Ellipsis
        if "a" in v:
            a = np.array(v["a"], dtype=v.get("dtype", "int64"))
            if "shape" in v:
                a = a.reshape(v["shape"])
            return a
        if "f" in v:
            return float(v["f"])
        if "dt" in v:
            return np.dtype(v["dt"])
        if "ufunc" in v:
            return getattr(np, v["ufunc"])
        if "hex" in v:
            return bytes.fromhex(v["hex"])
        if "kv" in v:
            return {dec(k, arrs, dense): dec(val, arrs, dense) for k, val in v["kv"]}
        if "cplx" in v:
            return complex(*v["cplx"])
        if "cls" in v:
            import sparse

            return {"COO": sparse.COO, "GCXS": sparse.GCXS, "DOK": sparse.DOK, "ndarray": np.ndarray}[v["cls"]]
        raise ValueError(f"bad tagged value {v!r}")
    return v


def build(desc):
    """array description -> (array for the call, dense ndarray)"""
    import numpy as np
    import sparse

    fmt = desc.get("format", "coo")
    if "coords" in desc:
        # an array given by its coordinate dictionary (astronomically long axes: no dense form exists); coords: one list per stored entry, sorted
        nd = len(desc["shape"])
        c = np.array(desc["coords"], dtype=np.int64).reshape(len(desc["data"]), nd).T
        x = sparse.COO(c, np.array(desc["data"], dtype=desc.get("dtype", "int64")), shape=tuple(desc["shape"]), has_duplicates=False, sorted=True)
        if fmt == "dok":
            x = sparse.DOK.from_coo(x)
        elif fmt == "gcxs":
            x = sparse.GCXS.from_coo(x, compressed_axes=desc.get("ca"))
        return x, None
    d = np.array(desc["dense"], dtype=desc.get("dtype", "int64")).reshape(desc["shape"])
    if fmt == "dense":
        return d, d
    if fmt in ("csr", "csc"):
        import scipy.sparse as sps

        return (sps.csr_array if fmt == "csr" else sps.csc_array)(d), d
    fill = desc.get("fill", 0)
    c = sparse.COO.from_numpy(d, fill_value=fill)
    if desc.get("idx_dtype"):
        c = sparse.COO(c.coords.astype(desc["idx_dtype"]), c.data, shape=c.shape, fill_value=fill, has_duplicates=False, sorted=True)
    if fmt == "coo":
        return c, d
    if fmt == "gcxs":
        return sparse.GCXS.from_coo(c, compressed_axes=desc.get("ca")), d
    if fmt == "dok":
        return sparse.DOK.from_coo(c), d
    raise ValueError(f"bad format {fmt}")


# -----------------------------------------------------------------------------------------------------------------
# the table of operations: name -> {"impl": callable, "ref": callable|None, "fam": family}
# impl receives the decoded arguments with sparse arrays, ref the same arguments with dense arrays.
# A ref that is a *contract* (no NumPy counterpart) returns None to accept and raises ValueError to reject.
# -----------------------------------------------------------------------------------------------------------------

REDUCTIONS = ["sum", "prod", "max", "min", "mean", "var", "std", "any", "all", "nansum", "nanprod", "nanmax", "nanmin", "nanmean"]
ARG_REDUCTIONS = ["argmax", "argmin"]
METHOD_REDUCTIONS = ["sum", "prod", "max", "min", "mean", "var", "std", "any", "all", "amax", "amin"]
UNARY = ["abs", "acos", "acosh", "asin", "asinh", "atan", "atanh", "bitwise_invert", "bitwise_not", "ceil", "conj", "cos", "cosh", "exp",
         "expm1", "floor", "imag", "isfinite", "isinf", "isnan", "isneginf", "isposinf", "log", "log10", "log1p", "log2", "logical_not",
         "negative", "positive", "real", "round", "sign", "sin", "sinh", "sqrt", "square", "tan", "tanh", "trunc"]
BINARY = ["add", "atan2", "bitwise_and", "bitwise_left_shift", "bitwise_or", "bitwise_right_shift", "bitwise_xor", "divide", "equal",
          "floor_divide", "greater", "greater_equal", "less", "less_equal", "logaddexp", "logical_and", "logical_or", "logical_xor",
          "multiply", "not_equal", "pow", "remainder", "subtract"]
OPERATORS = {"x+y": operator.add, "x-y": operator.sub, "x*y": operator.mul, "x/y": operator.truediv, "x//y": operator.floordiv,
             "x%y": operator.mod, "x**y": operator.pow, "x==y": operator.eq, "x!=y": operator.ne, "x<y": operator.lt, "x<=y": operator.le,
             "x>y": operator.gt, "x>=y": operator.ge, "x&y": operator.and_, "x|y": operator.or_, "x^y": operator.xor,
             "x<<y": operator.lshift, "x>>y": operator.rshift}
CONSTANTS = ["SparseArray", "bool", "complex128", "complex64", "e", "finfo", "float16", "float32", "float64", "iinfo", "inf", "int16", "int32",
             "int64", "int8", "nan", "newaxis", "pi", "uint16", "uint32", "uint64", "uint8"]

_TABLE = None


class ContractReject(ValueError):
    pass


def _reject(why):
    raise ContractReject(why)


def _is_int(v):
    from numbers import Integral

    return isinstance(v, Integral) and not isinstance(v, bool)


def _axis_in(a, nd):
    return _is_int(a) and -nd <= a < nd


def table():
    global _TABLE
    if _TABLE is not None:
        return _TABLE
    import numpy as np
    import sparse

    T = {}

    def add(name, impl, ref=None, fam=None, public=None):
        assert name not in T, name
        T[name] = {"impl": impl, "ref": ref, "fam": fam or name, "public": public}

    # ---- reductions ---------------------------------------------------------------------------------------------
    for n in REDUCTIONS + ARG_REDUCTIONS:
        add(f"sparse.{n}", getattr(sparse, n), getattr(np, n), fam="reduce", public=n)
    for n in METHOD_REDUCTIONS:
        npn = {"amax": "max", "amin": "min"}.get(n, n)
        add(f"x.{n}", (lambda n: lambda x, *a, **k: getattr(x, n)(*a, **k))(n), (lambda n: lambda d, *a, **k: getattr(d, n)(*a, **k))(npn), fam="reduce")
    add("x.reduce", lambda x, uf, *a, **k: x.reduce(uf, *a, **k), lambda d, uf, *a, **k: uf.reduce(d, *a, **k), fam="reduce")
    add("sparse.nanreduce", lambda x, uf, *a, **k: sparse.nanreduce(x, uf, *a, **k), lambda d, uf, *a, **k: uf.reduce(d, *a, **k), fam="reduce", public="nanreduce")
    add("np.sum(x)", np.sum, np.sum, fam="reduce")
    add("np.max(x)", np.max, np.max, fam="reduce")

    # ---- element-wise -------------------------------------------------------------------------------------------
    for n in UNARY:
        add(f"sparse.{n}", getattr(sparse, n), getattr(np, n), fam="unary", public=n)
    for n in BINARY:
        add(f"sparse.{n}", getattr(sparse, n), getattr(np, n), fam="binary", public=n)
    for n, f in OPERATORS.items():
        add(n, f, f, fam="binary")
    add("sparse.elemwise", lambda uf, *a, **k: sparse.elemwise(uf, *a, **k), lambda uf, *a, **k: uf(*a, **k), fam="binary", public="elemwise")
    add("np.add(x,y)", np.add, np.add, fam="binary")
    add("sparse.where", sparse.where, np.where, fam="ternary", public="where")
    add("sparse.clip", sparse.clip, np.clip, fam="ternary", public="clip")
    add("x.clip", lambda x, *a: x.clip(*a), np.clip, fam="ternary")
    add("x.round", lambda x, *a, **k: x.round(*a, **k), lambda d, *a, **k: d.round(*a, **k), fam="unary")
    add("x.conj", lambda x: x.conj(), lambda d: d.conj(), fam="unary")
    add("x.real", lambda x: x.real, lambda d: d.real, fam="unary")
    add("x.imag", lambda x: x.imag, lambda d: d.imag, fam="unary")
    add("-x", operator.neg, operator.neg, fam="unary")
    add("~x", operator.invert, operator.invert, fam="unary")
    add("abs(x)", operator.abs, operator.abs, fam="unary")
    add("x.astype", lambda x, *a, **k: x.astype(*a, **k), lambda d, *a, **k: d.astype(*a, **k), fam="dtype")
    add("sparse.astype", sparse.astype, lambda d, dt, **k: d.astype(dt, **k), fam="dtype", public="astype")
    add("sparse.can_cast", sparse.can_cast, lambda d, to, **k: np.can_cast(d.dtype if hasattr(d, "dtype") else d, to, **k), fam="dtype", public="can_cast")
    add("sparse.result_type", sparse.result_type, np.result_type, fam="dtype", public="result_type")

    # ---- shape manipulation -------------------------------------------------------------------------------------
    add("x.reshape", lambda x, *a, **k: x.reshape(*a, **k), lambda d, *a, **k: d.reshape(*a, **k), fam="reshape")
    add("sparse.reshape", sparse.reshape, np.reshape, fam="reshape", public="reshape")
    add("x.flatten", lambda x, *a, **k: x.flatten(*a, **k), lambda d, *a, **k: d.flatten(*a, **k), fam="reshape")
    add("x.transpose", lambda x, *a, **k: x.transpose(*a, **k), lambda d, *a, **k: d.transpose(*a, **k), fam="transpose")
    add("sparse.permute_dims", sparse.permute_dims, np.transpose, fam="transpose", public="permute_dims")
    add("x.T", lambda x: x.T, lambda d: d.T, fam="transpose")
    add("x.mT", lambda x: x.mT, lambda d: d.mT, fam="transpose")
    add("sparse.matrix_transpose", sparse.matrix_transpose, np.matrix_transpose, fam="transpose", public="matrix_transpose")
    add("x.swapaxes", lambda x, *a, **k: x.swapaxes(*a, **k), lambda d, *a, **k: d.swapaxes(*a, **k), fam="transpose")
    add("sparse.moveaxis", sparse.moveaxis, np.moveaxis, fam="transpose", public="moveaxis")
    add("sparse.squeeze", sparse.squeeze, np.squeeze, fam="squeeze", public="squeeze")
    add("x.squeeze", lambda x, *a, **k: x.squeeze(*a, **k), lambda d, *a, **k: d.squeeze(*a, **k), fam="squeeze")
    add("sparse.expand_dims", sparse.expand_dims, np.expand_dims, fam="expand_dims", public="expand_dims")
    add("sparse.flip", sparse.flip, np.flip, fam="flip", public="flip")
    add("sparse.roll", sparse.roll, np.roll, fam="roll", public="roll")
    add("sparse.pad", sparse.pad, np.pad, fam="pad", public="pad")
    add("sparse.broadcast_to", sparse.broadcast_to, np.broadcast_to, fam="broadcast_to", public="broadcast_to")
    add("x.broadcast_to", lambda x, s: x.broadcast_to(s), np.broadcast_to, fam="broadcast_to")
    add("sparse.broadcast_arrays", sparse.broadcast_arrays, np.broadcast_arrays, fam="broadcast_to", public="broadcast_arrays")
    add("sparse.tril", sparse.tril, np.tril, fam="tri", public="tril")
    add("sparse.triu", sparse.triu, np.triu, fam="tri", public="triu")
    add("sparse.diagonal", sparse.diagonal, np.diagonal, fam="diagonal", public="diagonal")
    add("sparse.diagonalize", sparse.diagonalize, _contract_diagonalize, fam="diagonal", public="diagonalize")

    # ---- indexing -----------------------------------------------------------------------------------------------
    add("x[idx]", operator.getitem, operator.getitem, fam="getitem")
    # the same on arrays that have no dense form: the result comes back as its coordinate dictionary (case "value": true), the reference is
    # computed by the harness from the coordinate dictionary of the operand
    add("xlong[idx]", lambda x, idx: _long_json(x[idx]), None, fam="getitem-long")
    add("dok[idx]=v", _dok_set, _np_set, fam="setitem")
    add("sparse.take", sparse.take, np.take, fam="take", public="take")
    add("sparse.nonzero", sparse.nonzero, np.nonzero, fam="search", public="nonzero")
    add("x.nonzero", lambda x: x.nonzero(), lambda d: d.nonzero(), fam="search")
    add("sparse.argwhere", sparse.argwhere, np.argwhere, fam="search", public="argwhere")
    add("sparse.sort", sparse.sort, lambda d, **k: np.sort(d, axis=k.get("axis", -1), stable=k.get("stable", None)) if _sort_flags_ok(k) else _reject("flags"),
        fam="sort", public="sort")
    add("sparse.unique_values", sparse.unique_values, np.unique_values, fam="search", public="unique_values")
    add("sparse.unique_counts", sparse.unique_counts, np.unique_counts, fam="search", public="unique_counts")

    # ---- products -----------------------------------------------------------------------------------------------
    add("sparse.dot", sparse.dot, np.dot, fam="dot", public="dot")
    add("x.dot", lambda x, y: x.dot(y), np.dot, fam="dot")
    add("sparse.matmul", sparse.matmul, np.matmul, fam="dot", public="matmul")
    add("x@y", operator.matmul, operator.matmul, fam="dot")
    add("sparse.tensordot", sparse.tensordot, lambda a, b, **k: np.tensordot(a, b, **{kk: v for kk, v in k.items() if kk != "return_type"}),
        fam="tensordot", public="tensordot")
    add("sparse.einsum", sparse.einsum, np.einsum, fam="einsum", public="einsum")
    add("sparse.kron", sparse.kron, np.kron, fam="kron", public="kron")
    add("sparse.outer", sparse.outer, np.outer, fam="kron", public="outer")
    add("sparse.vecdot", sparse.vecdot, np.vecdot, fam="vecdot", public="vecdot")

    # ---- joining ------------------------------------------------------------------------------------------------
    add("sparse.concatenate", sparse.concatenate, np.concatenate, fam="join", public="concatenate")
    add("sparse.concat", sparse.concat, np.concatenate, fam="join", public="concat")
    add("sparse.stack", sparse.stack, np.stack, fam="join", public="stack")

    # ---- creation -----------------------------------------------------------------------------------------------
    add("sparse.eye", sparse.eye, np.eye, fam="create", public="eye")
    add("sparse.full", sparse.full, np.full, fam="create", public="full")
    add("sparse.zeros", sparse.zeros, np.zeros, fam="create", public="zeros")
    add("sparse.ones", sparse.ones, np.ones, fam="create", public="ones")
    add("sparse.empty", sparse.empty, np.empty, fam="create", public="empty")
    add("sparse.full_like", sparse.full_like, np.full_like, fam="create", public="full_like")
    add("sparse.zeros_like", sparse.zeros_like, np.zeros_like, fam="create", public="zeros_like")
    add("sparse.ones_like", sparse.ones_like, np.ones_like, fam="create", public="ones_like")
    add("sparse.empty_like", sparse.empty_like, np.empty_like, fam="create", public="empty_like")
    add("sparse.random", sparse.random, _contract_random, fam="random", public="random")
    add("sparse.asarray", sparse.asarray, lambda o, **k: np.asarray(o, dtype=k.get("dtype")) if k.get("format", "coo") in ("coo", "gcxs", "dok") else _reject("format"),
        fam="convert", public="asarray")
    add("sparse.asnumpy", sparse.asnumpy, lambda d, *a, **k: np.asarray(d, *a, **k), fam="convert", public="asnumpy")
    add("sparse.as_coo", sparse.as_coo, None, fam="convert", public="as_coo")
    add("sparse.asCOO", sparse.asCOO, None, fam="convert", public="asCOO")

    # ---- constructors and conversions ---------------------------------------------------------------------------
    add("COO(coords,data,shape)", lambda *a, **k: sparse.COO(*a, **k), _contract_coo, fam="ctor", public="COO")
    add("COO.from_iter", lambda *a, **k: sparse.COO.from_iter(*a, **k), None, fam="ctor")
    add("COO.from_numpy", lambda d, **k: sparse.COO.from_numpy(d, **k), lambda d, **k: None, fam="ctor")
    add("DOK(shape,data)", lambda *a, **k: sparse.DOK(*a, **k), _contract_dok, fam="ctor", public="DOK")
    add("GCXS(triple,shape,ca)", lambda *a, **k: sparse.GCXS(*a, **k), _contract_gcxs, fam="ctor", public="GCXS")
    add("GCXS.from_coo", lambda x, **k: sparse.GCXS.from_coo(x, **k), _contract_caxes, fam="caxes")
    add("GCXS.from_numpy", lambda d, **k: sparse.GCXS.from_numpy(d, **k), _contract_caxes, fam="caxes")
    add("x.change_compressed_axes", lambda x, ca: x.change_compressed_axes(ca), lambda d, ca: _contract_caxes(d, compressed_axes=ca), fam="caxes")
    add("x.asformat", lambda x, *a, **k: x.asformat(*a, **k), _contract_asformat, fam="caxes")
    add("x.todense", lambda x: x.todense(), lambda d: d, fam="convert")
    add("x.tocsr", lambda x: x.tocsr(), lambda d: None if d.ndim == 2 else _reject("ndim"), fam="convert")
    add("x.tocsc", lambda x: x.tocsc(), lambda d: None if d.ndim == 2 else _reject("ndim"), fam="convert")
    add("x.to_scipy_sparse", lambda x, *a, **k: x.to_scipy_sparse(*a, **k), lambda d, *a, **k: None if d.ndim == 2 else _reject("ndim"), fam="convert")
    add("x.tocoo", lambda x: x.tocoo() if hasattr(x, "tocoo") else (x.to_coo() if hasattr(x, "to_coo") else x.asformat("coo")), lambda d: d, fam="convert")
    add("x.todok", lambda x: x.todok() if hasattr(x, "todok") else x.asformat("dok"), lambda d: d, fam="convert")
    add("x.copy", lambda x: x.copy(), lambda d: d.copy(), fam="convert")
    add("x.maybe_densify", lambda x, *a, **k: x.maybe_densify(*a, **k), None, fam="convert")
    add("x.linear_loc", lambda x: x.linear_loc(), lambda d: None, fam="convert")
    add("x.props", lambda x: (x.nnz, x.size, x.density, x.nbytes, x.ndim, x.dtype, x.format, x.device, repr(x), str(x)), lambda d: None, fam="convert")
    add("x.to_device", lambda x, dev: x.to_device(dev), lambda d, dev: None if dev == "cpu" else _reject("device"), fam="convert")
    add("from_scipy_sparse", lambda s, cls: getattr(sparse, cls).from_scipy_sparse(s), lambda d, cls: None, fam="convert")

    # ---- kernels (pure-Python bodies of the jitted loops, for the correspondence leg) ---------------------------
    add("kernel.get_slicing_selection", _kernel_slicing_selection, None, fam="kernel")

    # ---- persistence --------------------------------------------------------------------------------------------
    add("sparse.load_npz", lambda b: sparse.load_npz(io.BytesIO(b)), lambda b: _np_load(b), fam="npz", public="load_npz")
    add("sparse.save_npz", _save_load, lambda d, **k: d, fam="npz", public="save_npz")

    _TABLE = T
    return T


# ---- reference helpers / contracts ----------------------------------------------------------------------------------

def _sort_flags_ok(k):
    return all(kk in ("axis", "descending", "stable") for kk in k) and isinstance(k.get("descending", False), bool)


def _contract_diagonalize(d, axis=0):
    if not _axis_in(axis, d.ndim):
        _reject("axis out of range")


def _contract_random(shape, density=None, nnz=None, **k):
    import numpy as np

    shp = (shape,) if _is_int(shape) else tuple(shape)
    if not all(_is_int(s) and s >= 0 for s in shp):
        _reject("shape")
    if density is not None and nnz is not None:
        _reject("density and nnz")
    if density is not None and not (isinstance(density, int | float) and 0 <= density <= 1):
        _reject("density")
    size = int(np.prod(shp, dtype=object)) if shp else 1
    if nnz is not None and not (_is_int(nnz) and 0 <= nnz <= size):
        _reject("nnz")


def _contract_caxes(d, compressed_axes=None, **k):
    import numpy as np

    ca = compressed_axes
    if ca is None:
        return
    nd = np.ndim(d)
    try:
        ca = list(ca)
    except TypeError:
        _reject("not iterable")
    # negative axes are normalised (documented through normalize_axis); then: distinct, fewer than ndim, at least one
    if not all(_is_int(a) and -nd <= a < nd for a in ca) or len({a % nd for a in ca}) != len(ca) or len(ca) >= max(nd, 1) or not ca:
        _reject("compressed_axes")


def _contract_asformat(d, fmt, **k):
    if fmt not in ("coo", "gcxs", "dok", "csr", "csc"):
        _reject("format")
    if "compressed_axes" in k:
        if fmt != "gcxs":
            _reject("compressed_axes for a format other than gcxs")
        _contract_caxes(d, compressed_axes=k["compressed_axes"])
    if fmt in ("csr", "csc") and d.ndim != 2:
        _reject("ndim")


def _contract_coo(coords, data=None, shape=None, **k):
    """documented contract of COO(coords, data, shape): coords is an integer array (ndim, nnz) of in-range,
    non-negative coordinates, data has nnz entries (or is a scalar), shape is a tuple of non-negative integers"""
    import numpy as np

    if data is None:
        return  # as_coo path: not judged by this contract
    c = np.asarray(coords)
    dat = np.asarray(data)
    if shape is None:
        _reject("shape missing")
    shp = (shape,) if _is_int(shape) else tuple(shape)
    if not all(_is_int(s) and s >= 0 for s in shp):
        _reject("shape")
    if dat.ndim > 1:
        _reject("data rank")
    if c.ndim == 1:
        c = c.reshape((len(shp), len(dat))) if (c.size == 0 and dat.ndim == 1) else c[None, :]
    if c.ndim != 2:
        _reject("coords rank")
    idt = k.get("idx_dtype")
    if c.size and c.dtype.kind not in "iu" and idt is None:
        _reject("coords dtype")      # (with an explicit idx_dtype the caller asks for the cast)
    if idt is not None and shp and max(shp) - 1 > np.iinfo(idt).max:
        _reject("idx_dtype too narrow")
    if c.size == 0 and shp and ((dat.ndim == 1 and len(dat) == 0) or (dat.ndim == 0 and c.shape[1] == 0)):
        return      # an empty coordinate array with no data: the empty array of that shape, whatever the array's own shape
    if c.shape[0] != len(shp):
        _reject("rank mismatch")
    if dat.ndim == 1 and len(dat) != c.shape[1]:
        _reject("length mismatch")
    if c.size and ((c < 0).any() or (c >= np.asarray(shp, dtype=np.int64)[:, None]).any()):
        _reject("coordinate outside the shape")


def _contract_dok(shape, data=None, **k):
    import numpy as np

    shp = (shape,) if _is_int(shape) else tuple(shape)
    if not all(_is_int(s) and s >= 0 for s in shp):
        _reject("shape")
    if isinstance(data, dict):
        for key in data:
            key = key if isinstance(key, tuple) else (key,)
            # keys go through item assignment: negative entries count from the end
            if len(key) != len(shp) or not all(_is_int(i) and -s <= i < s for i, s in zip(key, shp)):
                _reject("key outside the shape")
    elif data is not None:
        if np.shape(data) != shp:
            _reject("data shape")


def _contract_gcxs(arg, shape=None, compressed_axes=None, **k):
    import numpy as np

    if not (isinstance(arg, tuple) and len(arg) == 3):
        return
    data, indices, indptr = (np.asarray(a) for a in arg)
    if shape is None:
        _reject("shape missing")
    # index arrays hold integers (any width, signed or not; a bool array is read as 0/1 by NumPy and is not judged)
    nd_ = 1 if _is_int(shape) else len(tuple(shape))
    if (nd_ >= 1 and indices.size and indices.dtype.kind not in "iub") or (nd_ >= 2 and indptr.dtype.kind not in "iub"):
        _reject("index dtype")
    shp = (shape,) if _is_int(shape) else tuple(shape)
    if not all(_is_int(s) and s >= 0 for s in shp):
        _reject("shape")
    _contract_caxes(np.empty(shp), compressed_axes=compressed_axes)
    if len(shp) == 0:
        # a 0-d GCXS keeps COO-style coordinates of shape (0, nnz) as its indices (what from_coo hands over); nothing else is well-formed
        if data.ndim != 1 or not (indices.shape == (0, len(data)) or (len(data) == 0 and indices.size == 0)):
            _reject("0-d indices")
        return
    if data.ndim != 1 or indices.ndim != 1 or len(data) != len(indices):
        _reject("data/indices length")
    if len(shp) >= 2:
        ca = list(compressed_axes) if compressed_axes is not None else [0]
        rows = int(np.prod([shp[a] for a in ca]))
        cols = int(np.prod([s for i, s in enumerate(shp) if i not in ca]))
        if indptr.ndim != 1 or len(indptr) != rows + 1 or indptr[0] != 0 or indptr[-1] != len(indices):
            _reject("indptr")
        if (indptr[1:] < indptr[:-1]).any():      # a comparison of stored values: np.diff would wrap for unsigned dtypes
            _reject("indptr decreasing")
        if len(indices) and (indices.min() < 0 or indices.max() >= cols):
            _reject("indices out of range")
    elif len(shp) == 1 and len(indices) and (indices.min() < 0 or indices.max() >= shp[0]):
        _reject("indices out of range")


def _long_json(r):
    import numpy as np
    import sparse

    if isinstance(r, sparse.SparseArray):
        c = r if isinstance(r, sparse.COO) else (r.tocoo() if isinstance(r, sparse.GCXS) else r.asformat("coo"))
        return {"type": type(r).__name__, "shape": [int(v) for v in c.shape], "coords": [[int(v) for v in col] for col in c.coords.T.tolist()] if c.ndim else [[] for _ in range(c.nnz)],
                "data": [int(v) for v in c.data.tolist()], "fill": int(c.fill_value)}
    if isinstance(r, np.ndarray):
        return {"type": "ndarray", "shape": list(r.shape), "data": [int(v) for v in r.ravel()[:64]]}
    return {"type": "scalar", "data": int(r)}


def _kernel_slicing_selection(indices, starts, ends, col):
    """`get_slicing_selection.py_func` with data = arange, so that the selected positions (ind_list) are visible"""
    import numpy as np
    from sparse.numba_backend._compressed import indexing as CI

    data = np.arange(len(indices), dtype=np.int64)
    indptr = np.zeros(len(starts) + 1, dtype=np.int64)
    dat, ind, ptr = CI.get_slicing_selection.py_func(data, np.array(indices, dtype=np.int64), indptr, np.array(starts, dtype=np.int64),
                                                     np.array(ends, dtype=np.int64), np.array(col, dtype=np.int64))
    return {"ind_list": [int(v) for v in dat], "indices": [int(v) for v in ind], "indptr": [int(v) for v in ptr]}


def _dok_set(x, idx, v):
    import sparse

    y = sparse.DOK.from_coo(x.to_coo())
    y[idx] = v
    return y


def _np_set(d, idx, v):
    e = d.copy()
    e[idx] = v
    return e


def _np_load(b):
    import numpy as np

    with np.load(io.BytesIO(b)) as f:
        if not hasattr(f, "files"):
            _reject("not an npz archive")
        return {k: f[k] for k in f.files}


def _save_load(x, **k):
    import sparse

    buf = io.BytesIO()
    sparse.save_npz(buf, x, **k)
    buf.seek(0)
    return sparse.load_npz(buf)


# -----------------------------------------------------------------------------------------------------------------
# execution
# -----------------------------------------------------------------------------------------------------------------

def sizes(obj, depth=0):
    """(stored elements, sum of extents) of a value, recursively through tuples/lists"""
    import numpy as np

    if depth > 3:
        return 0, 0
    if hasattr(obj, "nnz") and hasattr(obj, "shape"):
        try:
            return int(obj.nnz), int(sum(obj.shape))
        except Exception:  # noqa: BLE001
            return 0, 0
    if isinstance(obj, np.ndarray):
        return int(obj.size), int(sum(obj.shape))
    if isinstance(obj, list | tuple):
        n = s = 0
        for e in obj[:64]:
            a, b = sizes(e, depth + 1)
            n += a
            s += b
        return n, s
    return 0, 0


def describe_exc(e):
    import impl

    tb = traceback.extract_tb(e.__traceback__)
    origin = ""
    in_numba = False
    for fr in tb:
        fn = fr.filename.replace("\\", "/")
        if "/numba/" in fn:
            in_numba = True
    for fr in reversed(tb):
        fn = fr.filename.replace("\\", "/")
        if "c18_worker" in fn:
            continue
        for key in ("/sparse/", "/numba/", "/numpy/", "/scipy/"):
            if key in fn:
                origin = f"{key.strip('/')}:{fn.split(key)[-1]}:{fr.name}"
                break
        else:
            origin = f"{os.path.basename(fn)}:{fr.name}"
        break
    return {
        "etype": type(e).__name__,
        "emod": type(e).__module__,
        "mro": [c.__name__ for c in type(e).__mro__[:-2]],
        "cls": impl.err_class(e),
        "msg": str(e)[:300],
        "origin": origin,
        "numba": in_numba or type(e).__module__.startswith("numba"),
    }


def result_summary(r):
    import numpy as np
    import sparse

    if isinstance(r, sparse.SparseArray):
        return {"type": type(r).__name__, "shape": [int(s) for s in r.shape]}
    if isinstance(r, np.ndarray):
        return {"type": "ndarray", "shape": [int(s) for s in r.shape]}
    if isinstance(r, tuple | list):
        return {"type": type(r).__name__, "len": len(r)}
    return {"type": type(r).__name__}


def touch(r):
    """use the result the way a caller would: a sparse array that cannot even be densified is not a result"""
    import sparse

    if isinstance(r, sparse.SparseArray) and r.size <= 4096:
        r.todense()
    elif isinstance(r, tuple | list):
        for e in r[:8]:
            touch(e)


def execute(case, emit):
    T = table()
    cid = case.get("id")
    ent = T.get(case["op"])
    if ent is None:
        emit({"id": cid, "phase": "done", "out": "setup", "msg": f"unknown op {case['op']}"})
        return
    try:
        built = [build(a) for a in case.get("arrays", [])]
    except Exception as e:  # noqa: BLE001
        emit({"id": cid, "phase": "done", "out": "setup", **describe_exc(e)})
        return
    xs = [b[0] for b in built]
    ds = [b[1] for b in built]
    nnz_in, ext_in = sizes(xs)
    # ---- the reference verdict ----
    ref = ent["ref"]
    refinfo = {"np": "none"}
    with warnings.catch_warnings():
        warnings.simplefilter("ignore")
        if ref is not None:
            try:
                a = dec(case.get("args", []), ds, ds)
                k = {kk: dec(v, ds, ds) for kk, v in case.get("kwargs", {}).items()}
                ref(*a, **k)
                refinfo = {"np": "ok"}
            except BaseException as e:  # noqa: BLE001
                refinfo = {"np": "err", "np_etype": type(e).__name__, "np_msg": str(e)[:160], "np_contract": isinstance(e, ContractReject)}
        emit({"id": cid, "phase": "ref", **refinfo})
        # ---- the call ----
        t0 = time.perf_counter()
        c0 = time.process_time()
        cpu = None
        try:
            a = dec(case.get("args", []), xs, ds)
            k = {kk: dec(v, xs, ds) for kk, v in case.get("kwargs", {}).items()}
            r = ent["impl"](*a, **k)
            el = time.perf_counter() - t0
            cpu = time.process_time() - c0
            nnz_out, ext_out = sizes(r)
            out = {"out": "ok", "result": result_summary(r), "nnz_out": nnz_out, "ext_out": ext_out}
            if case.get("value"):
                out["value"] = r
            if case.get("touch", True):
                try:
                    touch(r)
                except Exception as e:  # noqa: BLE001
                    out["touch_err"] = describe_exc(e)
        except RecursionError as e:
            el = time.perf_counter() - t0
            out = {"out": "err", "etype": "RecursionError", "emod": "builtins", "mro": ["RecursionError", "RuntimeError"], "cls": "runtime",
                   "msg": str(e)[:200], "origin": "", "numba": False}
        except Exception as e:  # noqa: BLE001
            el = time.perf_counter() - t0
            out = {"out": "err", **describe_exc(e)}
    emit({"id": cid, "phase": "done", "elapsed": round(el, 6), "cpu": None if cpu is None else round(cpu, 6), "nnz_in": nnz_in, "ext_in": ext_in, **refinfo, **out})


# ---- time regression ---------------------------------------------------------------------------------------------

def timing(spec):
    """{"op": name, "n": rows (square 2-d), "nnz": stored elements, "reps": r} -> seconds (best of reps, after one warm call)"""
    import numpy as np
    import sparse

    n, nnz = int(spec["n"]), int(spec["nnz"])
    rng = np.random.default_rng(spec.get("seed", 0))

    def mk(shape, nnz):
        size = int(np.prod(shape))
        lin = rng.choice(size, size=min(nnz, size), replace=False) if size < 5_000_000 else np.unique(rng.integers(0, size, size=nnz))
        coords = np.stack(np.unravel_index(np.sort(lin), shape))
        return sparse.COO(coords, rng.integers(1, 5, size=coords.shape[1]).astype(np.float64), shape=shape, has_duplicates=False, sorted=True)

    op = spec["op"]
    x = mk((n, n), nnz)
    y = mk((n, n), nnz)
    g = sparse.GCXS.from_coo(x, compressed_axes=(0,)) if op.startswith("gcxs") else None
    fns = {
        "add": lambda: x + y,
        "sum": lambda: x.sum(axis=0),
        "reshape": lambda: x.reshape((n * n,)),
        "transpose": lambda: x.T,
        "getitem": lambda: x[n // 4: 3 * n // 4, ::2],
        "concatenate": lambda: sparse.concatenate([x, y], axis=0),
        "matmul": lambda: x @ y,
        "tensordot": lambda: sparse.tensordot(x, y, axes=([1], [0])),
        "gcxs_from_coo": lambda: sparse.GCXS.from_coo(x, compressed_axes=(1,)),
        "gcxs_change_axes": lambda: g.change_compressed_axes((1,)),
        "gcxs_getitem": lambda: g[n // 4: 3 * n // 4, ::2],
    }
    f = fns[op]
    r = f()
    best = None
    for _ in range(int(spec.get("reps", 3))):
        t0 = time.perf_counter()
        r = f()
        el = time.perf_counter() - t0
        best = el if best is None else min(best, el)
    nnz_out, ext_out = sizes(r)
    return {"seconds": best, "nnz_in": int(x.nnz), "nnz_out": nnz_out, "ext": 2 * n + ext_out}


def main():
    proto = os.fdopen(os.dup(1), "w", buffering=1)
    devnull = os.open(os.devnull, os.O_WRONLY)
    os.dup2(devnull, 1)  # nothing the library prints can corrupt the protocol
    sys.stdout = sys.stderr
    try:
        import faulthandler

        faulthandler.enable()
    except Exception:  # noqa: BLE001
        pass

    def emit(obj):
        proto.write(json.dumps(obj, default=str) + "\n")
        proto.flush()

    sys.setrecursionlimit(3000)
    import numpy  # noqa: F401
    import sparse

    table()
    emit({"phase": "ready", "file": sparse.__file__, "pid": os.getpid()})
    for line in sys.stdin:
        line = line.strip()
        if not line:
            continue
        case = json.loads(line)
        if case.get("op") == "__quit__":
            break
        if case.get("op") == "__calibrate__":
            try:
                import loadtol

                emit({"id": case.get("id"), "phase": "done", "out": "ok", **loadtol.reference()})
            except Exception as e:  # noqa: BLE001
                emit({"id": case.get("id"), "phase": "done", "out": "err", **describe_exc(e)})
            continue
        if case.get("op") == "__timing__":
            try:
                emit({"id": case.get("id"), "phase": "done", "out": "ok", **timing(case["spec"])})
            except Exception as e:  # noqa: BLE001
                emit({"id": case.get("id"), "phase": "done", "out": "err", **describe_exc(e)})
            continue
        if case.get("warm"):
            execute({**case["warm"], "id": None}, lambda obj: None)
            emit({"id": case.get("id"), "phase": "warm"})
        execute(case, emit)


if __name__ == "__main__":
    main()

"""C14 — copying and persistence round-trip exactly.

T1   the generated tables (Gen.npzWrite/npzRequire, pickle state, numba struct) are validated against the
     running code by instrumentation: the `nodes` dict handed to np.savez, the order of `fp[...]`
     subscripts in load_npz, the identity of the objects in the state tuple, the struct fields;
leg A  model (svdriver) vs implementation on representations: members written by save_npz (names — as a mapping, not their position in the archive —,
     object-ness, content), load_npz on well- and ill-formed member sets (result fields or error class),
     the two constructors on the load path against the model over an enumerated grid of consistent and inconsistent
     argument triples (the generated consistency checks), pickle state, numba boxing with narrow coordinate dtypes, shallow-copy aliasing;
leg C  the property itself: copy (deep/shallow), pickle, njit identity / constructor, save_npz→load_npz
     (compressed and not) reproduce the array; a deep copy shares no storage; every strict prefix of a saved
     file is rejected; a single-byte corruption is rejected or loads the same array.
"""
from __future__ import annotations

import atexit
import collections
import copy
import hashlib
import io
import itertools
import json
import pickle
import shutil
import signal
import tempfile
import types
import warnings
import zipfile
from pathlib import Path

import numpy as np

import core
import findings
import gen
import impl

PID = "C14"
USES = ["npzCommon", "npzWrite", "npzNoneAxesAsEmpty", "npzRequire", "npzEmptyAxesAsNone", "npzRejectLeadingData", "npzVerifyCrc",
        "cooGetState", "cooSetState", "cooSetStateReset", "cooStruct", "cooShapeDtype", "cooUnbox", "cooBoxArgs", "cooBoxKwargs",
        "gcxsShapeEltOk", "gcxsCtorChecks", "cooCtorChecks", "shapeEltOk"]
TRUSTED = [
    "Lean 4 kernel; axioms propext, Classical.choice, Quot.sound only (audited per theorem each run)",
    "tie T1: Gen.npz*/coo* tables regenerated from _io.py, _coo/core.py, _coo/numba_extension.py each run and validated by instrumenting the running code; "
    "Gen.gcxsCtorChecks/gcxsShapeEltOk/cooCtorChecks/shapeEltOk translated from GCXS.__init__, COO.__init__, SparseArray.__init__ each run "
    "(tools/targets.d/C14.py) and compared with the real constructors on an enumerated grid of (data, indices, indptr, axes, shape) / (coords, data, shape)",
    "tie T2: hand model SparseV.Model.Npz (np.savez/np.load on one member, the order of the constructor checks on the load path incl. check_compressed_axes "
    "and the TypeError of iterating compressed_axes=None, the list meaning of the expressions the generated checks take as parameters "
    "(rowsOf, colsOf, ptrDecreases = np.any(indptr[1:] < indptr[:-1]), listMin/listMax = np.min/np.max), CPython copy protocol, numba integer conversion) compared with the implementation on representations by this run",
    "NumPy's/zlib's zip+npy container, CPython's pickle and copy modules, numba's (un)boxing of arrays and scalars: assumed; "
    "the container hypotheses of truncation_rejected / corruption_never_other are sampled (exhaustively per file), not proved",
]
DTYPES = ["float64", "float32", "float16", "int64", "int32", "int8", "uint8", "uint16", "uint64", "bool", "complex128", "complex64"]
SCRATCH: Path | None = None


def scratch() -> Path:
    global SCRATCH
    if SCRATCH is None:
        SCRATCH = Path(tempfile.mkdtemp(prefix="verif-c14-", dir="/var/tmp"))
        atexit.register(shutil.rmtree, SCRATCH, ignore_errors=True)
    return SCRATCH


# ------------------------------------------------------------------------------------------------
# arrays: specs (JSON, replayable) <-> objects
# ------------------------------------------------------------------------------------------------

def cls_name(x):
    return type(x).__name__


def is_coo(x):
    import sparse
    return isinstance(x, sparse.COO)


def spec_of(x, coords_dtype=None, cache=False):
    """replayable description of a COO/GCXS/CSR/CSC object (exact bytes of the data)"""
    d = {"class": cls_name(x), "shape": [int(s) for s in x.shape], "dtype": x.dtype.str,
         "data": x.data.tobytes().hex(), "fill": np.asarray(x.fill_value).tobytes().hex(), "cache": bool(cache)}
    if is_coo(x):
        d["coords"] = x.coords.tolist()
        d["coords_dtype"] = x.coords.dtype.str
    else:
        d["indices"] = np.asarray(x.indices).tolist()
        d["indptr"] = np.asarray(x.indptr).tolist()
        d["index_dtype"] = np.asarray(x.indices).dtype.str
        d["compressed_axes"] = None if x.compressed_axes is None else [int(a) for a in x.compressed_axes]
    return d


def build(spec):
    import sparse
    if "recipe" in spec:
        return big_array(spec["recipe"])
    dt = np.dtype(spec["dtype"])
    data = np.frombuffer(bytes.fromhex(spec["data"]), dtype=dt).copy()
    fill = np.frombuffer(bytes.fromhex(spec["fill"]), dtype=dt)[0]
    shape = tuple(spec["shape"])
    if spec["class"] == "COO":
        coords = np.asarray(spec["coords"], dtype=np.dtype(spec["coords_dtype"])).reshape(len(shape), len(data))
        x = sparse.COO(coords, data, shape=shape, fill_value=fill, sorted=True, has_duplicates=False)
        if spec.get("cache"):
            x.enable_caching()
            if x.ndim >= 1:
                x.T  # put something into the cache
        return x
    idt = np.dtype(spec["index_dtype"])
    ind = np.asarray(spec["indices"], dtype=idt)
    if len(shape) == 0:
        ind = ind.reshape(0, 0) if ind.size == 0 else ind
    ca = spec["compressed_axes"]
    ip = spec["indptr"]
    indptr = np.asarray(ip, dtype=idt) if ca is not None else (tuple(ip) if len(shape) == 1 else list(ip))
    cls = {"GCXS": sparse.GCXS, "CSR": _csr(), "CSC": _csc()}[spec["class"]]
    if cls is sparse.GCXS:
        return cls((data, ind, indptr), shape=shape, compressed_axes=None if ca is None else tuple(ca), fill_value=fill)
    return cls((data, ind, indptr), shape=shape, fill_value=fill)


def make_coo(rng, shape, dtype, fill_kind, density=None, coords_dtype=np.int64):
    """a canonical COO built directly from coordinates (so NaN fills and every dtype work the same way)"""
    import sparse
    dt = np.dtype(dtype)
    size = int(np.prod(shape, dtype=np.int64))
    if density is None:
        density = float(rng.choice([0.0, 0.2, 0.5, 1.0]))
    mask = rng.random(size) < density
    lin = np.flatnonzero(mask)
    coords = (np.array(np.unravel_index(lin, shape), dtype=coords_dtype).reshape(len(shape), len(lin)) if size and len(shape)
              else np.zeros((len(shape), len(lin)), dtype=coords_dtype))
    n = len(lin)
    if dt.kind == "b":
        data = np.ones(n, dtype=dt)
        fill = dt.type(False)
    elif dt.kind in "iu":
        lo = -5 if dt.kind == "i" else 1
        data = rng.integers(lo, 9, size=n).astype(dt)
        data[data == 0] = 7
        fill = dt.type(0 if fill_kind == "zero" else 3)
        data[data == fill] = 8
    else:
        data = (rng.integers(-8, 9, size=n) / 4).astype(dt)
        if dt.kind == "c":
            data = data + 1j * (rng.integers(-2, 3, size=n) / 2).astype(dt)
        if n and rng.random() < 0.3:
            data[int(rng.integers(n))] = -0.0
        if n and rng.random() < 0.2:
            data[int(rng.integers(n))] = np.inf
        fill = dt.type({"zero": 0, "nonzero": 2.5, "nan": np.nan}[fill_kind])
        if fill_kind == "nonzero":
            data[data == fill] = dt.type(1.25)
    return sparse.COO(coords, data, shape=tuple(shape), fill_value=fill, sorted=True, has_duplicates=False)


def fill_kinds(dtype):
    return ["zero", "nonzero", "nan"] if np.dtype(dtype).kind in "fc" else (["zero"] if np.dtype(dtype).kind == "b" else ["zero", "nonzero"])


def big_array(recipe):
    """deterministic larger arrays (members above zipfile's 4096-byte read chunk)"""
    import sparse
    fmt, seed = recipe
    rng = np.random.default_rng([77, seed])
    d = (rng.random((40, 50)) < 0.5) * rng.integers(1, 9, size=(40, 50)).astype(float)
    c = sparse.COO.from_numpy(d)
    return c if fmt == "coo" else sparse.GCXS.from_coo(c)


def array_pool(rng, quick):
    """yield (label, object): ranks 0-5, dtypes, fills incl. NaN, COO / GCXS with every compressed_axes / CSR / CSC"""
    import sparse
    # 1. every rank x every admissible compressed_axes (enumerated, not sampled), float64 and one other dtype
    for nd in range(0, 6):
        for rep in range(1 if quick else 3):
            shp = gen.shape(rng, nd, nd, max_size=300) if rep else tuple([2, 3, 2, 1, 2][:nd])
            dt = "float64" if rep == 0 else str(rng.choice(DTYPES))
            fk = str(rng.choice(fill_kinds(dt)))
            c = make_coo(rng, shp, dt, fk)
            yield f"coo{nd}d", c
            choices = gen.compressed_axes_choices(nd)
            for ca in choices:
                try:
                    g = sparse.GCXS.from_coo(c, compressed_axes=ca)
                except Exception as e:  # noqa: BLE001 construction is C05's subject
                    yield f"gcxs{nd}d-unbuildable", (c, ca, e)
                    continue
                yield f"gcxs{nd}d", g
    # 2. dtypes x fills on random shapes (incl. empty extents)
    for dt in DTYPES:
        for fk in fill_kinds(dt):
            for _ in range(1 if quick else 4):
                shp = gen.shape(rng, 0, 5, max_size=300)
                c = make_coo(rng, shp, dt, fk)
                yield f"coo-{dt}-{fk}", c
                if len(shp) >= 1 and rng.random() < 0.7:
                    ch = gen.compressed_axes_choices(len(shp))
                    ca = ch[int(rng.integers(len(ch)))]
                    try:
                        yield f"gcxs-{dt}-{fk}", sparse.GCXS.from_coo(c, compressed_axes=ca)
                    except Exception as e:  # noqa: BLE001
                        yield "gcxs-unbuildable", (c, ca, e)
    # 3. the 2-d subclasses
    for _ in range(3 if quick else 20):
        shp = gen.shape(rng, 2, 2, max_size=300)
        dt = str(rng.choice(["float64", "int32", "complex128"]))
        c = make_coo(rng, shp, dt, str(rng.choice(fill_kinds(dt)[:2])))
        for fmt in ("csr", "csc"):
            try:
                yield fmt, c.asformat(fmt)
            except Exception as e:  # noqa: BLE001
                yield f"{fmt}-unbuildable", (c, fmt, e)
    # 3b. GCXS whose flattened uncompressed extent is far larger than any single extent (indices up to the product)
    for shp, ca in (((2, 20, 20), (0,)), ((20, 2, 20), (1,)), ((4, 5, 4, 5, 4), (2,)), ((3, 300), (0,))):
        c = make_coo(rng, shp, "float64", "zero", density=0.2)
        try:
            yield f"gcxs-wide-{len(shp)}d", sparse.GCXS.from_coo(c, compressed_axes=ca)
        except Exception as e:  # noqa: BLE001
            yield "gcxs-unbuildable", (c, ca, e)
    # 4. narrow coordinate dtypes (fitting), index dtype variety
    for cd in (np.uint8, np.int8, np.int16, np.uint32, np.int32):
        shp = gen.shape(rng, 1, 3, max_size=200)
        yield f"coo-idx-{np.dtype(cd).name}", make_coo(rng, shp, "float64", "zero", coords_dtype=cd)


# ------------------------------------------------------------------------------------------------
# property-level equality
# ------------------------------------------------------------------------------------------------

def fields(x):
    if is_coo(x):
        return {"coords": x.coords, "data": x.data}
    return {"data": x.data, "indices": x.indices, "indptr": x.indptr}


def family(x):
    return "COO" if is_coo(x) else "GCXS"


def meta_problem(x, y, exact_class):
    import sparse
    if not isinstance(y, sparse.SparseArray):
        return f"result is {type(y).__name__}"
    if exact_class and type(y) is not type(x):
        return f"class {cls_name(y)}, original {cls_name(x)}"
    if family(y) != family(x):
        return f"format class {family(y)}, original {family(x)}"
    if tuple(int(s) for s in y.shape) != tuple(int(s) for s in x.shape):
        return f"shape {tuple(y.shape)}, original {tuple(x.shape)}"
    if y.dtype != x.dtype:
        return f"dtype {y.dtype}, original {x.dtype}"
    fx, fy = np.asarray(x.fill_value), np.asarray(y.fill_value)
    if fx.dtype != fy.dtype or fx.tobytes() != fy.tobytes():
        return f"fill value {y.fill_value!r} ({fy.dtype}), original {x.fill_value!r} ({fx.dtype})"
    if not is_coo(x):
        cx = None if x.compressed_axes is None else tuple(int(a) for a in x.compressed_axes)
        cy = None if y.compressed_axes is None else tuple(int(a) for a in y.compressed_axes)
        if cx != cy:
            return f"compressed_axes {cy}, original {cx}"
    return None


def same_fields(x, y):
    fx, fy = fields(x), fields(y)
    for k in fx:
        a, b = np.asarray(fx[k]), np.asarray(fy[k])
        if a.size != b.size or (a.size and (a.ravel().tolist() != b.ravel().tolist() if k != "data" else (a.dtype != b.dtype or a.tobytes() != b.tobytes()))):
            return False
    return True


def array_problem(x, y, exact_class=True):
    """None if y reproduces x as the property requires (class of format, shape, dtype, fill, compressed axes, elements)"""
    try:
        p = meta_problem(x, y, exact_class)
        if p:
            return p
        if same_fields(x, y):
            return None
    except Exception as e:  # noqa: BLE001  a result whose attributes cannot even be read
        return f"result is not a usable array: {type(e).__name__}: {str(e)[:100]}"
    try:
        with warnings.catch_warnings():
            warnings.simplefilter("ignore")
            dx, dy = x.todense(), y.todense()
    except Exception as e:  # noqa: BLE001
        return f"stored fields differ and todense raised {type(e).__name__}"
    if dx.shape != dy.shape or dx.dtype != dy.dtype or dx.tobytes() != dy.tobytes():
        return "elements differ"
    return None


# ------------------------------------------------------------------------------------------------
# JSON forms for the model
# ------------------------------------------------------------------------------------------------

class Tok:
    """numbers the distinct element values (dtype + bytes) of one case: the model treats values as opaque"""

    def __init__(self):
        self.ids = {}

    def __call__(self, v):
        a = np.asarray(v)
        k = (a.dtype.str, a.tobytes())
        return self.ids.setdefault(k, len(self.ids))

    def vec(self, arr):
        arr = np.asarray(arr)
        return [self(e) for e in arr.ravel()]


def ints(a):
    return [int(v) for v in np.asarray(a).ravel().tolist()]


def mat_json(c):
    c = np.asarray(c)
    return {"nrows": int(c.shape[0]), "ncols": int(c.shape[1]), "rows": [[int(v) for v in r] for r in c.tolist()]}


def arr_json(x, tok):
    if is_coo(x):
        return {"cls": "COO", "shape": ints(x.shape), "coords": mat_json(x.coords), "data": tok.vec(x.data), "fill": tok(x.fill_value)}
    import sparse
    return {"cls": "GCXS", "exact": type(x) is sparse.GCXS, "shape": ints(x.shape), "data": tok.vec(x.data),
            "indices": ints(x.indices), "indptr": ints(x.indptr),
            "caxes": None if x.compressed_axes is None else ints(x.compressed_axes), "fill": tok(x.fill_value)}


def cooobj_json(x, tok):
    return {"shape": ints(x.shape), "coords": mat_json(x.coords), "data": tok.vec(x.data), "fill": tok(x.fill_value),
            "cache": x._cache is not None}


def payload_json(name, a, tok):
    a = np.asarray(a)
    if a.dtype == object:
        return {"k": "object"}
    if name == "data":
        if a.ndim != 1:
            raise ValueError("data member is not 1-d: outside the modelled domain")
        return {"k": "vals", "v": tok.vec(a)}
    if name == "fill_value":
        if a.ndim != 0:
            raise ValueError("fill_value member is not 0-d")
        return {"k": "val", "v": tok(a[()])}
    if name == "coords":
        if a.ndim != 2:
            raise ValueError("coords member is not 2-d")
        return {"k": "mat", "v": mat_json(a)}
    if a.size and a.dtype.kind not in "iu":
        raise ValueError(f"{name} member is not an integer array")
    return {"k": "ints", "v": ints(a)}


def members_json(members: dict, tok):
    return [[k, payload_json(k, v, tok)] for k, v in members.items()]


def read_members(blob):
    with np.load(io.BytesIO(blob), allow_pickle=True) as fp:
        return {k: fp[k] for k in fp.files}


def save_bytes(x, compressed):
    import sparse
    b = io.BytesIO()
    with warnings.catch_warnings():
        warnings.simplefilter("ignore")
        sparse.save_npz(b, x, compressed=compressed)
    return b.getvalue()


def load_bytes(blob):
    import sparse
    with warnings.catch_warnings():
        warnings.simplefilter("ignore")
        return sparse.load_npz(io.BytesIO(blob))


def outcome_json(thunk, to_json):
    try:
        return {"ok": to_json(thunk())}
    except Exception as e:  # noqa: BLE001
        return {"err": impl.err_class(e), "exc": f"{type(e).__name__}: {str(e)[:120]}"}


def by_member(outcome):
    """a written member list as a mapping: the position of a member inside the archive carries no meaning (np.load presents the
    archive by name), so model and implementation are compared with the members sorted by name"""
    if isinstance(outcome.get("ok"), list):
        return {**outcome, "ok": sorted(outcome["ok"], key=lambda kv: kv[0])}
    return outcome


def same_outcome(model, real):
    if "ok" in model:
        return "ok" in real and model["ok"] == real["ok"]
    return "err" in real and model.get("err") == real["err"]


# ------------------------------------------------------------------------------------------------
# T1: the generated tables against the running code
# ------------------------------------------------------------------------------------------------

class _Shim:
    """stands in for the `np` global of sparse.numba_backend._io while one call is observed"""

    def __init__(self, **over):
        self.__dict__.update(over)

    def __getattr__(self, k):
        return getattr(np, k)


class _FakeZip:
    def infolist(self):
        return []

    def testzip(self):
        return None


class _FakeNpz:
    def __init__(self, members):
        self.members, self.log, self.zip, self.files = members, [], _FakeZip(), list(members)

    def __enter__(self):
        return self

    def __exit__(self, *a):
        return False

    def __contains__(self, k):
        return k in self.members

    def __getitem__(self, k):
        self.log.append(k)
        return self.members[k]


def t1_validate(ctx, cfg):
    import sparse
    from sparse.numba_backend import _io
    bad = []
    d = np.array([[0.0, 2.0, 0.0], [3.0, 0.0, 4.0]])
    samples = {"COO": sparse.COO.from_numpy(d), "GCXS": sparse.GCXS.from_numpy(d), "GCXS1d": sparse.GCXS.from_numpy(d[0]),
               "CSR": sparse.COO.from_numpy(d).asformat("csr"), "CSC": sparse.COO.from_numpy(d).asformat("csc"),
               "DOK": sparse.DOK.from_numpy(d)}
    write = [(c, e, [tuple(p) for p in ms]) for c, e, ms in cfg["write"]]
    common = [tuple(p) for p in cfg["common"]]
    n = 0
    for label, x in samples.items():
        for compressed in (True, False):
            seen = {}

            def rec(fn, **nodes):
                seen["nodes"] = nodes

            old = _io.np
            _io.np = _Shim(savez=rec, savez_compressed=rec)
            try:
                _io.save_npz("unused", x, compressed=compressed)
            finally:
                _io.np = old
            expect = list(common)
            for c, exact, ms in write:
                klass = {"COO": sparse.COO, "GCXS": sparse.GCXS}[c]
                if (type(x) is klass) if exact else isinstance(x, klass):
                    expect += ms
                    break
            # the members handed to np.savez form a mapping (the archive is read by name): the table lists them sorted by
            # member name, the running code inserts them in source order — compared as sets, with multiplicity
            got = sorted(seen.get("nodes", {}))
            n += 1
            if got != sorted(k for k, _ in expect):
                bad.append(f"save_npz({label}) hands members {got} to np.savez, table says {sorted(k for k, _ in expect)}")
                continue
            for k, a in expect:
                v, w = seen["nodes"][k], getattr(x, a)
                same = v is w or (a == "shape" and v == w) or (a == "fill_value" and np.asarray(v).tobytes() == np.asarray(w).tobytes())
                if a == "compressed_axes" and w is None:
                    same = (isinstance(v, tuple | list | np.ndarray) and len(v) == 0) if cfg["none_axes_as_empty"] else v is None
                elif a == "compressed_axes":
                    same = tuple(v) == tuple(w)
                if not same:
                    bad.append(f"save_npz({label}): member {k} is not matrix.{a} as the table says")
    # load_npz: order of subscripts per branch
    real = {lab: read_members(save_bytes(samples[lab], False)) for lab in ("COO", "GCXS")}
    req = {c: ks for c, ks in cfg["require"]}
    order = [c for c, _ in cfg["require"]]
    for lab in ("COO", "GCXS", "none"):
        fake = _FakeNpz(real[lab] if lab in real else {})
        old = _io.np
        _io.np = _Shim(load=lambda fn, **kw: fake)
        try:
            try:
                y = _io.load_npz("unused")
                res = cls_name(y)
            except RuntimeError:
                res = "RuntimeError"
        finally:
            _io.np = old
        expect_log, expect_res = [], "RuntimeError"
        for c in order:
            ks = req[c]
            missing = [k for k in ks if k not in fake.members]
            if missing:
                expect_log += ks[: ks.index(missing[0]) + 1]
                continue
            expect_log += ks
            expect_res = c
            break
        n += 1
        if fake.log != expect_log or res != expect_res:
            bad.append(f"load_npz on a {lab} member set subscripts {fake.log} -> {res}; table says {expect_log} -> {expect_res}")
    # pickle state
    x = samples["COO"]
    st = x.__getstate__()
    n += 1
    if len(st) != len(cfg["getstate"]) or not all(s is getattr(x, a) for s, a in zip(st, cfg["getstate"])):
        bad.append(f"COO.__getstate__ is not the tuple of {cfg['getstate']}")
    y = sparse.COO.__new__(sparse.COO)
    marks = tuple(object() for _ in cfg["setstate"])
    try:
        y.__setstate__(marks)
        okset = all(y.__dict__.get(a) is m for a, m in zip(cfg["setstate"], marks)) and all(
            a in y.__dict__ and y.__dict__[a] is None for a in cfg["setstate_reset"]) and set(y.__dict__) == set(cfg["setstate"]) | set(cfg["setstate_reset"])
    except Exception:  # noqa: BLE001
        okset = False
    n += 1
    if not okset:
        bad.append(f"COO.__setstate__ does not assign {cfg['setstate']} in order and reset {cfg['setstate_reset']}")
    # numba struct
    import numba
    from numba.core.datamodel import default_manager
    from sparse.numba_backend._coo.numba_extension import COOType
    t = COOType(np.dtype("float64"), np.dtype("uint8"), 2)
    flds = list(default_manager.lookup(t)._fields)
    n += 1
    if flds != cfg["struct"]:
        bad.append(f"COOModel fields {flds}, table {cfg['struct']}")
    want = numba.uint8 if cfg["shape_dtype"] == "coords" else numba.intp
    n += 1
    if t.shape_type.dtype != want:
        bad.append(f"COOType.shape_type element {t.shape_type.dtype}, table says {cfg['shape_dtype']}")
    ctx.notes.setdefault("translator", {})["table_validation"] = {"checks": n, "disagreements": bad}
    for b in bad:
        ctx.fail("T1", "tables", {"what": b}, b)
    ctx.case("T1:tables", {"checks": n}, nontrivial=True)


# ------------------------------------------------------------------------------------------------
# leg A
# ------------------------------------------------------------------------------------------------

def leg_a_save(ctx, pool):
    """members written + round trip: model vs implementation"""
    reqs, metas = [], []
    dts = collections.Counter()
    for i, (label, x) in enumerate(pool):
        tok = Tok()
        xj = arr_json(x, tok)
        compressed = bool(i % 2)
        try:
            for k, v in read_members(save_bytes(x, compressed)).items():
                dts[f"{cls_name(x)}:{k}:{v.dtype.kind}{v.ndim}d"] += 1
        except Exception:  # noqa: BLE001
            pass
        case = {"array": spec_of(x), "compressed": compressed}
        real_save = outcome_json(lambda: save_bytes(x, compressed), lambda b: members_json(read_members(b), tok))
        real_rt = outcome_json(lambda: load_bytes(save_bytes(x, compressed)), lambda y: arr_json(y, tok))
        reqs += [["npz_save", xj], ["npz_roundtrip", xj], ["npz_excluded", xj]]
        metas.append((label, case, real_save, real_rt))
    ctx.notes.setdefault("correspondence", {})["member_kinds_written (class:member:dtype kind+ndim)"] = dict(sorted(dts.items()))
    outs = ctx.driver.run(reqs)
    for k, (label, case, real_save, real_rt) in enumerate(metas):
        ms, mr, me = outs[3 * k: 3 * k + 3]
        ctx.case(f"A:save:{case['array']['class']}", case, nontrivial=True)
        if not same_outcome(by_member(ms), by_member(real_save)):
            ctx.fail("A", "model:npz_save", case, f"model {json.dumps(ms)[:300]} implementation {json.dumps(real_save)[:300]}")
        if not same_outcome(mr, real_rt):
            ctx.fail("A", "model:npz_roundtrip", case, f"model {json.dumps(mr)[:300]} implementation {json.dumps(real_rt)[:300]}")
        ex = me.get("ok", {})
        ctx.count("A_excluded_cases", int(bool(ex.get("excluded"))))
        if not ex.get("wf", False):
            ctx.fail("A", "model:WF", case, "an array built by the library does not satisfy the model's well-formedness predicate")
        # the region predicate of the Lean statement and the implementation agree on where the round trip fails
        if ex.get("wf") and (("ok" in real_rt) == bool(ex.get("excluded"))):
            ctx.fail("A", "model:Excluded", case, f"Excluded={ex.get('excluded')} but the implementation's round trip {'succeeds' if 'ok' in real_rt else 'fails'}")


def mutate_members(rng, members: dict, other: dict):
    """one mutation of a saved member set -> (description, members) staying inside the modelled domain"""
    m = dict(members)
    keys = list(m)
    kind = str(rng.choice(["drop", "object", "rename", "foreign", "shorten", "shape", "axes", "reorder", "fill", "none", "drop2",
                           "indptr-len", "indptr-ends", "indices-len", "content", "row-order"]))
    k = str(rng.choice(keys))
    if kind == "drop":
        del m[k]
    elif kind == "drop2":
        for kk in rng.choice(keys, size=min(2, len(keys)), replace=False):
            del m[str(kk)]
    elif kind == "object":
        m[k] = np.array(None, dtype=object)
    elif kind == "rename":
        m = {(kk + "x" if kk == k else kk): v for kk, v in m.items()}
    elif kind == "foreign":
        for kk, v in other.items():
            if kk not in m and rng.random() < 0.6:
                m[kk] = v
    elif kind == "shorten":
        if m["data"].shape[0]:
            m["data"] = m["data"][:-1]
        elif "coords" in m:
            m["coords"] = np.zeros((m["coords"].shape[0] + 1, 0), dtype=np.int64)
    elif kind == "shape":
        s = np.asarray(m["shape"]).astype(np.int64)
        how = int(rng.integers(4))
        if how == 0 and len(s):
            s = s[:-1]
        elif how == 1:
            s = np.append(s, 2)
        elif how == 2 and len(s):
            s = s.copy()
            s[int(rng.integers(len(s)))] = -1
        else:
            s = s + 1
        m["shape"] = s.astype(np.int64)
    elif kind == "axes":
        nd = len(np.asarray(m["shape"]))
        choice = [[], list(range(nd)), [1, 0], [0, 0], [0], [1], [0, 2], [2, 1]][int(rng.integers(8))]
        m["compressed_axes"] = np.asarray(choice, dtype=np.int64)
    elif kind == "reorder":
        ks = [str(q) for q in rng.permutation(keys)]
        m = {kk: m[kk] for kk in ks}
    elif kind == "fill":
        m["fill_value"] = np.asarray(m["fill_value"]).dtype.type(1)
    elif kind == "indptr-len":  # GCXS only (KeyError for a COO member set: the caller skips it)
        p = np.asarray(m["indptr"]).astype(np.int64)
        m["indptr"] = p[:-1] if (len(p) and rng.random() < 0.5) else np.append(p, p[-1] if len(p) else 0)
    elif kind == "indptr-ends":
        p = np.asarray(m["indptr"]).astype(np.int64).copy()
        if not len(p):
            raise ValueError("no indptr entries")
        if rng.random() < 0.5:
            p[0] += int(rng.choice([-1, 1]))
        else:
            p[-1] += int(rng.choice([-1, 1]))
        m["indptr"] = p
    elif kind == "indices-len":
        i = np.asarray(m["indices"]).astype(np.int64)
        m["indices"] = i[:-1] if (len(i) and rng.random() < 0.5) else np.append(i, 0)
    elif kind == "content":  # lengths and end pointers stay consistent; an out-of-range index / a decreasing indptr must be rejected
        i = np.asarray(m["indices"]).astype(np.int64).copy()
        p = np.asarray(m["indptr"]).astype(np.int64).copy()
        if len(i) and rng.random() < 0.5:
            shp = [int(v) for v in np.asarray(m["shape"]).ravel()]
            ca = [int(v) for v in np.asarray(m["compressed_axes"]).ravel()]
            cols = int(np.prod([e for a, e in enumerate(shp) if a not in ca], dtype=np.int64)) if len(shp) >= 2 else (shp[0] if shp else 0)
            i[int(rng.integers(len(i)))] = int(rng.choice([-1, -3, cols, cols + 1, 10 ** 6, max(cols - 1, 0)]))  # the last one stays in range
            m["indices"] = i
        elif len(p) > 2:
            j = int(rng.integers(1, len(p) - 1))
            p[j] = int(rng.choice([-2, p[-1] + 5, p[j - 1], p[-1]]))  # the last two may stay monotone
            m["indptr"] = p
        else:
            raise ValueError("nothing to change")
    elif kind == "row-order":  # what is still trusted: order and multiplicity of the indices within a row
        i = np.asarray(m["indices"]).astype(np.int64).copy()
        if len(i) < 2:
            raise ValueError("nothing to change")
        if rng.random() < 0.5:
            m["indices"] = i[::-1].copy()
        else:
            i[int(rng.integers(1, len(i)))] = i[0]
            m["indices"] = i
    return kind, m


def leg_a_load(ctx, rng, pool, n):
    """load_npz on member sets that are NOT images of save_npz: rejected, or the array they literally describe"""
    import sparse
    bases = []
    for label, x in pool:
        try:
            bases.append((family(x), read_members(save_bytes(x, False))))
        except Exception:  # noqa: BLE001
            continue
    coo = [b for f, b in bases if f == "COO"]
    gcxs = [b for f, b in bases if f == "GCXS" and "indices" in b]
    reqs, metas = [], []
    for _ in range(n):
        fam = "COO" if rng.random() < 0.5 else "GCXS"
        src = coo if fam == "COO" else gcxs
        base = src[int(rng.integers(len(src)))]
        other = (gcxs if fam == "COO" else coo)[int(rng.integers(len(gcxs if fam == "COO" else coo)))]
        tok = Tok()
        try:
            kind, m = mutate_members(rng, base, other)
            mj = members_json(m, tok)
        except (ValueError, KeyError, IndexError):  # mutation not applicable to this member set / outside the modelled kinds
            continue
        b = io.BytesIO()
        np.savez(b, **m)
        real = outcome_json(lambda: load_bytes(b.getvalue()), lambda y: arr_json(y, tok))
        case = {"mutation": kind, "members": {k: {"dtype": np.asarray(v).dtype.str, "value": np.asarray(v).tolist() if np.asarray(v).dtype != object else None} for k, v in m.items()}}
        reqs.append(["npz_load", mj])
        metas.append((kind, case, real))
    # the witness of C14.load_row_order_unchecked (Model/Npz.lean: rowOrderWitness), replayed on the real load_npz
    wit = ctx.driver.run([["npz_witnesses"]])[0]["ok"]["row_order_unchecked"]
    wm = {k: (np.asarray(pl["v"], dtype=np.float64) if k == "data" else np.float64(pl["v"]) if k == "fill_value"
              else np.asarray(pl["v"], dtype=np.int64)) for k, pl in wit}
    tok = Tok()
    b = io.BytesIO()
    np.savez(b, **wm)
    reqs.append(["npz_load", members_json(wm, tok)])
    metas.append(("witness-row-order", {"mutation": "witness-row-order", "members": {k: np.asarray(v).tolist() for k, v in wm.items()}},
                  outcome_json(lambda: load_bytes(b.getvalue()), lambda y: arr_json(y, tok))))
    if "ok" not in metas[-1][2]:
        ctx.fail("A", "model:witness", metas[-1][1], f"the witness of load_row_order_unchecked is rejected by the implementation: {metas[-1][2]}")
    outs = ctx.driver.run(reqs)
    dist = collections.Counter()
    for (kind, case, real), out in zip(metas, outs):
        ctx.case(f"A:load:{kind}", case, nontrivial=True)
        dist["ok" if "ok" in real else real["err"]] += 1
        if not same_outcome(out, real):
            ctx.fail("A", "model:npz_load", case, f"model {json.dumps(out)[:300]} implementation {json.dumps(real)[:300]}")
    ctx.notes.setdefault("correspondence", {})["load_outcomes"] = dict(dist)


def _indptr_candidates(rows, nind):
    """index pointers around the accepted ones for `rows` compressed rows and `nind` stored indices"""
    if rows is None:
        return [[], [0], [0, nind]]
    good = [0] + [min(nind, k) for k in range(1, rows)] + [nind] if rows >= 1 else [nind]
    out = [good, good[:-1], good + [nind], [], [1] + good[1:], good[:-1] + [nind + 1]]
    if rows >= 2:
        out.append([0] + [nind + 4] + good[2:])  # consistent ends, interior decreasing: rejected since 748e5d3
    if rows == 0:
        out += [[0], [0, 0]]
    seen, res = set(), []
    for p in out:
        if tuple(p) not in seen:
            seen.add(tuple(p))
            res.append(p)
    return res


def leg_a_ctor(ctx, quick):
    """the two constructors load_npz reaches vs the model (Gen.gcxsCtorChecks / Gen.cooCtorChecks inside gcxsCtor / cooCtor):
    an enumerated grid of consistent and inconsistent argument triples"""
    import sparse
    reqs, metas = [], []
    g_shapes = [(), (0,), (3,), (2, 3), (0, 3), (3, 0), (2, 3, 2), (2, 0, 2), (-1,), (2, -1), (-2, 3, 2)]
    g_axes = [None, (), (0,), (1,), (2,), (0, 1), (1, 0), (0, 2), (1, 2), (0, 0), (-1,), (3,), (0, 1, 2)]
    lens = (0, 1, 2) if quick else (0, 1, 2, 3)
    for shape in g_shapes:
        nd = len(shape)
        for ca in g_axes:
            valid = ca is not None and len(ca) and len(ca) != nd and list(ca) == sorted(set(ca)) and 0 <= min(ca) and max(ca) < nd
            rows = int(np.prod([shape[a] for a in ca], dtype=np.int64)) if valid else None
            for ndata in lens:
                for nind in lens:
                    if abs(ndata - nind) > 1:
                        continue
                    # index contents: all zero; the last admissible position; one past it; negative; repeated / out of order
                    cols = (int(np.prod([e for a, e in enumerate(shape) if a not in ca], dtype=np.int64)) if valid
                            else (shape[0] if nd == 1 else 2))
                    fills = [[0] * nind]
                    if nind:
                        fills += [[0] * (nind - 1) + [cols - 1], [0] * (nind - 1) + [cols], [-1] + [0] * (nind - 1)]
                    if nind >= 2:
                        fills += [[max(cols - 1, 0)] + [0] * (nind - 1)]  # in range (if cols > 0) but decreasing within a row
                    for ptr in _indptr_candidates(rows if rows is None or 0 <= rows <= 6 else None, nind):
                        for fill_i in (fills if ptr == _indptr_candidates(rows if rows is None or 0 <= rows <= 6 else None, nind)[0] else fills[:1]):
                            data = np.arange(1, ndata + 1, dtype=np.float64)
                            ind = np.asarray(fill_i, dtype=np.int64)
                            case = {"shape": list(shape), "compressed_axes": None if ca is None else list(ca), "len_data": ndata,
                                    "indices": list(fill_i), "indptr": ptr}
                            tok = Tok()
                            real = outcome_json(lambda: sparse.GCXS((data, ind, np.asarray(ptr, dtype=np.int64)), shape=shape,
                                                                    compressed_axes=ca, fill_value=0.0), lambda y: arr_json(y, tok))
                            reqs.append(["gcxs_ctor", tok.vec(data), ints(ind), ptr, None if ca is None else list(ca), list(shape), tok(np.float64(0.0))])
                            metas.append(("gcxs", case, real))
    c_shapes = [(), (0,), (3,), (2, 3), (0, 3), (-1,), (2, -1), (2, 3, 2)]
    for shape in c_shapes:
        for nrows in range(0, 4):
            for ncols in lens:
                for ndata in lens:
                    coords = np.zeros((nrows, ncols), dtype=np.int64)
                    data = np.arange(1, ndata + 1, dtype=np.float64)
                    case = {"shape": list(shape), "coords_shape": [nrows, ncols], "len_data": ndata}
                    tok = Tok()
                    real = outcome_json(lambda: sparse.COO(coords, data, shape=shape, sorted=True, has_duplicates=False, fill_value=0.0),
                                        lambda y: arr_json(y, tok))
                    reqs.append(["coo_ctor", mat_json(coords), tok.vec(data), list(shape), tok(np.float64(0.0))])
                    metas.append(("coo", case, real))
    outs = ctx.driver.run(reqs)
    dist = collections.Counter()
    for (fam, case, real), out in zip(metas, outs):
        dist[f"{fam}:{'ok' if 'ok' in real else real['err']}"] += 1
        ctx.case(f"A:ctor:{fam}", case, nontrivial="ok" in real or case.get("len_data", 0) > 0)
        if not same_outcome(out, real):
            ctx.fail("A", f"model:{fam}_ctor", case, f"model {json.dumps(out)[:300]} implementation {json.dumps(real)[:300]}")
    ctx.notes.setdefault("correspondence", {})["constructor_grid_outcomes"] = dict(dist)


def leg_a_pickle(ctx, pool):
    reqs, metas = [], []
    for label, x in pool:
        if not is_coo(x):
            continue
        for cache in (False, True):
            y = build(spec_of(x, cache=cache))
            tok = Tok()
            case = {"array": spec_of(x, cache=cache)}
            real = outcome_json(lambda: pickle.loads(pickle.dumps(y)), lambda z: cooobj_json(z, tok))
            reqs.append(["pickle_roundtrip", cooobj_json(y, tok)])
            metas.append((case, real))
    outs = ctx.driver.run(reqs)
    for (case, real), out in zip(metas, outs):
        ctx.case("A:pickle", case, nontrivial=True)
        if not same_outcome(out, real):
            ctx.fail("A", "model:pickle_roundtrip", case, f"model {json.dumps(out)[:300]} implementation {json.dumps(real)[:300]}")


INT_TYPES = [("int8", 8, True), ("uint8", 8, False), ("int16", 16, True), ("uint16", 16, False), ("int32", 32, True), ("int64", 64, True)]


def njit_ident():
    import numba
    global _IDENT
    try:
        return _IDENT
    except NameError:
        _IDENT = numba.njit(lambda s: s)
        return _IDENT


def leg_a_box(ctx, rng, n):
    """numba identity on COO with narrow coordinate dtypes: shape extents around the limits of the dtype"""
    import sparse
    ident = njit_ident()
    reqs, metas = [], []
    for _ in range(n):
        name, bits, signed = INT_TYPES[int(rng.integers(len(INT_TYPES)))]
        hi = 2 ** (bits - 1) - 1 if signed else 2 ** bits - 1
        nd = int(rng.integers(1, 3))
        shape = []
        for _a in range(nd):
            r = rng.random()
            if bits >= 32 or r < 0.4:
                shape.append(int(rng.integers(1, 100)))
            else:
                shape.append(int(hi + rng.integers(-1, 3)) if r < 0.7 else int(rng.integers(1, 4 * hi)))
        cmax = min(min(shape), hi + 1)
        coords = np.array([[int(rng.integers(0, cmax))] for _a in range(nd)], dtype=name)
        x = sparse.COO(coords, np.array([1.5]), shape=tuple(shape), sorted=True, has_duplicates=False)
        tok = Tok()
        xj = cooobj_json(x, tok)
        real = outcome_json(lambda: ident(x), lambda y: cooobj_json(y, tok))
        reqs.append(["box_unbox", bits, signed, xj])
        metas.append(({"coords_dtype": name, "shape": shape, "coords": coords.tolist()}, real))
    outs = ctx.driver.run(reqs)
    for (case, real), out in zip(metas, outs):
        res = out["result"]
        ctx.case(f"A:box:{case['coords_dtype']}", case, nontrivial=not out["fits"])
        if "ok" in res and any(c >= e for row, e in zip(res["ok"]["coords"]["rows"], res["ok"]["shape"]) for c in row):
            # a coordinate is outside the wrapped shape: the constructor's sort pass (C05/C06, a parameter of the model) rejects it
            ctx.count("A_box_outside_wrapped_shape")
            if "ok" in real:
                ctx.fail("A", "model:box_unbox", case, f"implementation returned {json.dumps(real)[:200]} for coordinates outside the wrapped shape")
            continue
        if not same_outcome(res, real):
            ctx.fail("A", "model:box_unbox", case, f"model {json.dumps(res)[:300]} implementation {json.dumps(real)[:300]}")


# ------------------------------------------------------------------------------------------------
# leg C: the property
# ------------------------------------------------------------------------------------------------

def fail_c(ctx, name, case, msg):
    ctx.fail("C", name, case, msg, finding=findings.classify(PID, name, case, msg))


def shares(a, b):
    if isinstance(a, np.ndarray) and isinstance(b, np.ndarray):
        return bool(np.shares_memory(a, b))
    return False


def check_copies(ctx, label, x, case):
    # deep
    for deep in (True, False):
        name = "copy-deep" if deep else "copy-shallow"
        ctx.case(f"C:{name}:{case['array']['class']}", case, nontrivial=True)
        try:
            y = x.copy(deep=deep)
        except Exception as e:  # noqa: BLE001
            fail_c(ctx, name, case, f"raised {type(e).__name__}: {str(e)[:120]}")
            continue
        p = array_problem(x, y)
        if p:
            fail_c(ctx, name, case, p)
            continue
        fx, fy = fields(x), fields(y)
        if deep:
            sh = [(a, b) for a in fx for b in fy if shares(fx[a], fy[b])]
            if sh:
                fail_c(ctx, name, case, f"deep copy shares storage: {sh}")
                continue
            if y.data.size:  # a write through the copy must not reach the original
                before = x.data.tobytes()
                y.data[...] = y.data[::-1].copy() if y.data.size > 1 else (~y.data if y.data.dtype.kind == "b" else y.data + 1)
                if x.data.tobytes() != before:
                    fail_c(ctx, name, case, "writing into the deep copy's data changed the original")
        else:
            # docstring: "only make a shallow copy" — the model's shallowcopy_alias; not required by the property text
            if not all(fy[k] is fx[k] for k in fx):
                ctx.fail("A", "model:shallowcopy_alias", case, "shallow copy does not refer to the same field objects")
    for name, f in (("copy.copy", copy.copy), ("copy.deepcopy", copy.deepcopy)):
        try:
            p = array_problem(x, f(x))
        except Exception as e:  # noqa: BLE001
            p = f"raised {type(e).__name__}: {str(e)[:120]}"
        if p:
            fail_c(ctx, name, case, p)


def check_pickle(ctx, x, case):
    for proto in (2, pickle.HIGHEST_PROTOCOL):
        ctx.case(f"C:pickle:{case['array']['class']}", dict(case, protocol=proto), nontrivial=True)
        try:
            y = pickle.loads(pickle.dumps(x, protocol=proto))
        except Exception as e:  # noqa: BLE001
            fail_c(ctx, "pickle", case, f"raised {type(e).__name__}: {str(e)[:120]}")
            continue
        p = array_problem(x, y)
        if p:
            fail_c(ctx, "pickle", case, p)


def check_npz(ctx, x, case, use_file):
    """-> {compressed: blob} of the files that round-trip (for the damage campaign)"""
    import sparse
    blobs = {}
    for compressed in (True, False):
        c = dict(case, compressed=compressed)
        ctx.case(f"C:npz:{case['array']['class']}", c, nontrivial=True)
        try:
            with warnings.catch_warnings():
                warnings.simplefilter("ignore")
                if use_file:
                    fn = scratch() / f"a{ctx.cov['evaluations']}.npz"
                    sparse.save_npz(fn, x, compressed=compressed)
                    blob = fn.read_bytes()
                    y = sparse.load_npz(fn)
                    fn.unlink()
                else:
                    blob = save_bytes(x, compressed)
                    y = load_bytes(blob)
        except Exception as e:  # noqa: BLE001
            fail_c(ctx, "npz-roundtrip", c, f"raised {type(e).__name__}: {str(e)[:160]}")
            continue
        p = array_problem(x, y, exact_class=False)
        if p:
            fail_c(ctx, "npz-roundtrip", c, p)
            continue
        if type(y) is not type(x):
            ctx.count("npz_subclass_loaded_as_base")
        blobs[compressed] = blob
    return blobs


def fits_dtype(x):
    if not x.shape:
        return True
    info = np.iinfo(x.coords.dtype)
    return all(info.min <= int(s) <= info.max for s in x.shape)


def check_njit(ctx, x, case):
    if x.dtype.kind not in "biufc" or x.dtype == np.float16:
        return  # numba has no float16 arrays: outside what the extension types
    case = dict(case, shape_fits_coords_dtype=fits_dtype(x))
    ctx.case("C:njit-identity", case, nontrivial=True)
    try:
        y = njit_ident()(x)
    except Exception as e:  # noqa: BLE001
        fail_c(ctx, "njit-identity", case, f"raised {type(e).__name__}: {str(e)[:160]}")
        return
    p = array_problem(x, y)
    if p:
        fail_c(ctx, "njit-identity", case, p)


def check_njit_ctor(ctx, rng, n):
    """numba.njit(lambda c, d, sh: COO(c, d, sh)) == COO(c, d, sh)"""
    import numba
    import sparse
    mk = numba.njit(lambda c, d, sh: sparse.COO(c, d, sh))
    for i in range(n):
        name, bits, _signed = INT_TYPES[i % len(INT_TYPES)]
        dt = ["float64", "int32", "complex128", "bool", "float32"][i % 5]
        nd = int(rng.integers(1, 4))
        shape = tuple(int(rng.integers(2, 6)) for _ in range(nd))
        nnz = int(rng.integers(0, 5))
        lin = np.sort(rng.choice(int(np.prod(shape)), size=min(nnz, int(np.prod(shape))), replace=False))
        coords = np.array(np.unravel_index(lin, shape), dtype=name).reshape(nd, len(lin))
        data = (rng.integers(1, 5, size=len(lin))).astype(dt)
        case = {"coords_dtype": name, "coords_bits": bits, "dtype": dt, "shape": list(shape), "coords": coords.tolist(), "data": data.tolist()}
        ctx.case("C:njit-constructor", case, nontrivial=True)
        want = sparse.COO(coords, data, shape)
        try:
            got = mk(coords, data, shape)
        except Exception as e:  # noqa: BLE001
            fail_c(ctx, "njit-constructor", case, f"raised {type(e).__name__}: {str(e)[:200]}")
            continue
        p = array_problem(want, got)
        if p:
            fail_c(ctx, "njit-constructor", case, p)


class Deadline:
    def __init__(self, seconds):
        self.s = seconds

    def __enter__(self):
        def h(sig, frm):
            raise TimeoutError("deadline")
        self.old = signal.signal(signal.SIGALRM, h)
        signal.alarm(self.s)

    def __exit__(self, *a):
        signal.alarm(0)
        signal.signal(signal.SIGALRM, self.old)
        return False


def is_archive_with_leading_data(p):
    try:
        z = zipfile.ZipFile(io.BytesIO(p))
        return min((i.header_offset for i in z.infolist()), default=0) != 0
    except Exception:  # noqa: BLE001
        return False


def damage_prefixes(ctx, x, case, blob, stats, positions=None):
    """EVERY strict prefix must be rejected with an exception"""
    fid = hashlib.sha1(blob).hexdigest()[:10]
    for n in (range(len(blob)) if positions is None else positions):
        p = blob[:n]
        try:
            y = load_bytes(p)
        except TimeoutError:
            raise
        except Exception as e:  # noqa: BLE001
            stats[f"prefix:{type(e).__name__}"] += 1
            continue
        c = dict(case, file=fid, file_bytes=len(blob), prefix=n, prefix_is_archive_with_leading_data=is_archive_with_leading_data(p))
        prob = array_problem(x, y, exact_class=False)
        stats["prefix:LOADED"] += 1
        fail_c(ctx, "truncation", c, f"a strict prefix ({n} of {len(blob)} bytes) was loaded: {y!r}" + ("" if prob else " (equal to the original)"))
    ctx.cov["evaluations"] += len(blob) if positions is None else len(positions)
    ctx.case("C:truncation", dict(case, file=fid, prefixes=len(blob)), nontrivial=True)


def member_layout(blob):
    """[(name, header_offset, data_start (after local header + npy header), end, stored bytes)]"""
    res = []
    z = zipfile.ZipFile(io.BytesIO(blob))
    for zi in z.infolist():
        nlen = int.from_bytes(blob[zi.header_offset + 26: zi.header_offset + 28], "little")
        elen = int.from_bytes(blob[zi.header_offset + 28: zi.header_offset + 30], "little")
        start = zi.header_offset + 30 + nlen + elen
        if zi.compress_type == zipfile.ZIP_STORED:
            hlen = int.from_bytes(blob[start + 8: start + 10], "little") + 10
        else:
            hlen = 0  # the npy header is inside the deflate stream
        res.append((zi.filename, zi.header_offset, start + hlen, start + zi.compress_size, zi.compress_size))
    return res


def damage_corrupt(ctx, x, case, blob, stats, positions, values):
    """a single changed byte: rejected, or the same array — never another one"""
    fid = hashlib.sha1(blob).hexdigest()[:10]
    layout = member_layout(blob)
    g = bytearray(blob)
    n = 0
    for pos in positions:
        orig = g[pos]
        for val in values(orig):
            if val == orig:
                continue
            g[pos] = val
            n += 1
            try:
                y = load_bytes(bytes(g))
            except TimeoutError:
                raise
            except Exception as e:  # noqa: BLE001
                stats[f"corrupt:{type(e).__name__}"] += 1
                continue
            finally:
                g[pos] = orig
            prob = array_problem(x, y, exact_class=False)
            if prob is None:
                stats["corrupt:loaded-equal"] += 1
                continue
            stats["corrupt:LOADED-DIFFERENT"] += 1
            mem = next(((nm, ho, ds, en, sz) for nm, ho, ds, en, sz in layout if ho <= pos < en), None)
            c = dict(case, file=fid, file_bytes=len(blob), position=pos, original=orig, value=val,
                     member=mem[0] if mem else None, member_stored_bytes=mem[4] if mem else 0,
                     in_member_header=bool(mem and pos < mem[2]))
            fail_c(ctx, "corruption", c, f"byte {pos} {orig:#x}->{val:#x}: loaded a different array ({prob})")
    ctx.cov["evaluations"] += n
    ctx.case("C:corruption", dict(case, file=fid, corruptions=n), nontrivial=True)


def embedded_archive_case(ctx, stats):
    """an array whose data bytes are a complete npz file, saved uncompressed: the prefix ending with the inner file"""
    import sparse
    inner = sparse.COO.from_numpy(np.array([[0, 7.0], [3.0, 0]]))
    blob_in = save_bytes(inner, False)
    x = sparse.COO(np.arange(len(blob_in))[None, :], np.frombuffer(blob_in, dtype=np.uint8), shape=(len(blob_in),))
    blob = save_bytes(x, False)
    pos = blob.find(blob_in)
    case = {"array": {"class": "COO", "shape": [len(blob_in)], "dtype": "|u1", "note": "data = bytes of save_npz(COO([[0,7],[3,0]]), compressed=False)"},
            "recipe": "embedded-archive", "compressed": False}
    if pos < 0:
        ctx.notes["embedded_archive"] = "inner file not found verbatim"
        return
    try:
        prob = array_problem(x, load_bytes(blob), exact_class=False)
    except Exception as e:  # noqa: BLE001
        prob = f"raised {type(e).__name__}: {str(e)[:120]}"
    if prob:
        fail_c(ctx, "npz-roundtrip", case, f"outer array does not round-trip: {prob}")
        return
    damage_prefixes(ctx, x, case, blob, stats, positions=[pos + len(blob_in) - 1, pos + len(blob_in), pos + len(blob_in) + 1])


def leg_c(ctx, rng, pool):
    stats = collections.Counter()
    damage_files = []
    quick = ctx.quick
    for i, (label, x) in enumerate(pool):
        case = {"label": label, "array": spec_of(x)}
        check_copies(ctx, label, x, case)
        check_pickle(ctx, x, case)
        blobs = check_npz(ctx, x, case, use_file=(i % 3 == 0))
        if is_coo(x):
            check_njit(ctx, x, case)
            xc = build(spec_of(x, cache=True))  # same array with caching on and a cache entry
            cc = {"label": label + "+cache", "array": spec_of(x, cache=True)}
            check_copies(ctx, label, xc, cc)
            check_pickle(ctx, xc, cc)
        for compressed, blob in blobs.items():
            damage_files.append((x, dict(case, compressed=compressed), blob))
        if i % 40 == 0:
            core.log(f"C14 leg C arrays {i}/{len(pool)}")
    # narrow coordinate dtype whose extent does not fit (the known witness region) and fitting neighbours
    import sparse
    for name, shape in (("uint8", (255,)), ("uint8", (256,)), ("uint8", (300,)), ("int8", (127,)), ("int8", (200,)), ("int16", (40000, 2)), ("uint16", (65535, 2))):
        c = np.zeros((len(shape), 1), dtype=name)
        c[0, 0] = 5
        x = sparse.COO(c, np.array([1.5]), shape=shape, sorted=True, has_duplicates=False)
        check_njit(ctx, x, {"label": f"narrow-{name}", "array": spec_of(x)})
    check_njit_ctor(ctx, rng, 12 if quick else 60)
    # damaged files
    nfiles = 12 if quick else 96
    buckets = collections.defaultdict(list)
    for j in rng.permutation(len(damage_files)):  # variety first: class x compressed x rank, round robin
        x, case, blob = damage_files[int(j)]
        buckets[(case["array"]["class"], case["compressed"])].append(damage_files[int(j)])
    chosen = []
    while len(chosen) < nfiles and any(buckets.values()):
        for key in sorted(buckets):
            if buckets[key] and len(chosen) < nfiles:
                chosen.append(buckets[key].pop())
    salt = int(rng.integers(1, 256))
    for k, (x, case, blob) in enumerate(chosen):
        with Deadline(120 if quick else 900):
            damage_prefixes(ctx, x, case, blob, stats)
            if quick:
                damage_corrupt(ctx, x, case, blob, stats, range(len(blob)), lambda o: (o ^ salt,))
            else:
                damage_corrupt(ctx, x, case, blob, stats, range(len(blob)), lambda o: (o ^ 1, o ^ 0x80, o ^ 0xFF, 0, o ^ salt, 0x31))
        core.log(f"C14 damage {k + 1}/{len(chosen)} {case['array']['class']} {len(blob)} bytes")
    # members above zipfile's read chunk: every byte of the zip local header + npy header of every member, plus a stride through the rest
    for fmt in ("coo", "gcxs"):
        for compressed in ((False,) if quick else (False, True)):
            x = big_array((fmt, 1))
            case = {"label": f"big-{fmt}", "array": {"class": cls_name(x), "shape": [40, 50], "dtype": "<f8", "nnz": int(x.nnz)}, "recipe": [fmt, 1], "compressed": compressed}
            ctx.case(f"C:npz:{cls_name(x)}", case, nontrivial=True)
            try:
                blob = save_bytes(x, compressed)
                prob = array_problem(x, load_bytes(blob), exact_class=False)
            except Exception as e:  # noqa: BLE001
                prob = f"raised {type(e).__name__}: {str(e)[:120]}"
            if prob:
                fail_c(ctx, "npz-roundtrip", case, prob)
                continue
            lay = member_layout(blob)
            pos = sorted({p for nm, ho, ds, en, sz in lay for p in range(ho, max(ds, ho + 60))} | set(range(0, len(blob), 97 if quick else 11))
                         | set(range(len(blob) - 700, len(blob))))
            with Deadline(300 if quick else 1800):
                damage_prefixes(ctx, x, case, blob, stats, positions=list(range(0, len(blob), 53 if quick else 3)) + list(range(len(blob) - 400, len(blob))))
                damage_corrupt(ctx, x, case, blob, stats, [p for p in pos if 0 <= p < len(blob)],
                               (lambda o: (o ^ 1, 0x32)) if quick else (lambda o: (o ^ 1, o ^ 4, 0x30, 0x31, 0x32, 0x34, o ^ 0xFF)))
    embedded_archive_case(ctx, stats)
    ctx.notes["oracle"] = {"damage_outcomes": dict(stats), "files_damaged": len(chosen) + (2 if quick else 4) + 1}


# ------------------------------------------------------------------------------------------------

def run(ctx):
    ctx.trusted = TRUSTED
    ctx.assumptions = [
        "zip/npy container (NumPy, zipfile, zlib), pickle and copy (CPython), numba array/scalar boxing: assumed correct; "
        "the claim is partial — the member logic, state tuple, copy protocol and shape-width logic are proved, the container is sampled",
        "element values are opaque to the model (tokens); value/dtype preservation is checked bytewise by leg C",
        "axesOk (the code's `list(set(axes)) == axes`) is instantiated as strictly-increasing: exact for the axes 0..7 used here",
    ]
    core.prove(ctx, PID, uses=USES)
    warnings.simplefilter("ignore")
    rng = gen.rng_for(ctx.seed, PID)
    cfg = ctx.driver.run([["npz_config"]])[0]["ok"]
    ctx.notes["regime"] = {k: cfg[k] for k in ("gcxs_exact_test", "none_axes_as_empty", "empty_axes_as_none", "shape_dtype", "reject_leading_data", "verify_crc")}
    t1_validate(ctx, cfg)
    pool, unbuildable = [], 0
    for label, x in array_pool(rng, ctx.quick):
        if isinstance(x, tuple):
            unbuildable += 1
            continue
        pool.append((label, x))
    ctx.notes["pool"] = {"arrays": len(pool), "unbuildable_gcxs (C05's subject, skipped)": unbuildable,
                         "by_class": dict(collections.Counter(cls_name(x) for _, x in pool)),
                         "by_rank": dict(collections.Counter(len(x.shape) for _, x in pool))}
    for name, stage in (("save", lambda: leg_a_save(ctx, pool)),
                        ("load", lambda: leg_a_load(ctx, rng, pool, 500 if ctx.quick else 8000)),
                        ("ctor", lambda: leg_a_ctor(ctx, ctx.quick)),
                        ("pickle", lambda: leg_a_pickle(ctx, pool[:: (3 if ctx.quick else 1)])),
                        ("box", lambda: leg_a_box(ctx, rng, 60 if ctx.quick else 600))):
        try:
            stage()
        except Exception as e:  # noqa: BLE001  a correspondence stage that cannot run is a broken correspondence; leg C still searches
            import traceback
            ctx.fail("A", f"model:{name}", {"stage": name}, f"correspondence stage raised {type(e).__name__}: {e}; {traceback.format_exc()[-400:]}")
    leg_c(ctx, rng, pool)
    # regime consistency: a guard the table reports must make the corresponding witness pass
    by = collections.Counter(f["finding"] for f in ctx.failures if f.get("finding"))
    for flag, fid in (("reject_leading_data", "F-npz-embedded-archive"), ("verify_crc", "F-npz-crc-not-verified")):
        if cfg[flag] and by.get(fid):
            ctx.fail("A", "model:regime", {"flag": flag}, f"table says {flag} but the witness of {fid} still fails")
    ctx.cov["rule"] = (
        "arrays: every rank 0-5 x every admissible compressed_axes (enumerated), 12 dtypes x fills {0, nonzero, NaN} on random shapes "
        "(extents 0-7), CSR/CSC, narrow coords dtypes, each COO also with caching on; per array: copy deep/shallow (+copy module), pickle (2 protocols), "
        "njit identity (COO), save_npz/load_npz compressed and not (file path and file object); leg A: members written / round trip / Excluded "
        "predicate, load_npz on mutated member sets (drop, object, rename, foreign, shorten, shape, axes, reorder, fill, indptr length / end entries, "
        "indices length, index contents out of range / indptr decreasing, order and repetition within a row), the GCXS and COO constructors on an enumerated grid of (data, indices, indptr, axes, shape) / (coords, data, shape) "
        "incl. negative extents, wrong lengths, wrong end pointers, decreasing interior, indices at / beyond / below the admissible range, pickle state, numba boxing "
        "around dtype limits; damage: EVERY strict prefix and every byte (quick: one replacement value, thorough: six) of the selected files, "
        "all local+npy header bytes of files with members > 4 KiB, the embedded-archive prefix; non-trivial = everything but empty pools; distinct by content hash")


def replay(ctx, path):
    """re-run one recorded failing case"""
    obj = json.loads(Path(path).read_text())
    f = obj.get("failure") or {}
    case, fam = f.get("case", {}), f.get("family")
    print(f"replaying {fam}: {f.get('detail')}")
    if "array" not in case or "data" not in case.get("array", {}):
        print("case is not an array case (see the replay file for the theorem / correspondence that no longer checks)")
        return 1
    x = build(case["array"])
    warnings.simplefilter("ignore")
    ctx2 = core.Ctx(PID, ctx.tier, ctx.seed)
    if fam in ("copy-deep", "copy-shallow", "copy.copy", "copy.deepcopy"):
        check_copies(ctx2, "replay", x, case)
    elif fam == "pickle":
        check_pickle(ctx2, x, case)
    elif fam == "njit-identity":
        check_njit(ctx2, x, case)
    elif fam in ("npz-roundtrip", "truncation", "corruption"):
        blobs = check_npz(ctx2, x, case, use_file=False)
        blob = blobs.get(case.get("compressed", True))
        if blob is not None and fam == "truncation":
            damage_prefixes(ctx2, x, case, blob, collections.Counter(), positions=[case["prefix"]])
        if blob is not None and fam == "corruption":
            damage_corrupt(ctx2, x, case, blob, collections.Counter(), [case["position"]], lambda o: (case["value"],))
    bad = [g for g in ctx2.failures if g["leg"] == "C"]
    for g in bad[:5]:
        print("FAILS:", g["family"], g["detail"])
    if not bad:
        print("passes on the current tree")
    return 1 if bad else 0


def _csr():
    from sparse.numba_backend._compressed import CSR
    return CSR


def _csc():
    from sparse.numba_backend._compressed import CSC
    return CSC

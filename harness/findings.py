"""Regions of the known findings (KNOWN_FINDINGS.txt).  classify() maps a failing leg-C case to the id
of the listed finding whose region contains it, or None.  A region is a predicate on the case and the
observed failure; it is deliberately narrow so that a different violation is still reported."""
from __future__ import annotations


def classify(pid, name, case, msg):
    if isinstance(case, dict) and case.get("extra"):  # cases of the operation tables in extra_ops.py have their own layout
        import findings_extra
        return findings_extra.classify(pid, name, case, msg)
    f = globals().get(f"_classify_{pid.lower()}")
    if f is None:
        import importlib
        try:
            f = importlib.import_module(f"findings_{pid.lower()}").classify
        except ModuleNotFoundError:
            return None
    return f(name, case, msg)


def _classify_c08(name, case, msg):
    return None


def _classify_c02(name, case, msg):
    fmt = case.get("format", "")
    idx = case.get("index", [])
    kinds = [e[0] for e in idx]
    if fmt == "dok":
        if kinds and all(k in ("a", "b") for k in kinds) and len(kinds) != len(case.get("shape", [])) and "NotImplementedError" in msg:
            return "F-dok-partial-index-lists"
    return None


def _has_empty_reduced_axis(case):
    shp = case.get("shape", [])
    ax = case.get("kwargs", {}).get("axis")
    nd = len(shp)
    if ax is None:
        axes = range(nd)
    elif isinstance(ax, int):
        axes = [ax]
    else:
        axes = list(ax)
    try:
        return any(shp[a % nd] == 0 for a in axes if -nd <= a < nd) if nd else False
    except ZeroDivisionError:
        return False


def _classify_c03(name, case, msg):
    # F-gcxs-empty-var is repaired (/repo 048776e): no C03 region is left
    return None


def _classify_c09(name, case, msg):
    return None


def np_ndim(x):
    n = 0
    while isinstance(x, list):
        n += 1
        x = x[0] if x else None
    return n


def _gcxs_axes_nodes(j, acc):
    if isinstance(j, list) and j and isinstance(j[0], str):
        if j[0] == "gcxs" and j[2] is not None:
            acc.append(j[2])
        for c in j[1:]:
            if isinstance(c, list):
                _gcxs_axes_nodes(c, acc)
                for cc in c:
                    if isinstance(cc, list):
                        _gcxs_axes_nodes(cc, acc)
    return acc


def _classify_c06(name, case, msg):
    # F-gcxs-axes-set-order (check_compressed_axes and axes >= 8) is repaired by /repo cbb2544: no C06 region is left
    return None


def _classify_c01(name, case, msg):
    # F-c01-out-overrides-dtype: with out= given, __array_ufunc__ replaces a user-supplied dtype= by out's dtype, so the loop runs in
    # out's dtype instead of the requested one.  Region: both given and different, the call returned, out kept its dtype, only the
    # VALUES differ from NumPy's (NumPy's are those of the narrower / other loop dtype).  Anything else (out changing its dtype, an
    # exception, a changed input) is not this finding.
    if (name == "out+dtype" and isinstance(case, dict) and case.get("dtype") != case.get("out_dtype") and msg.startswith("out= holds")):
        return "F-c01-out-overrides-dtype"
    return None


"""C12 — DOK behaves as a mutable NumPy array under any sequence of assignments.

Histories are lists of JSON ops (so that a replay file is self-contained):
  {"form":"set",   "key":[part…], "ell":[p,q]|None, "bare":bool, "npint":bool, "vshape":[…], "vflat":[…], "vlist":bool}
      part = int | [start, stop, step] (null = None); `key` is what the model gets (shorter keys are
      padded by the model as normalize_index does); with "ell" the real key is key[:p] + (...,) + key[len-q:];
      "bare": a one-entry key is written without the tuple (d[3] rather than d[3,])
  {"form":"fancy", "idxs":[[…]…], "bare":bool, "asarray":bool, "vshape":[…], "vflat":[…], "vlist":bool}
  {"form":"mask",  "mask":[bool…] (row-major), "vshape":[…], "vflat":[…], "vlist":bool}

leg A  model (svdriver `dok_run`) vs sparse.DOK after EVERY step: error class, else dict keys in insertion
       order, values, nnz; element reads and integer-list reads; `_setitem` called directly on a grid of raw slices
leg B  the Lean dense specification (`Spec.dStep`, executed by the driver) vs NumPy after every step
leg C  sparse.DOK vs NumPy after every step: error class when NumPy raises, todense, nnz = number of non-fill
       elements, to_coo, reads of random elements / slices / integer lists
"""
from __future__ import annotations

import itertools
import json
import warnings

import numpy as np

import core
import findings
import gen
import impl
import oracle

PID = "C12"
USES = ["dokSliceBounds", "replaceNone", "posifySlice", "posifyInt", "clipSlice", "checkIndexInt"]
TRUSTED = [
    "Lean 4 kernel; axioms propext, Classical.choice, Quot.sound only (audited per theorem each run)",
    "tie T1: Gen.dokSliceBounds (the slice-bound computation inside DOK._setitem) and the _slicing.py fragments "
    "(replace_none, posify_index, clip_slice, check_index) are regenerated from the source each run; the theorems are stated over them",
    "tie T2: hand model SparseV.Model.Dok (dict as insertion-ordered list, the dispatch of __setitem__, normalize_index on int/slice keys and on "
    "index lists, the _setitem recursion with its value descent, _fancy_setitem, mask -> nonzero -> index lists, _fancy_getitem, element reads) "
    "compared with sparse.DOK after every step of every history on dict keys in insertion order, values, nnz and error class by this run",
    "the dense specification SparseV.Spec.Assign is compared with NumPy after every step by this run (leg B)",
    "NumPy is the reference for leg C; dtypes and float behaviour are outside the theorems; reads through slices go through COO "
    "(property C02) and are only compared differentially",
]
STEPS = [1, 1, 2, 3, -1, -1, -2, -3, 4, -4, 5, -5]
EXTENTS = [1, 2, 2, 3, 3, 4, 5]


# ------------------------------------------------------------------------------------------------
# JSON op -> Python objects
# ------------------------------------------------------------------------------------------------

def py_part(p, npint=False):
    if isinstance(p, list):
        return slice(*p)
    return np.int64(p) if npint else int(p)


def py_key(op):
    form = op["form"]
    if form == "set":
        parts = [py_part(p, op.get("npint", False)) for p in op["key"]]
        if op.get("ell"):
            p, q = op["ell"]
            parts = parts[:p] + [Ellipsis] + (parts[len(parts) - q:] if q else [])
        if op.get("bare") and len(parts) == 1:
            return parts[0]
        return tuple(parts)
    if form in ("fancy", "getfancy"):
        idxs = [np.array(l, dtype=np.int64) if (op.get("asarray") and l) else list(l) for l in op["idxs"]]
        if op.get("bare") and len(idxs) == 1:
            return idxs[0]
        return tuple(idxs)
    if form == "mask":
        return np.array(op["mask"], dtype=bool).reshape(op["shape"])
    raise ValueError(form)


def py_value(op, dtype):
    v = np.array(op["vflat"], dtype=dtype).reshape(op["vshape"])
    if op["vshape"] == []:
        return v if op.get("vlist") else v[()]
    return v.tolist() if op.get("vlist") else v


def model_op(op):
    form = op["form"]
    if form == "set":
        return ["set", op["key"], op["vshape"], op["vflat"]]
    if form == "fancy":
        return ["fancy", op["idxs"], op["vshape"], op["vflat"]]
    if form == "mask":
        return ["mask", op["mask"], op["vshape"], op["vflat"]]
    if form == "get":
        return ["get", op["key"]]
    if form == "getfancy":
        return ["getfancy", op["idxs"]]
    raise ValueError(form)


# ------------------------------------------------------------------------------------------------
# generators (inside the property's grammar; the corners that used to be wrong — negative step with
# start 0, tuples of ints on 1-d, the empty tuple, negative list entries, empty lists, one-element
# values, masks — get a small boost)
# ------------------------------------------------------------------------------------------------

def rand_shape(rng):
    for _ in range(50):
        nd = int(rng.choice([1, 1, 2, 2, 3]))
        s = [int(rng.choice(EXTENTS)) for _ in range(nd)]
        if rng.random() < 0.06:
            s[int(rng.integers(nd))] = 0
        if int(np.prod(s)) <= 60:
            return s
    return [3]


def rand_int_index(rng, dim):
    if rng.random() < 0.04 or dim == 0:
        return int(rng.choice([dim, dim + 1, -dim - 1, -dim - 3]))
    return int(rng.integers(-dim, dim))


def rand_slice_json(rng, dim):
    r = rng.random()
    step = None if r < 0.3 else int(rng.choice(STEPS))
    if rng.random() < 0.05 and dim > 1:  # boost the start-0 / negative-step corner
        return [int(rng.choice([0, -dim])), gen.slice_part(rng, dim), int(rng.choice([-1, -2]))]
    return [gen.slice_part(rng, dim), gen.slice_part(rng, dim), step]


def rand_values(rng, fill, n):
    return [int(v) for v in rng.choice([fill, fill, 1, 2, 3, -1, 0, 4], size=n)]


def rand_value_for_grid(rng, fill, grid):
    """scalar, or an array broadcastable to the selection grid (a suffix of its shape with some extents 1)"""
    if rng.random() < 0.45 or len(grid) == 0:
        x = fill if rng.random() < 0.3 else rand_values(rng, fill, 1)[0]
        return [], [int(x)]
    r = int(rng.integers(1, len(grid) + 1))
    vs = [1 if rng.random() < 0.25 else int(g) for g in grid[len(grid) - r:]]
    return vs, rand_values(rng, fill, int(np.prod(vs)))


def rand_set(rng, shape, fill):
    nd = len(shape)
    ell = None
    if nd >= 1 and rng.random() < 0.12:
        p = int(rng.integers(0, nd + 1))
        q = int(rng.integers(0, nd - p + 1))
        ell = [p, q]
        axes = list(range(p)) + list(range(nd - q, nd))
        full = nd
    else:
        full = nd if rng.random() < 0.75 else int(rng.integers(1, nd + 1))
        if rng.random() < 0.02:
            full = 0   # the empty tuple: d[()] = value assigns to every element
        axes = list(range(full))
    key = [[None, None, None]] * full
    key = list(key)
    for ax in axes:
        key[ax] = rand_int_index(rng, shape[ax]) if rng.random() < 0.45 else rand_slice_json(rng, shape[ax])
    if ell is None and rng.random() < 0.01:   # one index too many: NumPy raises IndexError
        key = key + [rand_int_index(rng, shape[-1])]
    bare = bool(rng.random() < 0.5)
    op = {"form": "set", "key": key, "ell": ell, "bare": bare, "npint": bool(rng.random() < 0.15)}
    try:
        grid = list(np.empty(shape)[py_key(op)].shape)
    except IndexError:
        grid = []
    op["vshape"], op["vflat"] = rand_value_for_grid(rng, fill, grid)
    op["vlist"] = bool(rng.random() < 0.5) and 0 not in op["vshape"]   # tolist() of an empty array loses its shape
    return op


def rand_listvalue(rng, fill, n):
    r = rng.random()
    if r < 0.45:
        return [], [fill if rng.random() < 0.3 else rand_values(rng, fill, 1)[0]]
    if r < 0.93:
        return [n], rand_values(rng, fill, n)
    return [1], rand_values(rng, fill, 1)


def rand_fancy(rng, shape, fill, form="fancy"):
    """one integer list per axis: entries anywhere in [-dim, dim) (repeats happen), sometimes empty lists,
    5% of the ops carry an entry outside the axis (NumPy: IndexError)"""
    nd = len(shape)
    n = int(rng.choice([0, 1, 1, 2, 2, 3, 4])) if rng.random() < 0.3 else int(rng.integers(1, 5))
    oob = rng.random() < 0.05
    if any(d == 0 for d in shape) and not oob:
        n = 0
    idxs = []
    for d in shape:
        if d == 0:
            idxs.append([int(rng.choice([0, -1, 1])) for _ in range(n)])
        elif rng.random() < 0.5:
            idxs.append([int(v) for v in rng.integers(0, d, size=n)])
        else:
            idxs.append([int(v) for v in rng.integers(-d, d, size=n)])
    if oob and n:
        ax = int(rng.integers(nd))
        idxs[ax][int(rng.integers(n))] = int(rng.choice([shape[ax], shape[ax] + 1, -shape[ax] - 1, -shape[ax] - 3]))
    op = {"form": form, "idxs": idxs, "bare": bool(nd == 1 and rng.random() < 0.5), "asarray": bool(rng.random() < 0.3)}
    if form == "fancy":
        op["vshape"], op["vflat"] = rand_listvalue(rng, fill, n)
        op["vlist"] = bool(rng.random() < 0.5)
    return op


def rand_mask(rng, shape, fill):
    m = (rng.random(size=shape) < rng.choice([0.0, 0.3, 0.6, 1.0])).ravel().tolist()
    op = {"form": "mask", "mask": [bool(b) for b in m], "shape": list(shape)}
    op["vshape"], op["vflat"] = rand_listvalue(rng, fill, int(sum(m)))
    op["vlist"] = bool(rng.random() < 0.5)
    return op


def rand_history(rng, shape, fill, n):
    ops = []
    for _ in range(n):
        r = rng.random()
        if r < 0.68:
            ops.append(rand_set(rng, shape, fill))
        elif r < 0.90:
            ops.append(rand_fancy(rng, shape, fill))
        else:
            ops.append(rand_mask(rng, shape, fill))
    return ops


# ------------------------------------------------------------------------------------------------
# running one history on the real DOK and on NumPy
# ------------------------------------------------------------------------------------------------

def dok_state(d):
    return {"keys": [[int(i) for i in k] for k in d.data], "vals": [int(v) for v in d.data.values()]}


def apply(x, key, value):
    """x[key] = value; returns None or the exception"""
    try:
        with warnings.catch_warnings():
            warnings.simplefilter("ignore")
            x[key] = value
        return None
    except Exception as e:  # noqa: BLE001
        return e


def same_dense(d, a):
    try:
        t = d.todense()
    except Exception as e:  # noqa: BLE001
        return f"todense raised {type(e).__name__}: {str(e)[:100]}"
    if t.shape != a.shape or t.dtype != a.dtype:
        return f"todense shape/dtype {t.shape}/{t.dtype}, numpy {a.shape}/{a.dtype}"
    if not np.array_equal(t, a):
        return f"values differ: todense {t.tolist()!r:.160} numpy {a.tolist()!r:.160}"
    return None


def read_ops(rng, shape, fill):
    """reads issued after a step: element, basic key (slices), integer lists"""
    res = []
    if all(d > 0 for d in shape):
        res.append({"form": "get", "key": [int(rng.integers(-d - 1, d + 1)) if rng.random() < 0.03 else int(rng.integers(-d, d)) for d in shape]})
    if rng.random() < 0.5:
        k = rand_set(rng, shape, fill)
        res.append({"form": "read", "key": k["key"], "ell": k["ell"], "bare": k["bare"], "npint": k["npint"]})
    if rng.random() < 0.25:
        res.append(rand_fancy(rng, shape, fill, form="getfancy"))
    return res


def run_history(ctx, hist, dtype=np.int64, reads_rng=None, tag="rand"):
    """hist = {"shape","fill","ops"}; returns (model request, per-step records)"""
    import sparse

    shape, fill, ops = tuple(hist["shape"]), hist["fill"], hist["ops"]
    d = sparse.DOK(shape, dtype=dtype, fill_value=fill)
    a_spec = np.full(shape, fill, dtype=dtype)   # pure NumPy history (leg B)
    a = a_spec.copy()                            # re-synchronised after a classified difference (leg C)
    recs, mops = [], []
    legc_alive = True
    for i, op in enumerate(ops):
        key, val = py_key(op), py_value(op, dtype)
        before = dok_state(d)
        e_d = apply(d, key, val)
        b = a_spec.copy()
        e_s = apply(b, key, val)
        if e_s is None:
            a_spec = b
        b = a.copy()
        e_a = apply(b, key, val)
        if e_a is None:
            a = b
        rec = {"i": i, "op": op, "dok": {"err": impl.err_class(e_d), "state": dok_state(d)} if e_d is not None else {"ok": dok_state(d)},
               "nnz": int(d.nnz), "np": {"err": type(e_s).__name__} if e_s is not None else {"ok": a_spec.ravel().tolist()},
               "c": [], "reads": []}
        mops.append(model_op(op))
        if legc_alive:
            msg = None
            if e_a is not None:
                if e_d is None:
                    msg = f"numpy raises {type(e_a).__name__} but the assignment was accepted"
                elif impl.err_class(e_d) not in ("value", "index", "type"):
                    msg = f"numpy raises {type(e_a).__name__}; DOK raised {type(e_d).__name__}: {str(e_d)[:100]}"
                elif dok_state(d) != before:
                    msg = f"numpy raises {type(e_a).__name__} and so does DOK, but the dict changed before it raised"
            elif e_d is not None:
                msg = f"raised {type(e_d).__name__}: {str(e_d)[:120]} (numpy accepts the assignment)"
            else:
                msg = impl.canonical_problem(d)
                if msg:
                    msg = "dict not canonical: " + msg
                msg = msg or same_dense(d, a)
                if msg is None:
                    nz = int(np.count_nonzero(a != fill))
                    if d.nnz != nz:
                        msg = f"nnz {d.nnz}, number of non-fill elements {nz}"
                if msg is None and (i % 3 == 0 or i == len(ops) - 1):
                    c = oracle.compare(lambda: d.to_coo(), lambda: a, fill=np.asarray(fill, dtype=dtype))
                    if c:
                        msg = "to_coo: " + c
            if msg:
                rec["c"].append(msg)
                # re-synchronise the reference with what the DOK now holds, if it still has a dense form
                try:
                    a = d.todense().copy()
                except Exception:  # noqa: BLE001
                    legc_alive = False
            if legc_alive and reads_rng is not None:
                for rop in read_ops(reads_rng, list(shape), fill):
                    rec["reads"].append(do_read(d, a, rop, fill, dtype))
                    if rop["form"] in ("get", "getfancy"):
                        mops.append(model_op(rop))
        recs.append(rec)
    return ["dok_run", list(shape), int(fill), mops], recs


def do_read(d, a, rop, fill, dtype):
    """one read on DOK and NumPy; returns {"op", "msg", "dok"} (dok = value(s) for the model comparison)"""
    res = {"op": rop, "msg": None, "dok": None}
    if rop["form"] == "get":
        key = tuple(rop["key"])
        try:
            got = d[key]
            res["dok"] = {"ok": int(got)}
        except Exception as e:  # noqa: BLE001
            res["dok"] = {"err": impl.err_class(e)}
        res["msg"] = oracle.compare(lambda: d[key], lambda: a[key], must_be_sparse=False, scalar_rule=True)
    elif rop["form"] == "getfancy":
        key = py_key(rop)
        try:
            got = d[key]
            res["dok"] = {"ok": [int(v) for v in got.todense().tolist()]}
        except Exception as e:  # noqa: BLE001
            res["dok"] = {"err": impl.err_class(e)}
        res["msg"] = oracle.compare(lambda: d[key], lambda: a[key], fill=np.asarray(fill, dtype=dtype))
    else:
        key = py_key({**rop, "form": "set"})
        res["msg"] = oracle.compare(lambda: d[key], lambda: a[key], fill=np.asarray(fill, dtype=dtype), scalar_rule=True)
    return res


# ------------------------------------------------------------------------------------------------
# comparison of a batch of histories with the model
# ------------------------------------------------------------------------------------------------

def check_batch(ctx, batch, family):
    """batch: list of (hist, request, recs)"""
    outs = ctx.driver.run([req for _, req, _ in batch])
    for (hist, req, recs), out in zip(batch, outs):
        if "ok" not in out:
            ctx.fail("A", f"{family}:driver", hist, f"driver answered {out}")
            continue
        mres = list(out["ok"])
        pos = 0
        nontriv = False
        for rec in recs:
            m = mres[pos]
            pos += 1
            op = rec["op"]
            form = op["form"]
            case = {"shape": hist["shape"], "fill": hist["fill"], "ops": hist["ops"][: rec["i"] + 1], "step": rec["i"],
                    "form": form, "lean_wf": bool(m.get("wf"))}
            if "ok" in rec["dok"] and rec["dok"]["ok"]["keys"]:
                nontriv = True
            # leg A: representation after the step
            if m["model"] != rec["dok"]:
                ctx.fail("A", f"model:{form}", case, f"model {json.dumps(m['model'])[:300]} implementation {json.dumps(rec['dok'])[:300]}")
            elif "ok" in rec["dok"] and m["nnz"] != rec["nnz"]:
                ctx.fail("A", f"model:{form}:nnz", case, f"model nnz {m['nnz']} implementation {rec['nnz']}")
            # leg B: the Lean specification vs NumPy
            if not m.get("wf"):
                ctx.fail("B", f"grammar:{form}", case, "generated op is outside the grammar predicate WFOp")
            s, n = m["spec"], rec["np"]
            if ("err" in s) != ("err" in n) or ("ok" in s and s["ok"] != n["ok"]):
                ctx.fail("B", f"spec:{form}", case, f"Lean dense spec {json.dumps(s)[:200]} numpy {json.dumps(n)[:200]}")
            # leg C
            for msg in rec["c"]:
                ctx.fail("C", f"assign:{form}", case, msg, finding=findings.classify(PID, f"assign:{form}", case, msg))
            for rd in rec["reads"]:
                rform = rd["op"]["form"]
                rcase = {**case, "read": rd["op"], "form": rform}
                if rform in ("get", "getfancy"):
                    mm = mres[pos]
                    pos += 1
                    if mm["model"] != rd["dok"]:
                        ctx.fail("A", f"model:{rform}", rcase, f"model {mm['model']} implementation {rd['dok']}")
                if rd["msg"]:
                    ctx.fail("C", f"read:{rform}", rcase, rd["msg"], finding=findings.classify(PID, f"read:{rform}", rcase, rd["msg"]))
            ctx.count("steps")
            ctx.count(f"steps_{form}")
        ctx.case(f"{family}:{len(hist['shape'])}d", {"shape": hist["shape"], "fill": hist["fill"], "ops": hist["ops"]}, nontrivial=nontriv)


def leg_histories(ctx, rng, n_hist, max_len):
    batch = []
    for h in range(n_hist):
        shape = rand_shape(rng)
        fill = int(rng.choice([0, 0, 2]))
        n = int(rng.integers(1, max_len + 1))
        hist = {"shape": shape, "fill": fill, "ops": rand_history(rng, shape, fill, n)}
        dtype = np.int64 if rng.random() < 0.8 else np.float64
        hist["dtype"] = np.dtype(dtype).name
        req, recs = run_history(ctx, hist, dtype=dtype, reads_rng=rng)
        batch.append((hist, req, recs))
        if len(batch) >= 100:
            check_batch(ctx, batch, "history")
            batch = []
            core.log(f"C12 histories {h + 1}/{n_hist}")
    check_batch(ctx, batch, "history")


# ------------------------------------------------------------------------------------------------
# `_setitem` called directly: the slice-bound computation on raw (not normalised) slices
# ------------------------------------------------------------------------------------------------

def leg_raw_setitem(ctx, rng, quick):
    import sparse

    R = range(-6, 7)
    grid = [(a, b, c, dim) for dim in range(0, 6) for a in R for b in R for c in R if c != 0]
    if quick:
        idx = rng.choice(len(grid), size=1500, replace=False)
        grid = [grid[int(i)] for i in idx]
    reqs, metas = [], []
    for a, b, c, dim in grid:
        d = sparse.DOK((dim,), dtype=np.int64)
        try:
            d._setitem([slice(a, b, c)], np.asarray(7))
            want = {"ok": dok_state(d)}
        except Exception as e:  # noqa: BLE001
            want = {"err": impl.err_class(e), "state": dok_state(d)}
        reqs.append(["dok_setitem_raw", [dim], 0, [[a, b, c]], [], [7]])
        metas.append(((a, b, c, dim), want))
    outs = ctx.driver.run(reqs)
    for (case, want), out in zip(metas, outs):
        ctx.case("A:_setitem-raw-slice", list(case), nontrivial="ok" in want and bool(want["ok"]["keys"]))
        if out != want:
            ctx.fail("A", "model:_setitem-raw", {"slice": list(case[:3]), "dim": case[3]}, f"model {out} implementation {want}")


# ------------------------------------------------------------------------------------------------
# corpus: the witnesses of the repaired defects (KNOWN_FINDINGS.txt `fixed:` lines), replayed every run: they must pass
# ------------------------------------------------------------------------------------------------

def S(key, x, **kw):
    return {"form": "set", "key": key, "ell": None, "bare": False, "npint": False, "vshape": [], "vflat": [x], "vlist": False, **kw}


CORPUS = [
    # (what the history used to show, history)
    ("fixed 5f937a6 negstep-start0", {"shape": [5], "fill": 0, "ops": [S([[0, None, -1]], 7)]}),
    ("fixed 5f937a6 negstep-start0", {"shape": [5], "fill": 0, "ops": [S([[-10, 0, -1]], 7)]}),
    ("fixed 5f937a6 negstep-start0", {"shape": [2, 3], "fill": 2, "ops": [S([[None, None, None], [-3, None, -2]], 1)]}),
    ("fixed e3a3b01 boolmask", {"shape": [3], "fill": 0, "ops": [{"form": "mask", "mask": [True, False, True], "shape": [3], "vshape": [], "vflat": [7], "vlist": False}]}),
    ("fixed e3a3b01 boolmask", {"shape": [2, 2], "fill": 0, "ops": [{"form": "mask", "mask": [True, False, False, True], "shape": [2, 2], "vshape": [2], "vflat": [7, 8], "vlist": True}]}),
    ("fixed 6ad05a9 fancy-raw-index", {"shape": [3], "fill": 0, "ops": [
        {"form": "fancy", "idxs": [[2]], "bare": True, "asarray": False, "vshape": [], "vflat": [5], "vlist": False},
        {"form": "fancy", "idxs": [[-1]], "bare": True, "asarray": False, "vshape": [], "vflat": [7], "vlist": False}]}),
    ("fixed 6ad05a9 fancy-raw-index", {"shape": [3], "fill": 0, "ops": [
        {"form": "fancy", "idxs": [[7]], "bare": True, "asarray": False, "vshape": [], "vflat": [5], "vlist": False}]}),
    ("fixed 51373e1 1d-int-tuple", {"shape": [3], "fill": 0, "ops": [S([2], 5), S([-1], 7)]}),
    ("fixed 51373e1 1d-int-tuple", {"shape": [3], "fill": 0, "ops": [S([1, 2], 7)]}),
    ("fixed 51373e1 empty-tuple-key", {"shape": [], "fill": 0, "ops": [S([], 4)]}),
    ("fixed 51373e1 empty-tuple-key", {"shape": [3], "fill": 0, "ops": [S([], 4)]}),
    ("fixed 51373e1 empty-tuple-key", {"shape": [2, 2], "fill": 2, "ops": [S([], 4, vshape=[2], vflat=[1, 3])]}),
    ("fixed 6ad05a9 fancy-empty", {"shape": [3], "fill": 0, "ops": [
        {"form": "fancy", "idxs": [[]], "bare": True, "asarray": False, "vshape": [], "vflat": [5], "vlist": False}]}),
    ("fixed daad09e fancy-bcast1", {"shape": [2, 3], "fill": 0, "ops": [
        {"form": "fancy", "idxs": [[0, 1], [2, 1]], "bare": False, "asarray": False, "vshape": [1], "vflat": [5], "vlist": True}]}),
    # a clean 3-step history with overwrite and delete (the non-vacuity example of the Lean file)
    ("non-vacuity example of Props/C12.lean", {"shape": [2, 3], "fill": 0, "ops": [S([[None, None, None], 1], 5), S([0, [None, None, -1]], 0, vshape=[3], vflat=[1, 0, 3]), S([-1, -2], 0)]}),
]


def leg_corpus(ctx):
    batch = []
    for label, hist in CORPUS:
        hist = json.loads(json.dumps(hist))
        req, recs = run_history(ctx, hist)
        batch.append((hist, req, recs))
        if any(r["c"] for r in recs):
            ctx.notes.setdefault("corpus_regressions", []).append(label)
    check_batch(ctx, batch, "corpus")


# ------------------------------------------------------------------------------------------------
# thorough tier: exhaustive short histories on tiny shapes
# ------------------------------------------------------------------------------------------------

def axis_classes(dim):
    """all entries with parts in [-4,4] ∪ {None} on one axis, one representative per behaviour class
    (behaviour = what NumPy selects and what DOK selects)"""
    import sparse

    parts = [None, *range(-4, 5)]
    cands = [i for i in range(-dim, dim)] + [[a, b, c] for a in parts for b in parts for c in parts if c != 0]
    classes = {}
    for p in cands:
        k = py_part(p)
        sel_np = tuple(np.arange(dim)[k].ravel().tolist()) if isinstance(k, slice) else (int(np.arange(dim)[k]),)
        d = sparse.DOK((dim,), dtype=np.int64)
        d[k] = 1
        sig = (isinstance(k, slice), sel_np, tuple(sorted(x[0] for x in d.data)))
        classes.setdefault(sig, p)
    return cands, list(classes.values())


def extra_ops(shape, fill):
    """a few assignments of the other key forms for the exhaustive histories: the empty tuple, a tuple of one
    negative int (1-d), index lists with negative / repeated entries and a one-element value, masks"""
    F = lambda idxs, vs, vf: {"form": "fancy", "idxs": idxs, "bare": False, "asarray": False, "vshape": vs, "vflat": vf, "vlist": False}  # noqa: E731
    n = int(np.prod(shape))
    m1 = [bool((j * 5 + 1) % 3 == 0) for j in range(n)]
    m2 = [bool(j % 2 == 0) for j in range(n)]
    M = lambda m, vs, vf: {"form": "mask", "mask": m, "shape": list(shape), "vshape": vs, "vflat": vf, "vlist": False}  # noqa: E731
    ops = [S([], 1), S([], fill),
           F([[-1, 0] for _ in shape], [], [2]), F([[0, -d] for d in shape], [2], [1, fill]), F([[d - 1, -1] for d in shape], [1], [fill]),
           M(m1, [], [2]), M(m2, [sum(m2)], [(j % 2) + (0 if fill else 1) for j in range(sum(m2))])]
    if len(shape) == 1:
        ops.append(S([-1], 1))
    return ops


def leg_exhaustive(ctx):
    plans = [([3], 3), ([2, 3], 2), ([2, 2, 2], 1)]
    for shape, depth in plans:
        per_axis = [axis_classes(d) for d in shape]
        for fill in (0, 2):
            vals = [fill, 1, 2]
            # every raw key once (length-1 histories)
            singles = [list(k) for k in itertools.product(*[c[0] for c in per_axis])] if len(shape) == 1 else []
            reps = [list(k) for k in itertools.product(*[c[1] for c in per_axis])]
            ops1 = [S(k, x) for k in singles for x in (1,)] + [S(k, x) for k in reps for x in vals]
            # array-valued representatives
            for k in reps:
                try:
                    grid = list(np.empty(shape)[py_key(S(k, 0))].shape)
                except IndexError:
                    continue
                if grid and int(np.prod(grid)) > 0:
                    ops1.append(S(k, 0, vshape=grid, vflat=[(j % 3) + (0 if fill else 1) - (1 if j % 4 == 0 else 0) for j in range(int(np.prod(grid)))]))
            rep_ops = [S(k, x) for k in reps for x in vals] + extra_ops(shape, fill)
            hists = [[o] for o in ops1]
            if depth >= 2:
                hists += [list(t) for t in itertools.product(rep_ops, repeat=2)]
            if depth >= 3:
                hists += [list(t) for t in itertools.product(rep_ops, repeat=3)]
            core.log(f"C12 exhaustive shape={shape} fill={fill}: {len(rep_ops)} representative ops, {len(hists)} histories")
            batch = []
            for j, ops in enumerate(hists):
                hist = {"shape": shape, "fill": fill, "ops": ops}
                req, recs = run_history(ctx, hist)
                batch.append((hist, req, recs))
                if len(batch) >= 2000:
                    check_batch(ctx, batch, "exhaustive")
                    batch = []
            check_batch(ctx, batch, "exhaustive")
            ctx.count("exhaustive_histories", len(hists))


# ------------------------------------------------------------------------------------------------

def leg_cast(ctx, rng, n):
    """values of another dtype than the array's: equality with the fill value is decided AFTER the cast (as NumPy's assignment casts)"""
    import sparse

    for _ in range(n):
        shape = rand_shape(rng)
        if 0 in shape or not shape:
            continue
        fill = int(rng.choice([0, 0, 3]))
        dt = rng.choice([np.int64, np.uint8, np.float32])
        d = sparse.DOK(shape, dtype=dt, fill_value=fill)
        a = np.full(shape, fill, dtype=dt)
        steps = []
        msg = None
        for _ in range(int(rng.integers(1, 6))):
            key = tuple(int(rng.integers(0, e)) for e in shape) if rng.random() < 0.6 else (slice(None),) + tuple(int(rng.integers(0, e)) for e in shape[1:])
            v = rng.choice([0.5, 0.25, fill + 0.4, fill + 0.9, 1e-60, 2.0, 7.0, float(fill)])
            val = np.array([v]) if (isinstance(key[0], slice) and rng.random() < 0.4) else float(v)
            steps.append({"key": [k if isinstance(k, int) else "slice" for k in key], "value": float(v)})
            with warnings.catch_warnings():
                warnings.simplefilter("ignore")
                try:
                    a[key] = val
                    d[key] = val
                except Exception as e:  # noqa: BLE001
                    msg = f"assignment raised {type(e).__name__}: {e}"
                    break
            dd = d.todense()
            nonfill = int((a != np.asarray(fill, dtype=dt)).sum())
            if not np.array_equal(dd, a):
                msg = f"values differ: todense {dd.tolist()} numpy {a.tolist()}"
            elif d.nnz != nonfill:
                msg = f"nnz {d.nnz} but {nonfill} elements differ from the fill value (a stored value equals the fill value after the cast)"
            elif d.to_coo().nnz != nonfill:
                msg = f"to_coo().nnz {d.to_coo().nnz} but {nonfill} non-fill elements"
            if msg:
                break
        case = {"shape": list(shape), "dtype": np.dtype(dt).name, "fill": fill, "steps": steps}
        ctx.case("C:cast-assign", case)
        if msg:
            ctx.fail("C", "assign:cast", case, msg, finding=findings.classify(PID, "assign:cast", case, msg))


def run(ctx):
    ctx.trusted = TRUSTED
    ctx.assumptions = [
        "NumPy's item assignment is the specification (leg C); the Lean dense specification is validated against it (leg B)",
        "element values are small integers (int64, or float64 holding integers): equality with the fill value is exact",
        "the theorems cover every assignment form of the property's grammar (no excluded region) and element reads; "
        "reads through slices / index lists and to_coo are compared differentially only",
    ]
    core.prove(ctx, PID, uses=USES)
    rng = gen.rng_for(ctx.seed, PID)
    leg_corpus(ctx)
    leg_raw_setitem(ctx, rng, ctx.quick)
    leg_histories(ctx, rng, 1500 if ctx.quick else 6000, 30)
    leg_cast(ctx, gen.rng_for(ctx.seed, PID + 'cast'), 300 if ctx.quick else 3000)
    if not ctx.quick:
        leg_exhaustive(ctx)
    ctx.cov["rule"] = (
        "histories of 1..30 assignments on shapes of rank 1-3 (extents 0..5, size <= 60), fills {0,2}, keys: ints (negative, 4% out of range), "
        "slices with steps in ±{1..5} and None parts, short keys incl. the empty tuple, one index too many (1%), Ellipsis, one integer list per axis "
        "(entries in [-dim, dim), repeats, empty lists, 5% with an out-of-range entry; bare list on 1-d, ndarray or list), boolean masks; "
        "values: scalar (30% the fill value) or arrays broadcastable to the selection (one-element values for lists/masks included); after EVERY step "
        "model vs DOK on dict keys in insertion order, values, nnz, error class (leg A), Lean dense spec vs NumPy (leg B), DOK vs NumPy on todense, nnz, "
        "canonical dict, to_coo, reads (leg C); a history is non-trivial when some step leaves a stored element; distinct by content hash; thorough adds "
        "all histories of length <= 3 on (3,), <= 2 on (2,3), 1 on (2,2,2) over one representative int/slice key per behaviour class "
        "(parts in [-4,4] ∪ {None}) x values {fill,1,2} plus eight index-list/mask/empty-tuple ops")
    import extra_ops  # operation tables closing the measured coverage gaps (tools/coverage_audit.py; coverage/API_COVERAGE.md)
    extra_ops.run(ctx, PID)


def replay(ctx, path):
    obj = json.loads(open(path).read())
    case = obj.get("failure", {}).get("case") or obj.get("case")
    if not case or "ops" not in case:
        print(f"nothing to replay in {path}")
        return 2
    ctx.trusted = TRUSTED
    core.prove(ctx, PID, uses=USES)
    hist = {"shape": case["shape"], "fill": case["fill"], "ops": case["ops"]}
    req, recs = run_history(ctx, hist)
    check_batch(ctx, [(hist, req, recs)], "replay")
    return core.finish(ctx)

"""C03 — reductions agree with NumPy over every axis subset."""
from __future__ import annotations

import itertools
import warnings

import numpy as np

import core
import findings
import gen
import impl
import oracle

PID = "C03"
TRUSTED = [
    "Lean 4 kernel; axioms propext, Classical.choice, Quot.sound only (audited per theorem each run)",
    "tie T1: Gen.normalizeAxisInt regenerated from _utils.normalize_axis each run, validated exhaustively for |axis|<=8, ndim<=6",
    "tie T2: hand model COO.reduce (axis normalisation, transpose kept axes first, 2-D reshape, grouped left fold, fill correction via "
    "op(data, fill) or the super-ufunc, prune, reshape back, keepdims, 0-d -> scalar, admissibility test) compared with the implementation on representation",
    "tie T2 (GCXS): hand model SparseV.Model.GcxsReduce (change_compressed_axes/_transpose, _reduce_calc = reduceat over indptr with the counts of stored "
    "elements per row, fill correction, _reduce_return: prune + 1-d GCXS + reshape, keepdims reshape) compared with x.reduce(...) on the returned "
    "(data, indices, indptr, shape, compressed_axes, fill) and, step by step, with every recorded call of change_compressed_axes / _reduce_calc / "
    "reshape (arguments replayed through the model) plus direct calls of change_compressed_axes and reshape on random GCXS arrays; the "
    "'no axes' and 'all axes' branches of GCXS._reduce_calc go through COO and are covered by the COO model and the NumPy oracle",
    "ufunc.reduceat is assumed to fold each segment left to right; accumulation dtypes and floating-point summation order are outside the theorems",
]
UF = {"add": np.add, "multiply": np.multiply, "maximum": np.maximum, "minimum": np.minimum}


def t1_validate(ctx):
    from sparse.numba_backend._utils import normalize_axis

    reqs, want = [], []
    for ax, nd in itertools.product(range(-8, 9), range(0, 7)):
        reqs.append(["gen_normalize_axis", ax, nd])
        try:
            want.append({"ok": int(normalize_axis(ax, nd))})
        except ValueError:
            want.append({"err": "value"})
    outs = ctx.driver.run(reqs)
    for r, w, o in zip(reqs, want, outs):
        if o != w:
            ctx.fail("T1", "normalizeAxisInt", r, f"generated definition gives {o}, Python gives {w}")
    ctx.notes["translator_grid"] = {"axis_cases": len(reqs), "exhaustive_box": "|axis|<=8, ndim<=6"}
    ctx.cov["evaluations"] += len(reqs)


def rand_axes(rng, nd, allow_bad=0.08):
    if rng.random() < 0.2:
        return None
    k = int(rng.integers(0, nd + 1))
    axes = [int(a) for a in rng.permutation(nd)[:k]]
    axes = [a - nd if rng.random() < 0.3 else a for a in axes]
    if rng.random() < allow_bad and nd:
        axes.append(int(rng.choice([nd, -nd - 1, axes[0] if axes else 0])))
    return axes


def leg_a(ctx, rng, n):
    import sparse

    reqs, metas = [], []
    for _ in range(n):
        opn = str(rng.choice(list(UF)))
        # int64 must not overflow (the model computes in unbounded integers): keep products small
        shp = gen.shape(rng, 0, 4, max_size=40 if opn == "multiply" else 400)
        fill = int(rng.choice([0, 0, 1, -1] if opn == "multiply" else [0, 0, 1, 2, -1]))
        x = sparse.COO.from_numpy(gen.dense(rng, shp, fill, lo=-2 if opn == "multiply" else -3, hi=2 if opn == "multiply" else 3), fill_value=fill)
        axes = rand_axes(rng, len(shp))
        kd = bool(rng.random() < 0.4)
        xj = impl.coo_json(x)
        case = {"op": opn, "x": xj, "axes": axes, "keepdims": kd}
        with warnings.catch_warnings():
            warnings.simplefilter("ignore")
            try:
                r = x.reduce(UF[opn], axis=None if axes is None else tuple(axes), keepdims=kd)
                if isinstance(r, sparse.COO):
                    want = {"ok": impl.coo_json(r)}
                else:
                    want = {"ok": {"scalar": int(r)}}
            except Exception as e:  # noqa: BLE001
                want = {"err": impl.err_class(e)}
        reqs.append(["reduce", opn, xj, axes, kd])
        metas.append((case, want))
    outs = ctx.driver.run(reqs)
    for (case, want), out in zip(metas, outs):
        ctx.case("A:reduce", case, nontrivial=bool(case["x"]["data"]))
        if out != want:
            ctx.fail("A", "model:reduce", case, f"model {str(out)[:500]} implementation {str(want)[:500]}")


# ---------------------------------------------------------------------------------------------------
# GCXS: model of GCXS._reduce_calc / _reduce_return vs the implementation, public level and step level
# ---------------------------------------------------------------------------------------------------

class ReduceTrace:
    """records the calls x.reduce(...) makes to change_compressed_axes, _reduce_calc and reshape (arguments and results)"""

    def __init__(self):
        from sparse.numba_backend._compressed.compressed import GCXS

        self.G = GCXS
        self.calls = []
        self.saved = {}

    def __enter__(self):
        import gx

        for n in ("change_compressed_axes", "_reduce_calc", "reshape"):
            f = getattr(self.G, n)
            self.saved[n] = f

            def wrap(obj, *a, _f=f, _n=n, **kw):
                pre = gx.gcxs_json(obj) if obj.ndim >= 1 else None
                r = _f(obj, *a, **kw)
                rec = r
                if _n == "_reduce_calc" and isinstance(r, tuple) and len(r) == 5:
                    # `reduce` corrects `data` in place afterwards: keep what `_reduce_calc` returned
                    rec = (np.array(r[0], copy=True), np.array(r[1], copy=True), r[2], r[3], r[4])
                self.calls.append((_n, pre, a, kw, rec))
                return r
            setattr(self.G, n, wrap)
        return self

    def __exit__(self, *exc):
        for n, f in self.saved.items():
            setattr(self.G, n, f)


def reduce_step_requests(calls, opn):
    import gx
    import sparse

    out = []
    for name, pre, a, kw, r in calls:
        if pre is None:
            continue
        if name == "change_compressed_axes" and pre["caxes"] is not None and isinstance(r, sparse.GCXS):
            new = [int(v) for v in a[0]]
            out.append(("step:change_compressed_axes", ["gx_change_caxes", pre, new], {"ok": gx.gcxs_json(r)}, {"x": pre, "new": new}))
        elif name == "reshape" and isinstance(r, sparse.GCXS) and not kw.get("compressed_axes"):
            shp = a[0] if a else kw.get("shape")
            shp = [int(v) for v in (shp if isinstance(shp, (tuple, list)) else [shp])]
            if len(shp) >= 2 and all(v >= 0 for v in shp):
                out.append(("step:reshape", ["gx_reshape", pre, shp], {"ok": gx.gcxs_json(r)}, {"x": pre, "shape": shp}))
        elif name == "_reduce_calc" and isinstance(r, tuple) and len(r) == 5:
            data, counts, _axis, n_cols, (x, _ca, indices) = r
            xj = gx.gcxs_json(x)
            R = len(xj["indptr"]) - 1
            out.append(("step:_reduce_calc", ["gx_reduce_rows", opn, xj["indptr"], xj["data"], R],
                        {"ok": {"indices": [int(v) for v in indices], "data": [int(v) for v in data], "counts": [int(v) for v in counts]}},
                        {"op": opn, "indptr": xj["indptr"], "data": xj["data"], "R": R, "n_cols": int(n_cols)}))
    return out


def reshape_target(rng, shp):
    """a different shape of rank >= 2 with the same number of elements"""
    shp = list(shp)
    for _ in range(20):
        t = list(shp)
        r = rng.random()
        if r < 0.4 and len(t) >= 3:  # merge two adjacent axes
            k = int(rng.integers(0, len(t) - 1))
            t[k:k + 2] = [t[k] * t[k + 1]]
        elif r < 0.7:  # split an axis
            k = int(rng.integers(0, len(t)))
            d = t[k]
            fs = [f for f in range(1, d + 1) if d % f == 0] if d else [1]
            f = int(rng.choice(fs))
            t[k:k + 1] = [f, d // f] if d else [1, 0]
        else:
            t = [int(v) for v in rng.permutation(t)]
        if len(t) >= 2 and t != shp:
            return t
    return None


def leg_gcxs(ctx, rng, n_public, n_direct):
    import sparse
    import gx

    reqs, metas, sreqs = [], [], []
    for _ in range(n_public):
        opn = str(rng.choice(list(UF)))
        mul = opn == "multiply"
        x, d, fill, route = gx.rand_gcxs(rng, fills=(0, 0, 1, -1) if mul else (0, 0, 1, 2, -1), max_size=40 if mul else 300,
                                         lo=-2 if mul else -3, hi=2 if mul else 3, extents=[0, 1, 1, 2, 2, 3, 3, 4, 5])
        nd = x.ndim
        k = int(rng.integers(1, nd))
        axes = [int(a) for a in rng.permutation(nd)[:k]]
        if rng.random() < 0.5:
            axes = sorted(axes)
        raw = [a - nd if rng.random() < 0.3 else a for a in axes]
        kd = bool(rng.random() < 0.4)
        xj = gx.gcxs_json(x)
        case = {"op": opn, "x": xj, "route": route, "axes": raw, "keepdims": kd}
        with warnings.catch_warnings():
            warnings.simplefilter("ignore")
            with ReduceTrace() as tr:
                try:
                    want = gx.result_json(x.reduce(UF[opn], axis=tuple(raw), keepdims=kd))
                except Exception as e:  # noqa: BLE001
                    want = {"err": impl.err_class(e)}
        reqs.append(["gx_reduce", opn, xj, axes, kd])
        metas.append((case, want))
        sreqs += reduce_step_requests(tr.calls, opn)
    outs = ctx.driver.run(reqs)
    for (case, want), out in zip(metas, outs):
        ctx.case("A:gcxs_reduce", case, nontrivial=bool(case["x"]["data"]))
        ctx.count("gcxs_reduce_" + ("err" if "err" in want else "array"))
        if out != want:
            ctx.fail("A", "model:gcxs_reduce", case, f"model {str(out)[:400]} implementation {str(want)[:400]}")
    # ---- direct calls of change_compressed_axes and reshape
    for _ in range(n_direct):
        x, d, fill, route = gx.rand_gcxs(rng)
        ch = gen.compressed_axes_choices(x.ndim)
        new = [int(v) for v in ch[int(rng.integers(len(ch)))]]
        with ReduceTrace() as tr:
            x.change_compressed_axes(tuple(new))
            t = reshape_target(rng, x.shape)
            if t is not None and len(t) != x.ndim:
                x.reshape(tuple(t))
        sreqs += reduce_step_requests(tr.calls[:1] + [c for c in tr.calls[1:] if c[0] == "reshape"][:1], "add")
    souts = ctx.driver.run([k[1] for k in sreqs])
    fams = {}
    for (fam, req, want, case), out in zip(sreqs, souts):
        ctx.case("A:" + fam, case)
        fams[fam] = fams.get(fam, 0) + 1
        if out != want:
            ctx.fail("A", fam, case, f"model {str(out)[:400]} implementation {str(want)[:400]}")
    ctx.notes["gcxs_leg"] = {"public": n_public, "steps": fams}


REDS = ["sum", "prod", "min", "max", "any", "all", "mean", "var", "std", "nansum", "nanprod", "nanmax", "nanmin", "nanmean", "ufunc.reduce"]


def leg_c(ctx, rng, n):
    import sparse

    for it in range(n):
        shp = gen.shape(rng, 0, 4, extents=[0, 1, 1, 2, 2, 2, 3, 3, 3, 4, 2, 3, 4, 1])
        dt = rng.choice([np.int64, np.int8, np.uint16, np.float64, np.float32, np.bool_, np.uint8, np.int16, np.complex128])
        k = np.dtype(dt).kind
        fillraw = rng.choice([0, 0, 1, 2])
        if k in "iu" and np.dtype(dt).itemsize <= 2 and rng.random() < 0.4:
            # a fill value whose sum / product over the reduced extent leaves the operand's narrow dtype (NumPy accumulates
            # sum and prod of narrow integers in the platform integer)
            big = {"int8": [100, -100, 60, 7], "uint8": [200, 90, 9], "int16": [20000, -15000, 200], "uint16": [40000, 300]}[np.dtype(dt).name]
            fillraw = big[int(rng.integers(len(big)))]
        d = gen.dense(rng, shp, int(fillraw), lo=0 if k in "ub" else -3, hi=3).astype(dt)
        fill = np.asarray(fillraw).astype(dt)[()]
        if k == "f" and rng.random() < 0.5:
            d = (d / dt(2)).astype(dt)  # exactly representable halves
        if k == "c":
            d = (d + 1j * gen.dense(rng, shp, 0, lo=-2, hi=2)).astype(dt)
            d = np.where(np.real(d) == np.real(fill), fill, d).astype(dt)
        red = str(rng.choice(REDS))
        if k in "iu" and red in ("prod", "nanprod", "ufunc.reduce") and abs(int(fill)) ** max(int(d.size), 1) >= 2 ** 62:
            # a product that leaves the 64-bit accumulator wraps in NumPy (and nobody specifies how): keep products inside it
            small = dt(7 if abs(int(fill)) > 7 else int(fill))
            d = np.where(d == fill, small, d).astype(dt)
            fill = small
            if abs(int(fill)) ** max(int(d.size), 1) >= 2 ** 62:
                d = np.where(d == fill, dt(2), d).astype(dt)
                fill = dt(2)
        if k == "c" and red in ("max", "min", "nanmax", "nanmin", "argmax", "argmin", "ufunc.reduce", "any", "all"):
            red = str(rng.choice(["sum", "prod", "mean", "nansum", "nanmean", "nanprod"]))
        if red.startswith("nan"):
            if k not in "fc":
                d = d.astype(np.float64); dt = np.float64; k = "f"
                fill = np.float64(fill)
            d = np.where(rng.random(size=shp) < 0.15, np.nan, d).astype(dt)
        fmt = str(rng.choice(["coo", "coo", "gcxs"]))
        x, fdesc = gen.to_format(rng, d, fmt, fill)
        axes = rand_axes(rng, len(shp), allow_bad=0.05)
        ax = None if axes is None else (axes[0] if len(axes) == 1 and rng.random() < 0.5 else tuple(axes))
        kd = bool(rng.random() < 0.4)
        kw = {"axis": ax, "keepdims": kd}
        ddof = None
        if red in ("var", "std") and rng.random() < 0.5:
            ddof = int(rng.integers(0, 2))
            kw["ddof"] = ddof
        if red in ("sum", "prod", "mean") and rng.random() < 0.25:
            kw["dtype"] = rng.choice([np.float64, np.int64, np.float32]) if red != "mean" else np.float64
        case = {"reduction": red, "format": fdesc, "shape": list(shp), "dtype": str(np.dtype(dt)), "fill": repr(fill), "dense": d.tolist(),
                "kwargs": {k_: (str(v) if not isinstance(v, (int, bool, tuple, type(None))) else v) for k_, v in kw.items()}}
        if red == "ufunc.reduce":
            uf = rng.choice([np.add, np.multiply, np.maximum, np.minimum, np.logical_or, np.logical_and, np.bitwise_xor, np.fmax])
            if uf is np.bitwise_xor and k == "f":
                uf = np.add
            case["ufunc"] = uf.__name__
            ukw = {"axis": ax, "keepdims": kd}
            it_ = lambda: uf.reduce(x, **ukw)  # noqa: E731
            rt_ = lambda: uf.reduce(d, **ukw)  # noqa: E731
        else:
            it_ = lambda: getattr(x, red)(**kw) if hasattr(x, red) else getattr(sparse, red)(x, **kw)  # noqa: E731
            rt_ = lambda: getattr(np, red)(d, **kw)  # noqa: E731
        ctx.case(f"C:{red}:{fmt}", case, nontrivial=bool(d.size))
        msg = compare_reduction(it_, rt_, fill, d)
        if msg:
            ctx.fail("C", red, case, msg, finding=findings.classify(PID, red, case, msg))
        if it % 300 == 0:
            core.log(f"C03 leg C {it}/{n}")


def compare_reduction(it, rt, fill, d):
    import sparse

    with warnings.catch_warnings():
        warnings.simplefilter("ignore")
        try:
            ref = rt(); ref_err = None
        except Exception as e:  # noqa: BLE001
            ref, ref_err = None, e
        try:
            got = it(); got_err = None
        except Exception as e:  # noqa: BLE001
            got, got_err = None, e
    if ref_err is not None:
        if got_err is None:
            return f"numpy raises {type(ref_err).__name__}: {str(ref_err)[:60]} but the call returned"
        if impl.err_class(got_err) not in ("value", "type", "index"):
            return f"numpy raises {type(ref_err).__name__}; call raised {type(got_err).__name__}: {str(got_err)[:120]}"
        return None
    if got_err is not None:
        if isinstance(got_err, ValueError) and "would produce a dense result" in str(got_err):
            return None  # "a reduction that cannot be expressed sparsely raises ValueError"
        return f"raised {type(got_err).__name__}: {str(got_err)[:160]} (numpy returns shape {np.shape(ref)})"
    if isinstance(got, sparse.SparseArray):
        p = impl.canonical_problem(got)
        if p:
            return f"result not canonical: {p}"
        g = got.todense()
    else:
        g = np.asarray(got)
    ref = np.asarray(ref)
    if g.shape != ref.shape:
        return f"shape {g.shape}, numpy {ref.shape}"
    if g.dtype != ref.dtype:
        return f"dtype {g.dtype}, numpy {ref.dtype}"
    if g.dtype.kind in "fc":
        if not np.allclose(g, ref, rtol=1e-6, atol=1e-9, equal_nan=True):
            return f"values differ: got {g.tolist()!r:.200} numpy {ref.tolist()!r:.200}"
    elif not np.array_equal(g, ref):
        return f"values differ: got {g.tolist()!r:.200} numpy {ref.tolist()!r:.200}"
    return None


def run(ctx):
    ctx.trusted = TRUSTED
    ctx.assumptions = ["NumPy reductions of the densified array are the specification; float results compared with rtol 1e-6 (summation order is not specified)"]
    core.prove(ctx, PID, extra_targets=["SparseV.Props.C03Gcxs"], uses=["normalizeAxisInt"])
    t1_validate(ctx)
    rng = gen.rng_for(ctx.seed, PID)
    leg_a(ctx, rng, 700 if ctx.quick else 7000)
    leg_gcxs(ctx, gen.rng_for(ctx.seed, PID + ":gcxs"), 400 if ctx.quick else 5000, 200 if ctx.quick else 3000)
    leg_c(ctx, rng, 600 if ctx.quick else 7000)
    ctx.cov["rule"] = ("T1: (axis, ndim) box; leg A: add/multiply/maximum/minimum reduce on random COO (rank 0-4, fills {0,1,2,-1}) over random axis "
                       "tuples (any order, negative, repeated/out of range), keepdims; model vs implementation on representation; leg A (GCXS): the same four ufuncs on "
                       "random GCXS arrays (rank 2-4, every compressed_axes, CSR/CSC, zero extents) over non-empty proper axis subsets in any order / negative "
                       "spelling, keepdims: model vs x.reduce on (data, indices, indptr, shape, compressed_axes, fill), every recorded change_compressed_axes / "
                       "_reduce_calc / reshape call replayed through the model, direct change_compressed_axes and reshape calls; leg C: 15 reductions x "
                       "6 dtypes x COO/GCXS vs NumPy; non-trivial = non-empty array; distinct by content hash")
    import extra_ops  # operation tables closing the measured coverage gaps (tools/coverage_audit.py; coverage/API_COVERAGE.md)
    extra_ops.run(ctx, PID)

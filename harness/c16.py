"""C16 — sparse stays sparse: memory scales with stored elements, not logical size.

Leg A  the Lean model (unbounded Nat) is the sparse oracle: every modelled operation is evaluated by svdriver on arrays of
       shape (10^6,10^6,10^6) / (10^6,10^6) with a few to ~2000 stored elements and compared — coordinates, order, data, indptr —
       with the implementation, which runs in a worker subprocess under RLIMIT_AS (6 GiB) and a deadline.
Leg C  the same calls are the resource oracle: completion under the address-space limit and the time budget, tracemalloc peak
       against c · 8 bytes · opCost (the cost semantics of Model/Cost.lean, evaluated by the driver); plus the operations that
       have no Lean model (GCXS-format operations, products of 1-d/2-d operands, var/std) against a coordinate-dictionary
       reference computed here.
"""
from __future__ import annotations

import json
import os
import select
import subprocess
import sys
import threading
import time

import numpy as np

import core
import findings
import gen
import loadtol

PID = "C16"
HERE = os.path.dirname(os.path.abspath(__file__))
LIMIT = 6 << 30
BIG = 10**6
C_MAX = 16          # calibrated: tracemalloc peak <= C_MAX * 8 bytes * opCost + SLACK  (measured ratios are reported)
SLACK = 256 << 10
TRUSTED = [
    "Lean 4 kernel; axioms propext, Classical.choice, Quot.sound only (audited per theorem each run)",
    "the cost semantics Model/Cost.lean is a hand transcription of the allocations of the code (cells written per intermediate array); "
    "it is tied to the code only by measurement: tracemalloc peak of every call <= c*8*opCost for the calibrated c (partial)",
    "tie T2: the executable models of C01/C02/C03/C05/C08/C09 (Coo, Getitem, Elemwise, Reduce, Join, Gcxs) are the sparse oracle; their "
    "sparse-safe evaluation strategies (Model/Big.lean) are proved equal to the originals (Lemmas/Big.lean) and compared through the driver",
    "bytes and seconds are runtime facts of this machine: RLIMIT_AS 6 GiB, tracemalloc (Python/NumPy allocations; numba NRT allocations are not traced)",
    "operations without a Lean model (GCXS-format operations, products, var/std, reductions of non-integer data, mixed sparse-dense operations) are compared with a "
    "coordinate-dictionary reference in Python; the dense operands of mixed operations are generated from a formula evaluated position by position on both sides",
]


# ---------------------------------------------------------------------------------------------------
# worker
# ---------------------------------------------------------------------------------------------------

class Worker:
    def __init__(self, limit=LIMIT):
        env = dict(os.environ)
        self.p = subprocess.Popen([sys.executable, os.path.join(HERE, "c16_worker.py"), str(limit)], stdin=subprocess.PIPE,
                                  stdout=subprocess.PIPE, stderr=subprocess.DEVNULL, text=True, bufsize=1, env=env)

    def call(self, case, timeout):
        try:
            self.p.stdin.write(json.dumps(case, separators=(",", ":")) + "\n")
            self.p.stdin.flush()
        except BrokenPipeError:
            return {"out": {"err": "crash", "rc": self.p.wait()}}
        r, _, _ = select.select([self.p.stdout], [], [], timeout)
        if not r:
            self.p.kill()
            self.p.wait()
            return {"out": {"err": "timeout", "deadline": timeout}}
        line = self.p.stdout.readline()
        if not line:
            return {"out": {"err": "crash", "rc": self.p.wait()}}
        return json.loads(line)

    def close(self):
        try:
            self.p.stdin.close()
            self.p.wait(timeout=5)
        except Exception:  # noqa: BLE001
            self.p.kill()


CAL = {"ref": None, "unit": loadtol.NOMINAL_UNIT, "rescued": [], "confirmed": [], "slowdown_at_start": 1.0}


def calibrate():
    """the reference computation in a worker of its own, before anything else runs: the CPU unit of every time budget of this run"""
    w = Worker()
    a = w.call({"op": "calibrate"}, 300)
    w.close()
    ref = a.get("out", {}).get("ok")
    if isinstance(ref, dict) and ref.get("cpu", 0) > 0:
        CAL["ref"] = ref
        CAL["unit"] = ref["cpu"]
    CAL["slowdown_at_start"] = round(loadtol.slowdown(CAL["ref"]), 2)
    return CAL


def budget_cpu(size):
    """CPU seconds allowed for one (warmed) call on an input+output of `size` cells + Σ shape: 70 units + 3.5e-4 units per cell, where one unit is
    the CPU time of the reference computation measured at the start of this run (2 s + 10 µs per cell on the machine it was written on)"""
    return CAL["unit"] * (70.0 + 3.5e-4 * size)


def hang_limit(deadline, size=None):
    """wall-clock seconds after which a call is SUSPECTED to hang: the stated deadline or ten times the CPU budget, stretched by the contention the
    reference computation saw and by the load per CPU right now"""
    base = max(float(deadline), 10.0 * budget_cpu(size) if size is not None else 0.0)
    return base * loadtol.slowdown(CAL["ref"])


def run_lanes(lanes, alone=False):
    """lanes: list of lists of (case, deadline).  One worker subprocess per lane, lanes in parallel; a worker that missed a
    deadline or died is replaced.  A missed deadline is only a suspicion here (see confirm_timeouts)."""
    results = [[None] * len(l) for l in lanes]

    def lane(i):
        w = Worker()
        misses = {}
        for j, (case, deadline) in enumerate(lanes[i]):
            # a family whose calls keep missing their deadline is not run to the end: two suspects are enough (they are confirmed alone afterwards)
            bucket = case.get("bucket")
            if bucket is not None and misses.get(bucket, 0) >= 2:
                results[i][j] = {"out": {"err": "skipped", "why": f"two calls of the family {bucket} missed their deadline already"}}
                continue
            lim = hang_limit(deadline)
            a = w.call({k: v for k, v in case.items() if k != "bucket"}, lim)
            if a["out"].get("err") == "timeout" and bucket is not None:
                misses[bucket] = misses.get(bucket, 0) + 1
            if a["out"].get("err") == "timeout":
                a["out"]["deadline"] = round(lim, 1)
            results[i][j] = a
            if a["out"].get("err") in ("timeout", "crash"):
                w.close()
                w = Worker()
        w.close()

    ts = [threading.Thread(target=lane, args=(i,)) for i in range(len(lanes))]
    for t in ts:
        t.start()
    for t in ts:
        t.join()
    return results


def run_alone(case, deadline):
    """one case in a fresh worker while nothing else of this check runs"""
    return run_lanes([[(case, deadline)]])[0][0]


def confirm_timeouts(lanes, results, log):
    """every missed deadline is retried ALONE (all lanes have finished) in a fresh worker, with twice the limit; only a second miss stands"""
    for i, lane in enumerate(lanes):
        for j, (case, deadline) in enumerate(lane):
            a = results[i][j]
            if a is not None and a["out"].get("err") == "timeout":
                log(f"C16: {case.get('op')} missed its deadline ({a['out'].get('deadline')} s); retrying alone")
                b = run_alone({k: v for k, v in case.items() if k != "bucket"}, 2 * deadline)
                tag = {"op": case.get("op"), "family": case.get("family"), "first_limit_s": a["out"].get("deadline")}
                if b["out"].get("err") == "timeout":
                    b["out"]["confirmed_by_solitary_retry"] = True
                    CAL["confirmed"].append(tag)
                else:
                    CAL["rescued"].append(dict(tag, kind="deadline", secs_alone=b.get("secs"), cpu_alone=b.get("cpu")))
                results[i][j] = b


def over_budget(a, size, case, deadline=150):
    """the CPU time of the call against its budget; a miss is re-measured alone (this runs after all lanes have finished) and stands only if it
    repeats.  -> message | None"""
    if size is None or a.get("cpu", 0) <= budget_cpu(size):
        return None
    b = run_alone(case, deadline)
    first = a.get("cpu")
    if "ok" in b.get("out", {}) and b.get("cpu", 0) <= budget_cpu(size):
        CAL["rescued"].append({"op": case.get("op"), "kind": "cpu-budget", "cpu_first": first, "cpu_alone": b.get("cpu"), "budget": round(budget_cpu(size), 2)})
        return None
    return (f"took {first} s of CPU time ({b.get('cpu')} s when re-run alone), budget {budget_cpu(size):.2f} s = {70 + 3.5e-4 * size:.0f} units of "
            f"{CAL['unit']:.4f} s (the reference computation of this run) for size {size}")


# ---------------------------------------------------------------------------------------------------
# inputs
# ---------------------------------------------------------------------------------------------------

def rand_coo(rng, shape, n, fill=0, lo=1, hi=8):
    """canonical COO json: n distinct coordinates in row-major order, values in [lo, hi] \\ {fill}"""
    pts = set()
    while len(pts) < n:
        pts.add(tuple(int(rng.integers(0, d)) for d in shape))
    pts = sorted(pts)
    data = []
    for _ in pts:
        v = int(rng.integers(lo, hi + 1))
        while v == fill:
            v = int(rng.integers(lo, hi + 1))
        data.append(v)
    return {"shape": list(shape), "coords": [list(p) for p in pts], "data": data, "fill": fill}


def overlapping(rng, x, n_new, frac=0.5):
    """an array of x's shape sharing about `frac` of x's coordinates"""
    pts = {tuple(c) for c in x["coords"] if rng.random() < frac}
    while len(pts) < n_new:
        pts.add(tuple(int(rng.integers(0, d)) for d in x["shape"]))
    pts = sorted(pts)
    return {"shape": list(x["shape"]), "coords": [list(p) for p in pts], "data": [int(rng.integers(1, 9)) for _ in pts], "fill": x["fill"]}


def nnz_choice(rng, quick):
    return int(rng.choice([3, 40, 400] if quick else [3, 40, 400, 2000]))


def lsum(shape):
    return sum(shape)


def cells(x):
    return (len(x["shape"]) + 1) * len(x["data"])


# ---------------------------------------------------------------------------------------------------
# cases: each is a dict  fam, w (worker case), m (model request | None), pick (model answer -> comparable), cost (answer -> cost request | None)
# ---------------------------------------------------------------------------------------------------

S3, S2 = (BIG, BIG, BIG), (BIG, BIG)
# huge extents that are NOT round numbers: the logical sizes (1.00002e18, 4.0e18) exceed 2**53 and are not float64 values (10**18 = 2**18 * 5**18
# is one), so that any float arithmetic on sizes or linear indices shows
ODD3, ODD2 = (1000003, 999983, 1000033), (2000000011, 1999999973)
assert all(float(p) != p for p in (ODD3[0] * ODD3[1] * ODD3[2], ODD2[0] * ODD2[1])) and ODD3[0] * ODD3[1] * ODD3[2] > 2**53


def lin_index(c, shape):
    """row-major linear index in Python integers"""
    v = 0
    for i, d in zip(c, shape):
        v = v * d + i
    return v


def unravel(v, shape):
    out = []
    for d in reversed(shape):
        out.append(v % d)
        v //= d
    return out[::-1]


def coo_of(shape, d, fill=0):
    keys = sorted(d)
    return {"shape": list(shape), "coords": [list(k) for k in keys], "data": [d[k] for k in keys], "fill": fill}


def ok_coo(o):
    return o.get("ok") if "ok" in o else {"err": o.get("err")}


def mk_cases(rng, quick):
    cs = []

    def add(fam, w, m, pick=ok_coo, cost=None, lane=0, expect=None, size=None):
        w = dict(w)
        w["warm"] = True
        cs.append({"fam": fam, "w": w, "m": m, "pick": pick, "cost": cost, "lane": lane, "expect": expect, "size": size})

    reps = 2 if quick else 8
    for _ in range(reps):
        # ---- shape operations (lane 0) -------------------------------------------------------------
        x = rand_coo(rng, S3, nnz_choice(rng, quick), fill=int(rng.choice([0, 0, 2])))
        sh, n = x["shape"], len(x["data"])
        axes = [int(a) for a in rng.permutation(3)]
        if axes == [0, 1, 2]:
            axes = [2, 0, 1]
        add("transpose", {"op": "transpose", "x": x, "axes": axes}, ["transpose_core", x, axes], cost=lambda a, sh=sh, n=n, axes=axes: ["cost", "transpose", sh, n, axes])
        for tgt in ([BIG**2, BIG], [BIG**3], [1000, 1000, BIG, 1000, 1000, 1], [BIG, BIG**2]):
            if quick and rng.random() < 0.5:
                continue
            add("reshape", {"op": "reshape", "x": x, "shape": tgt}, ["reshape_core", x, tgt], cost=lambda a, sh=sh, n=n, tgt=tgt: ["cost", "reshape", sh, n, tgt])
        fa = sorted({int(a) for a in rng.integers(0, 3, size=2)})
        add("flip", {"op": "flip", "x": x, "axes": fa}, ["flip_core", x, fa], cost=lambda a, sh=sh, n=n, fa=fa: ["cost", "flip", sh, n, fa])
        ra = [int(a) for a in rng.choice(3, size=2, replace=False)]
        shifts = [int(rng.integers(-2 * BIG, 2 * BIG)) for _ in ra]
        add("roll", {"op": "roll", "x": x, "axes": ra, "shifts": shifts}, ["roll_core", x, ra, shifts], cost=lambda a, sh=sh, n=n, ra=ra: ["cost", "roll", sh, n, ra])
        xs = rand_coo(rng, (BIG, 1, BIG, 1), nnz_choice(rng, quick))
        sq = [1, 3] if rng.random() < 0.5 else [3]
        add("squeeze", {"op": "squeeze", "x": xs, "axes": sq}, ["squeeze_core", xs, sq],
            cost=lambda a, xs=xs, sq=sq: ["cost", "squeeze", xs["shape"], len(xs["data"]), sq])
        pos = int(rng.integers(0, 4))
        add("expand_dims", {"op": "expand_dims", "x": x, "axis": pos}, ["expand_dims_core", x, pos], cost=lambda a, sh=sh, n=n: ["cost", "expand_dims", sh, n])

        # ---- the same shape operations on odd extents (size > 2**53, not a float64): the unknown extent of reshape, strides ---------
        xo = rand_coo(rng, ODD3 if rng.random() < 0.7 else ODD2, nnz_choice(rng, quick), fill=int(rng.choice([0, 0, 2])))
        sho, no = xo["shape"], len(xo["data"])
        No = int(np.prod(sho, dtype=object))
        if len(sho) == 3:
            otargets = [([-1], [No]), ([-1, sho[2]], [sho[0] * sho[1], sho[2]]), ([sho[0], -1], [sho[0], sho[1] * sho[2]]),
                        ([sho[2], -1, sho[0]], [sho[2], sho[1], sho[0]]), ([1, -1, 1], [1, No, 1]), ([No], [No])]
        else:
            otargets = [([-1], [No]), ([-1, sho[0]], [sho[1], sho[0]]), ([1, 1, -1], [1, 1, No]), ([No], [No])]
        for k_, (tw, tm) in enumerate(otargets):
            if quick and k_ and rng.random() < 0.5:
                continue
            add("reshape", {"op": "reshape", "x": xo, "shape": tw}, ["reshape_core", xo, tm], cost=lambda a, sho=sho, no=no, tm=tm: ["cost", "reshape", sho, no, tm])
        axo = [2, 0, 1] if len(sho) == 3 else [1, 0]
        add("transpose", {"op": "transpose", "x": xo, "axes": axo}, ["transpose_core", xo, axo], cost=lambda a, sho=sho, no=no, axo=axo: ["cost", "transpose", sho, no, axo])
        add("flip", {"op": "flip", "x": xo, "axes": [0]}, ["flip_core", xo, [0]], cost=lambda a, sho=sho, no=no: ["cost", "flip", sho, no, [0]])
        hito = xo["coords"][int(rng.integers(len(xo["coords"])))]
        ixo = [["i", hito[0]], ["s", None, None, None]] if rng.random() < 0.5 else [["s", hito[0], None, 3], ["i", hito[1] - sho[1]]]
        add("getitem", {"op": "getitem", "x": xo, "index": ixo}, ["getitem", xo, ixo], lane=1,
            cost=lambda a, xo=xo: ["cost", "getitem", xo["shape"], len(xo["data"])] + ([a["out"]["ok"]["shape"], len(a["out"]["ok"]["data"])]
                                                                                        if isinstance(a["out"].get("ok"), dict) and "shape" in a["out"]["ok"] else [[], 1]) + [False, None])

        # ---- indexing (lane 1) ---------------------------------------------------------------------
        xi = rand_coo(rng, S3, max(40, nnz_choice(rng, quick)))
        hit = xi["coords"][int(rng.integers(len(xi["coords"])))]
        some = [xi["coords"][int(k)] for k in rng.integers(0, len(xi["coords"]), size=12)]
        idxs = [
            [["s", None, None, 2], ["s", 10, 900000, None], ["s", None, None, -1]],
            [["i", hit[0]]],
            [["i", hit[0]], ["i", hit[1]], ["i", hit[2]]],
            [["i", hit[0] - BIG], ["e"], ["i", hit[2]]],
            [["s", None, None, None], ["i", hit[1]], ["n"], ["s", None, None, -3]],
            [["e"], ["s", hit[2], hit[2] + 1, None]],
            [["a", [c[0] for c in some]]],
            [["a", [c[0] for c in some]], ["a", [c[1] for c in some]]],
            [["s", None, None, None], ["a", sorted({c[1] for c in some})]],
            [["s", 5, None, 7], ["n"], ["s", None, None, None], ["a", [c[2] - BIG for c in some]]],
            [["i", BIG]],
        ]
        for ix in idxs:
            if quick and rng.random() < 0.35:
                continue
            neg = any(e[0] == "s" and e[3] is not None and e[3] < 0 for e in ix)
            arrs = [e for e in ix if e[0] == "a"]
            L = len(arrs[0][1]) if arrs else None

            def gcost(a, xi=xi, neg=neg, L=L):
                o = a["out"].get("ok")
                if not isinstance(o, dict) or "shape" not in o:
                    return ["cost", "getitem", xi["shape"], len(xi["data"]), [], 1, neg, L]
                return ["cost", "getitem", xi["shape"], len(xi["data"]), o["shape"], len(o["data"]), neg, L]
            add("getitem", {"op": "getitem", "x": xi, "index": ix}, ["getitem", xi, ix], cost=gcost, lane=1)

        # ---- element-wise (lane 2) -----------------------------------------------------------------
        xe = rand_coo(rng, S3, nnz_choice(rng, quick), fill=int(rng.choice([0, 0, 1])), lo=-4, hi=6)
        for f in (["negative", "square"] if quick else ["negative", "absolute", "square", "sign"]):
            add("elemwise1", {"op": "elemwise", "func": f, "operands": [{"coo": xe}]}, ["elemwise", f, [{"coo": xe}]], pick=pick_elem,
                cost=lambda a, xe=xe: ["cost", "elemwise1", xe["shape"], len(xe["data"]), nnz_of(a)], lane=2)
        for f, v in (("multiply", 3), ("add", 1), ("maximum", 2)):
            ops = [{"coo": xe}, {"scalar": v}]
            add("elemwise_scalar", {"op": "elemwise", "func": f, "operands": ops}, ["elemwise", f, ops], pick=pick_elem,
                cost=lambda a, xe=xe: ["cost", "elemwise1", xe["shape"], len(xe["data"]), nnz_of(a)], lane=2)
        xa = rand_coo(rng, S2 if rng.random() < 0.5 else S3, min(400, nnz_choice(rng, quick)), lo=-3, hi=5)
        xb = overlapping(rng, xa, len(xa["data"]))
        for f in (["add", "multiply"] if quick else ["add", "subtract", "multiply", "maximum", "minimum"]):
            ops = [{"coo": xa}, {"coo": xb}]
            add("elemwise2", {"op": "elemwise", "func": f, "operands": ops}, ["elemwise", f, ops], pick=pick_elem,
                cost=lambda a, xa=xa, xb=xb: ["cost", "elemwise2", xa["shape"], len(xa["data"]), len(xb["data"]), nnz_of(a)], lane=2)

        # ---- reductions (lane 2) -------------------------------------------------------------------
        xr = rand_coo(rng, S3, nnz_choice(rng, quick), fill=int(rng.choice([0, 0, 1])), lo=-3, hi=4)
        # a few stored elements sharing a row, so that groups have more than one member
        if len(xr["coords"]) > 8:
            base = xr["coords"][3]
            extra = sorted({(base[0], base[1], int(rng.integers(0, BIG))) for _ in range(5)} | {tuple(c) for c in xr["coords"]})
            xr = {"shape": xr["shape"], "coords": [list(p) for p in extra], "data": [int(rng.integers(1, 4)) for _ in extra], "fill": xr["fill"]}
        red = [("add", [0], False), ("add", None, False), ("maximum", [1, 2], True), ("minimum", [2], False), ("add", [0, 2], True), ("add", [-1], False)]
        if xr["fill"] in (0, 1):
            red.append(("multiply", [2], False))
        for uf, ax, kd in red:
            if quick and rng.random() < 0.4:
                continue

            def rcost(a, xr=xr, ax=ax):
                nd = 3
                axn = list(range(nd)) if ax is None else [v % nd for v in ax]
                kept = [d for d in range(nd) if d not in axn]
                g = len({tuple(c[k] for k in kept) for c in xr["coords"]})
                return ["cost", "reduce", xr["shape"], len(xr["data"]), axn, g, min(g, nnz_of(a))]
            add("reduce", {"op": "reduce", "ufunc": uf, "x": xr, "axes": ax, "keepdims": kd}, ["reduce", uf, xr, ax, kd], cost=rcost, lane=2)

        # ---- joining / structural (lane 0) ---------------------------------------------------------
        m1 = rand_coo(rng, S2, nnz_choice(rng, quick))
        m2 = rand_coo(rng, S2, nnz_choice(rng, quick))
        m3 = rand_coo(rng, S2, 5)
        N = len(m1["data"]) + len(m2["data"]) + len(m3["data"])
        for ax in ((1,) if quick else (0, 1)):
            add("concat", {"op": "concat", "xs": [m1, m2, m3], "axis": ax}, ["concat_core", [m1, m2, m3], ax], cost=lambda a, N=N, ax=ax: ["cost", "concat", S2, N, ax])
        for ax in ((2,) if quick else (0, 1, 2)):
            add("stack", {"op": "stack", "xs": [m1, m2, m3], "axis": ax}, ["stack_core", [m1, m2, m3], ax], cost=lambda a, N=N, ax=ax: ["cost", "stack", S2, N, ax])
        xt = rand_coo(rng, S3 if rng.random() < 0.5 else S2, nnz_choice(rng, quick))
        k = int(rng.integers(-BIG // 2, BIG // 2))
        for op in ("triu", "tril"):
            add(op, {"op": op, "x": xt, "k": k}, [f"{op}_core", xt, k], cost=lambda a, xt=xt: ["cost", "tri", xt["shape"], len(xt["data"]), nnz_of(a)])
        # diagonal: plant elements on the chosen diagonal
        off = int(rng.integers(-1000, 1000))
        dpts = sorted({(r, r + off) for r in (int(v) for v in rng.integers(1000, BIG - 1000, size=6))} | {tuple(c) for c in m1["coords"]})
        xd = {"shape": list(S2), "coords": [list(p) for p in dpts], "data": [int(rng.integers(1, 9)) for _ in dpts], "fill": 0}
        add("diagonal", {"op": "diagonal", "x": xd, "offset": off, "axis1": 0, "axis2": 1}, ["diagonal_core", xd, off, 0, 1],
            cost=lambda a, xd=xd: ["cost", "diagonal", xd["shape"], len(xd["data"]), nnz_of(a)])

        # ---- conversions (lane 3) ------------------------------------------------------------------
        xc = rand_coo(rng, S3, nnz_choice(rng, quick))
        add("dok_roundtrip", {"op": "roundtrip", "x": xc}, ["convert_chain", xc, [["dok"], ["coo"]]], pick=lambda o: (o.get("steps") or [{}])[-1].get("coo"), lane=3)
        for ca in ([[0]] if quick else [[0], [1], [2], None]):
            xg = rand_coo(rng, S3 if rng.random() < 0.6 else S2, nnz_choice(rng, quick))
            if ca is not None and ca[0] >= len(xg["shape"]):
                continue
            cal = [0] if ca is None else ca
            add("gcxs_from_coo", {"op": "from_coo", "x": xg, "caxes": ca}, ["gcxs_from_coo_big", xg, ca], pick=lambda o: {"gcxs": o.get("ok")} if "ok" in o else o,
                cost=lambda a, xg=xg, cal=cal: ["cost", "from_coo", xg["shape"], len(xg["data"]), cal], lane=3, size=cells(xg) + lsum(xg["shape"]))
            # the way back: the GCXS produced by the model is handed to the implementation
            cs[-1]["then_tocoo"] = True
    return cs


def nnz_of(a):
    o = a["out"].get("ok")
    if isinstance(o, dict):
        if "data" in o:
            return len(o["data"])
        if "gcxs" in o:
            return len(o["gcxs"]["data"])
    return 1


def pick_elem(o):
    if "ok" in o:
        return o["ok"].get("sparse", o["ok"])
    return {"err": o.get("err")}


# ---------------------------------------------------------------------------------------------------
# a coordinate-dictionary reference for the operations that have no Lean model
# ---------------------------------------------------------------------------------------------------

def as_dict(x):
    return {tuple(c): v for c, v in zip(x["coords"], x["data"])}


def ref_matmul(a, b):
    """a @ b for 1-d/2-d operands, zero fill: dict of result coordinates"""
    A, B = as_dict(a), as_dict(b)
    da, db = len(a["shape"]), len(b["shape"])
    by_k = {}
    for cb, vb in B.items():
        by_k.setdefault(cb[0], []).append((cb[1:], vb))
    out = {}
    for ca, va in A.items():
        for rest, vb in by_k.get(ca[-1], ()):
            key = ca[:-1] + rest
            out[key] = out.get(key, 0) + va * vb
    shape = a["shape"][:-1] + b["shape"][1:]
    return shape, {k: v for k, v in out.items() if v != 0}


def matmul_work(a, b):
    """number of (a-entry, b-entry) products of a 2-d @ 2-d product: the `work` of Cost.dotCsrCsr"""
    per_row = {}
    for cb in b["coords"]:
        per_row[cb[0]] = per_row.get(cb[0], 0) + 1
    return sum(per_row.get(ca[-1], 0) for ca in a["coords"])


# seconds for a warm-up call (JIT compilation for the operands' index dtypes: up to ~15 s on a loaded machine) plus the measured call of one
# sparse @ sparse product of two (10^6)^2 operands (measured: 0.02 - 0.4 s; 350 s with the per-row reset); the measured call alone must
# also stay within time_budget(size) = 22 s
HUGE_DEADLINE = 60


def unmodelled_cases(rng, quick):
    """(family, worker case, reference (shape, dict) | None, deadline, expected finding id | None, size)"""
    cs = []
    G0 = ["gcxs", [0]]
    x1 = rand_coo(rng, (BIG,), 300)
    y1 = overlapping(rng, x1, 300)
    x2 = rand_coo(rng, S2, 400)
    # make the products non-empty: rows of b at the columns of a
    cols = [c[1] for c in x2["coords"][:60]]
    bp = sorted({(c, int(rng.integers(0, BIG))) for c in cols})
    b2 = {"shape": list(S2), "coords": [list(p) for p in bp], "data": [int(rng.integers(1, 5)) for _ in bp], "fill": 0}
    v1 = {"shape": [BIG], "coords": [[c] for c in sorted(set(cols))], "data": [2] * len(set(cols)), "fill": 0}
    size2 = cells(x2) + cells(b2) + 2 * BIG
    cs.append(("product:1d.1d", {"op": "product", "kind": "dot", "a": x1, "b": y1}, ref_matmul(x1, y1), 60, None, cells(x1) * 2 + BIG))
    cs.append(("product:2d@1d", {"op": "product", "kind": "matmul", "a": x2, "b": v1}, ref_matmul(x2, v1), 60, None, size2))
    cs.append(("product:1d@2d", {"op": "product", "kind": "matmul", "a": v1, "b": b2}, ref_matmul(v1, b2), 60, None, size2))
    # sparse @ sparse, 2-d (_dot_coo_coo / _dot_csr_csr): moderate sizes, and the (10^6)^2 operands that did not finish while the kernels
    # reset next_[:] = -1 once per result row (fixed: 4b845d6; 350 s measured then, ~0.3 s now).  The huge ones are must-pass cases
    # with a deadline of 60 s (warm-up included); they keep a lane of their own, behind a small product of the same kind, so that the deadline
    # measures the kernel and not its JIT compilation, and so that a regression cannot starve the other cases of their time.
    for n_ in ((30000,) if quick else (20000, 40000, 80000)):
        a = rand_coo(rng, (n_, n_), 300)
        colsa = [c[1] for c in a["coords"][:40]]
        bb = sorted({(c, int(rng.integers(0, n_))) for c in colsa})
        b = {"shape": [n_, n_], "coords": [list(p) for p in bb], "data": [int(rng.integers(1, 5)) for _ in bb], "fill": 0}
        sz = cells(a) + cells(b) + 2 * n_
        cs.append((f"product:coo@coo:{n_}", {"op": "product", "kind": "matmul", "a": a, "b": b}, ref_matmul(a, b), 90, None, sz))
        cs.append((f"product:gcxs@gcxs:{n_}", {"op": "product", "kind": "matmul", "a": a, "b": b, "format_a": G0, "format_b": G0, "untraced": True}, ref_matmul(a, b), 90, None, sz))
    sa = rand_coo(rng, (50, 50), 30)
    sb = rand_coo(rng, (50, 50), 30)
    cs.append(("product:coo@coo:jit", {"op": "product", "kind": "matmul", "a": sa, "b": sb, "slow_lane": True}, ref_matmul(sa, sb), 150, None, None))
    cs.append(("product:coo@coo:huge", {"op": "product", "kind": "matmul", "a": x2, "b": b2, "slow_lane": True}, ref_matmul(x2, b2), HUGE_DEADLINE, None, size2))
    cs.append(("product:gcxs@gcxs:jit", {"op": "product", "kind": "matmul", "a": sa, "b": sb, "format_a": G0, "format_b": G0, "slow_lane": True},
               ref_matmul(sa, sb), 150, None, None))
    cs.append(("product:gcxs@gcxs:huge", {"op": "product", "kind": "matmul", "a": x2, "b": b2, "format_a": G0, "format_b": G0, "slow_lane": True, "untraced": True},
               ref_matmul(x2, b2), HUGE_DEADLINE, None, size2))
    x3 = rand_coo(rng, S3, 400)
    s3 = cells(x3) + 3 * BIG
    # GCXS with several compressed axes: indptr of prod(extents)+1 cells
    cs.append(("gcxs:from_coo(0,1)", {"op": "from_coo", "x": x3, "caxes": [0, 1]}, None, 60, "F-c16-gcxs-indptr-product", s3))
    cs.append(("gcxs:asformat(0,1)", {"op": "asformat", "x": x3, "to": "gcxs", "kwargs": {"compressed_axes": [0, 1]}}, None, 60, "F-c16-gcxs-indptr-product", s3))
    # var / std materialise x - mean
    cs.append(("var(axis=0)", {"op": "method", "x": x2, "name": "var", "kwargs": {"axis": 0}}, None, 60, "F-c16-var-densifies", size2))
    cs.append(("std(axis=1)", {"op": "method", "x": x2, "name": "std", "kwargs": {"axis": 1}}, None, 60, "F-c16-var-densifies", size2))
    cs.append(("mean(axis=0)", {"op": "method", "x": x2, "name": "mean", "kwargs": {"axis": 0}}, None, 60, None, size2))
    # GCXS-format operations, single compressed axis
    hit = x3["coords"][7]
    cs.append(("gcxs:transpose", {"op": "transpose", "x": x3, "axes": [2, 0, 1], "format": G0}, ("coo", ["transpose_core", x3, [2, 0, 1]]), 90, None, s3))
    cs.append(("gcxs:reshape", {"op": "reshape", "x": x3, "shape": [BIG**2, BIG], "format": G0}, ("coo", ["reshape_core", x3, [BIG**2, BIG]]), 90, None, s3))
    cs.append(("gcxs:negative", {"op": "elemwise", "func": "negative", "operands": [{"coo": x3}], "format": G0}, ("elem", ["elemwise", "negative", [{"coo": x3}]]), 90, None, s3))
    cs.append(("gcxs:sum(1,2)", {"op": "reduce", "ufunc": "add", "x": x3, "axes": [1, 2], "keepdims": False, "format": G0}, ("coo", ["reduce", "add", x3, [1, 2], False]), 90, None, s3))
    cs.append(("gcxs:sum()", {"op": "reduce", "ufunc": "add", "x": x3, "axes": None, "keepdims": False, "format": G0}, ("coo", ["reduce", "add", x3, None, False]), 90, None, s3))
    cs.append(("gcxs:sum(0)", {"op": "reduce", "ufunc": "add", "x": x3, "axes": [0], "keepdims": False, "format": G0}, ("coo", ["reduce", "add", x3, [0], False]), 90, "F-c16-gcxs-reduce-product", s3))
    cs.append(("gcxs:x[i]", {"op": "getitem", "x": x3, "index": [["i", hit[0]]], "format": G0}, ("coo", ["getitem", x3, [["i", hit[0]]]]), 90, "F-c16-gcxs-getitem-product", s3))
    xg2 = rand_coo(rng, S2, 300)
    h2 = xg2["coords"][5]
    sg2 = cells(xg2) + 2 * BIG
    cs.append(("gcxs2d:x[i]", {"op": "getitem", "x": xg2, "index": [["i", h2[0]]], "format": G0}, ("coo", ["getitem", xg2, [["i", h2[0]]]]), 90, None, sg2))
    cs.append(("gcxs2d:x[:,j]", {"op": "getitem", "x": xg2, "index": [["s", None, None, None], ["i", h2[1]]], "format": G0}, ("coo", ["getitem", xg2, [["s", None, None, None], ["i", h2[1]]]]), 120, None, sg2))
    cs.append(("gcxs2d:x[a:b:2]", {"op": "getitem", "x": xg2, "index": [["s", 10, None, 2]], "format": G0}, ("coo", ["getitem", xg2, [["s", 10, None, 2]]]), 120, None, sg2))
    cs.append(("gcxs:change_compressed_axes", {"op": "method", "x": x3, "name": "change_compressed_axes", "args": [[1]], "format": G0}, ("same", x3), 90, None, s3))
    cs.append(("gcxs:todok", {"op": "asformat", "x": x3, "to": "dok", "format": G0}, ("same", x3), 90, None, s3))
    cs.append(("dok:x[i,j,k]", {"op": "getitem", "x": x3, "index": [["i", hit[0]], ["i", hit[1]], ["i", hit[2]]], "format": "dok"}, ("coo", ["getitem", x3, [["i", hit[0]], ["i", hit[1]], ["i", hit[2]]]]), 60, None, s3))
    cs.append(("dok:x[::2]", {"op": "getitem", "x": x3, "index": [["s", None, None, 2]], "format": "dok"}, ("coo", ["getitem", x3, [["s", None, None, 2]]]), 60, None, s3))
    cs += odd_extent_cases(rng, quick)
    cs += long_axis_cases(rng, quick)
    cs += broadcast_all_cases(rng, quick)
    return cs


def odd_extent_cases(rng, quick):
    """everything that flattens, on a (1000003, 999983, 1000033) / (2000000011, 1999999973) array: flatten(), reshape(-1), argmax over all axes,
    unique_values, concatenate / roll / take with axis=None, for every format that offers the operation.  Lane 6."""
    cs = []
    G0 = ["gcxs", [0]]
    for shp in ((ODD3,) if quick else (ODD3, ODD2)):
        x = rand_coo(rng, shp, 300)
        y = rand_coo(rng, shp, 200)
        N = int(np.prod(shp, dtype=object))
        size = cells(x) + lsum(shp)
        flat = ["reshape_core", x, [N]]
        tag = "x".join(str(d) for d in shp)
        for fname, fmt in (("coo", None), ("gcxs", G0), ("dok", "dok")):
            if fname == "gcxs" and max(shp) > 10**8:
                continue    # indptr alone (one entry per row of the compressed axis: linear in the axis, which the property allows) exceeds RLIMIT_AS
            w = {"lane": 6} if fmt is None else {"lane": 6, "format": fmt}
            if fname != "dok":     # DOK offers no flatten()
                cs.append((f"odd:{fname}:flatten:{tag}", dict(w, op="method", x=x, name="flatten"), ("coo", flat), 90, None, size))
            cs.append((f"odd:{fname}:reshape(-1):{tag}", dict(w, op="reshape", x=x, shape=[-1]), ("coo", flat), 90, None, size))
            cs.append((f"odd:{fname}:reshape(-1,1):{tag}", dict(w, op="fn", name="reshape", xs=[x], args=[[-1, 1]]), ("coo", ["reshape_core", x, [N, 1]]), 90, None, size))
        # argmax over all axes: the first position (row-major) of the largest stored value (values are positive, the fill is 0)
        lins = [lin_index(c, shp) for c in x["coords"]]
        best = max(x["data"])
        cs.append((f"odd:argmax:{tag}", {"lane": 6, "op": "fn", "name": "argmax", "xs": [x]}, ("json", {"scalar": lins[x["data"].index(best)]}), 120, None, size))
        cs.append((f"odd:unique_values:{tag}", {"lane": 6, "op": "fn", "name": "unique_values", "xs": [x]}, ("json", {"ndarray": sorted(set(x["data"]) | {0})}), 90, None, size))
        both = {(v,): d for v, d in zip(lins, x["data"])}
        both.update({(N + lin_index(c, shp),): d for c, d in zip(y["coords"], y["data"])})
        cs.append((f"odd:concatenate(axis=None):{tag}", {"lane": 6, "op": "fn", "name": "concatenate", "xs": [x, y], "as_list": True, "kwargs": {"axis": None}},
                   ("json", coo_of([2 * N], both)), 90, None, size + cells(y)))
        shift = int(rng.integers(1, 10**13))
        rolled = {tuple(unravel((v + shift) % N, shp)): d for v, d in zip(lins, x["data"])}
        cs.append((f"odd:roll(axis=None):{tag}", {"lane": 6, "op": "fn", "name": "roll", "xs": [x], "args": [shift], "kwargs": {"axis": None}},
                   ("json", coo_of(shp, rolled)), 90, None, size))
        pick = [lins[5], 0, lins[17], N - 1, lins[5]]
        look = dict(zip(lins, x["data"]))
        taken = {(k,): look[v] for k, v in enumerate(pick) if v in look}
        cs.append((f"odd:take(axis=None):{tag}", {"lane": 6, "op": "fn", "name": "take", "xs": [x], "args": [{"array": pick}], "kwargs": {"axis": None}},
                   ("json", coo_of([len(pick)], taken)), 120, None, size))
    return cs


def long_axis_cases(rng, quick):
    """indexing along ONE astronomically long axis (2**40 .. 2**62 positions) holding one or a few stored entries: slices of every sign, an integer
    on the short axis of a 2-d array; COO and DOK against the Lean model.  The size measure leaves the extent out on purpose: the call has to cost
    the stored entries, not the axis (`_compute_mask` leaves the pair search for the linear filter).  Lane 6."""
    cs = []
    for n in ((2 ** 40, 2 ** 62) if quick else (2 ** 40, 2 ** 50, 2 ** 62, 2 ** 62 + 12345)):
        for nnz in (1, 5):
            pos = sorted({int(v) for v in rng.integers(2, n - 2, size=nnz)})
            x1 = {"shape": [n], "coords": [[q] for q in pos], "data": list(range(1, len(pos) + 1)), "fill": 0}
            a_, b_ = pos[0] - 1, pos[-1] + 2
            idx1 = [[["s", 1, None, None]], [["s", None, -1, None]], [["s", a_, b_, 3]], [["s", None, None, 2]], [["s", None, None, -1]], [["s", b_, a_, -2]],
                    [["s", 3, -3, None]]]
            n2 = min(n, 2 ** 60)          # 3 * n2 < 2**63: the linear index of the 2-d array stays in the intp range
            pos = [q % n2 for q in pos] if n2 < n else pos
            pos = sorted(set(pos))
            a_ = pos[0] - 1
            x2 = {"shape": [3, n2], "coords": sorted([[1, pos[0]]] + [[int(rng.integers(0, 3)), q] for q in pos[1:]]), "data": list(range(1, len(pos) + 1)), "fill": 0}
            idx2 = [[["i", 1], ["s", a_, None, None]], [["s", None, None, None], ["s", None, None, 2]], [["i", 1], ["s", None, -1, None]]]
            for fname, fmt in (("coo", None), ("dok", "dok")):
                for x, idxs in ((x1, idx1), (x2, idx2)):
                    for ix in idxs:
                        if quick and ix not in (idx1[0], idx1[1], idx2[0]) and rng.random() < 0.6:
                            continue
                        w = {"lane": 6, "op": "getitem", "x": x, "index": ix, "bucket": f"long:{fname}"}
                        if fmt:
                            w["format"] = fmt
                        cs.append((f"long:{fname}:{len(x['shape'])}d:2^{n.bit_length() - 1}:nnz{len(pos)}", w, ("coo", ["getitem", x, ix]), 20, None, cells(x) * 2 + 1000))
    return cs


def broadcast_all_cases(rng, quick):
    """fill-preserving binary operations between a huge array and a SPARSE operand every axis of which has length 1 (shape (1,), (1, 1),
    (1, 1, 1): broadcast along every axis), both operand orders, every format: the result has the stored positions of the huge operand.  Lane 6."""
    cs = []
    G0 = ["gcxs", [0]]
    shapes = [(1,), (1, 1, 1)] if quick else [(1,), (1, 1), (1, 1, 1)]
    for xshape in ((S3,) if quick else (S3, S2, ODD3)):
        x = rand_coo(rng, xshape, 300, lo=1, hi=8)
        size = cells(x) * 2 + lsum(xshape)
        for sshape in shapes:
            if len(sshape) > len(xshape):
                continue
            v = int(rng.integers(2, 7))
            s = {"shape": list(sshape), "coords": [[0] * len(sshape)], "data": [v], "fill": 0}
            for func, f in (("multiply", lambda a, b: a * b), ("minimum", min)):
                ref = (list(xshape), {tuple(c): f(d, v) for c, d in zip(x["coords"], x["data"])})
                for fname, fx, fs in (("coo", None, None), ("gcxs", G0, ["gcxs", None if len(sshape) == 1 else [0]]), ("dok", "dok", "dok")):
                    for order in ("xs", "sx"):
                        if quick and rng.random() < 0.35:
                            continue
                        ox = {"coo": x} if fx is None else {"coo": x, "format": fx}
                        os_ = {"coo": s} if fs is None else {"coo": s, "format": fs}
                        ops = [ox, os_] if order == "xs" else [os_, ox]
                        w = {"lane": 6, "op": "elemwise", "func": func, "operands": ops}
                        if fx is not None:
                            w["want_coo"] = True
                        cs.append((f"bcast-all:{fname}:{func}:{order}:{'x'.join(map(str, sshape))}:{len(xshape)}d", w, ref, 90, None, size))
    return cs


# ---------------------------------------------------------------------------------------------------
# reductions over every data dtype kind x every reduction x every proper axis subset (3-d and 4-d) x dtype= x keepdims
# ---------------------------------------------------------------------------------------------------

# four huge axes; 4.5e17 logical elements, so that size * itemsize stays below 2**63 for 16-byte values too (see S4BIG)
S4 = (30000, 20000, 50000, 15000)
# 1.2e18 elements: addressable (linear index < 2**63) but size * 8 > 2**63 — the region of F-c16-dense-operand-view-limit
S4BIG = (30000, 20000, 50000, 40000)
KINDS = ["float64", "float32", "int64", "bool", "complex128"]
REDUCTIONS = ["sum", "prod", "max", "min", "any", "all", "mean", "nansum"]
WITH_DTYPE = {"sum", "prod", "mean", "nansum"}


def kind_value(v, kind):
    if kind == "bool":
        return True
    if kind.startswith("complex"):
        return complex(v, v)
    if kind.startswith("float"):
        return float(v)
    return int(v)


def reduce_ref(x, kind, name, axes, kd):
    """the reduction of a zero-filled array whose lanes are longer than its number of stored elements (every lane holds a fill value):
    -> {"shape", "coords", "data"} with the values as Python numbers; entries equal to the result's fill value (0) are not stored"""
    shape = x["shape"]
    nd = len(shape)
    kept = [a for a in range(nd) if a not in axes]
    L = 1
    for a in axes:
        L *= shape[a]
    lanes = {}
    for c, v in zip(x["coords"], x["data"]):
        lanes.setdefault(tuple(c[a] for a in kept), []).append(kind_value(v, kind))
    out = {}
    for key, vals in lanes.items():
        assert len(vals) < L
        if name in ("sum", "nansum"):
            r = sum(vals[1:], vals[0]) if not isinstance(vals[0], bool) else sum(int(v) for v in vals)
        elif name == "prod":
            r = 0
        elif name == "max":
            r = max(max(vals), 0)
        elif name == "min":
            r = min(min(vals), 0)
        elif name == "any":
            r = int(any(v != 0 for v in vals))
        elif name == "all":
            r = 0
        elif name == "mean":
            tot = sum(int(v) for v in vals) if isinstance(vals[0], bool) else sum(vals[1:], vals[0])
            r = tot / L
        else:
            raise ValueError(name)
        if r != 0:
            if kd:
                full = [0] * nd
                for a, k in zip(kept, key):
                    full[a] = k
                key = tuple(full)
            out[key] = r
    rshape = [1 if a in axes else shape[a] for a in range(nd)] if kd else [shape[a] for a in kept]
    keys = sorted(out)
    return {"shape": rshape, "coords": [list(k) for k in keys], "data": [out[k] for k in keys]}


def as_complex(v):
    return complex(*v) if isinstance(v, list) else complex(v)


def typed_differs(got, want, tol):
    """None when the typed result `got` of the worker equals the reference `want` (coordinates exactly, values within `tol` relative)"""
    if not isinstance(got, dict) or "coords" not in got:
        return f"result is not a sparse array: {short(got, 160)}"
    if got["shape"] != want["shape"]:
        return f"shape {got['shape']} instead of {want['shape']}"
    if abs(as_complex(got["fill"])) != 0:
        return f"fill value {got['fill']} instead of 0"
    # a stored -0.0 (NumPy's own result where a negative product meets the zero fill) is numerically the fill value: not compared
    keep = [k for k, v in enumerate(got["data"]) if as_complex(v) != 0]
    got = dict(got, coords=[got["coords"][k] for k in keep], data=[got["data"][k] for k in keep])
    if got["coords"] != want["coords"]:
        return f"stored coordinates differ: {len(got['coords'])} stored, reference {len(want['coords'])}: {short(got['coords'], 120)} vs {short(want['coords'], 120)}"
    for c, a, b in zip(got["coords"], got["data"], want["data"]):
        a, b = as_complex(a), as_complex(b)
        if abs(a - b) > tol * max(abs(b), 1e-300):
            return f"value at {c}: {a} instead of {b}"
    return None


def planted(rng, shape, n, signed):
    """n stored elements, several of them sharing lanes along every axis"""
    x = rand_coo(rng, shape, n, lo=-3 if signed else 1, hi=5)
    pts = {tuple(c) for c in x["coords"]}
    base = x["coords"][: max(4, n // 8)]
    for b in base:
        for ax in range(len(shape)):
            q = list(b)
            q[ax] = int(rng.integers(0, shape[ax]))
            pts.add(tuple(q))
    pts = sorted(pts)
    vals = []
    for _ in pts:
        v = int(rng.integers(-3 if signed else 1, 6))
        vals.append(v if v else 2)
    return {"shape": list(shape), "coords": [list(q) for q in pts], "data": vals, "fill": 0}


def reduce_sweep(rng, quick):
    """-> list of batches {"w": worker case, "items": [(name, axes, dtype argument, keepdims)], "refs": […], "kind", "tol"}"""
    import itertools as it
    batches = []
    for shape in (S3, S4):
        nd = len(shape)
        subsets = [list(t) for k in range(1, nd) for t in it.combinations(range(nd), k)]
        for kind in KINDS:
            x = planted(rng, shape, 40, signed=kind not in ("bool",))
            if kind == "bool":
                x["data"] = [1] * len(x["data"])
            x["dtype"] = kind
            names = [r for r in REDUCTIONS if not (kind.startswith("complex") and r in ("max", "min"))]
            items = []
            for name in names:
                if quick:
                    # keeping one, two and (4-d) three huge axes, always once without dtype=; the rest drawn at random
                    must = [[0], [0, 1]] if nd == 3 else [[1], [0, 3], [0, 1, 2]]
                    chosen = must + [subsets[int(k)] for k in rng.choice(len(subsets), size=1)]
                else:
                    chosen = subsets
                for j, axes in enumerate(chosen):
                    dts = [None]
                    if name in WITH_DTYPE and (not quick or rng.random() < 0.5):
                        dts.append("complex128" if kind.startswith("complex") else "float64")
                    for dt in dts:
                        for kd in ((bool((j + len(name)) % 2),) if quick else (False, True)):
                            ax = [a - nd if rng.random() < 0.25 else a for a in axes]
                            items.append([name, ax, dt, kd])
            refs = [reduce_ref(x, kind, name, [a % nd for a in ax], kd) for name, ax, dt, kd in items]
            batches.append({"w": {"op": "reduce_batch", "x": x, "items": items}, "items": items, "refs": refs, "kind": kind,
                            "tol": 1e-5 if kind == "float32" else 1e-9, "size": cells(x) + lsum(shape)})
    # beyond 2**63 / 8 elements: sum / max / mean complete; nansum replaces NaN through where(isnan(x), 0, x), a mixed operation (known finding)
    x = planted(rng, S4BIG, 30, signed=True)
    x["dtype"] = "float64"
    items = [["sum", [0], None, False], ["max", [1, 2], None, True], ["mean", [0, 3], None, False], ["nansum", [0], None, False]]
    batches.append({"w": {"op": "reduce_batch", "x": x, "items": items}, "items": items, "refs": [reduce_ref(x, "float64", n_, a_, k_) for n_, a_, _, k_ in items],
                    "kind": "float64", "tol": 1e-9, "size": cells(x) + lsum(S4BIG)})
    return batches


# ---------------------------------------------------------------------------------------------------
# mixed operations: a huge sparse array and a small dense ndarray of every broadcastable shape
# ---------------------------------------------------------------------------------------------------

def dense_at(g, xshape, c):
    """the value the generated dense operand (c16_worker.dense_gen) contributes at coordinate c of the broadcast shape"""
    dshape = g["shape"]
    off = len(xshape) - len(dshape)
    k = 0
    for j, d in enumerate(dshape):
        k = k * d + (c[off + j] if d != 1 else 0)
    return g.get("sign", 1) * ((k * 7 + 3) % g["m"] + 1)


MIXED_FUNCS = {
    # name: (python function of (stored value, dense value), sign of the dense operand, orders, sparse values signed?)
    "multiply": (lambda v, d: v * d, 1, ("xd", "dx"), True),
    "divide": (lambda v, d: v / d, 1, ("xd",), True),
    "minimum": (lambda v, d: min(v, d), 1, ("xd", "dx"), False),       # dense > 0: min(0, d) = 0
    "maximum": (lambda v, d: max(v, d), -1, ("xd", "dx"), True),       # dense < 0: max(0, d) = 0
    "bitwise_and": (lambda v, d: v & d, 1, ("xd", "dx"), False),
}


def mixed_cases(rng, quick):
    """-> list of (family, worker case, reference, size, cost request)"""
    cs = []
    G0 = ["gcxs", [0]]
    for xshape in ((S3,) if quick else (S3, S2, ODD3)):
        nd = len(xshape)
        dshapes = [[xshape[-1]], [1] * (nd - 1) + [xshape[-1]], [xshape[-2], 1], [xshape[0]] + [1] * (nd - 1), [], [1], [1] * nd]
        if nd == 3:
            dshapes += [[1, xshape[1], 1], [1, xshape[2]]]
        xs = {True: planted(rng, xshape, 120, signed=True), False: planted(rng, xshape, 120, signed=False)}
        for dshape in dshapes:
            for func, (f, sign, orders, signed) in MIXED_FUNCS.items():
                x = xs[signed]
                g = {"shape": dshape, "m": int(rng.integers(3, 9)), "sign": sign, "dtype": "int64"}
                D = 1
                for d in dshape:
                    D *= d
                ref = {}
                for c, v in zip(x["coords"], x["data"]):
                    r = f(v, dense_at(g, xshape, c))
                    if r != 0:
                        ref[tuple(c)] = r
                keys = sorted(ref)
                want = {"shape": list(xshape), "coords": [list(k) for k in keys], "data": [ref[k] for k in keys]}
                for fname, fmt in (("coo", None), ("gcxs", G0), ("dok", "dok")):
                    for order in orders:
                        # the quick tier always runs the vector along the last axis for every function, format and order; the rest is sampled
                        if quick and dshape != dshapes[0] and rng.random() < 0.8:
                            continue
                        w = {"op": "mixed", "x": x, "dense": g, "func": func, "order": order, "typed": True}
                        if fmt is not None:
                            w["format"] = fmt
                        fam = f"mixed:{fname}:{func}:{order}:{'x'.join(map(str, dshape)) or '0d'}:{nd}d"
                        cs.append((fam, w, want, cells(x) * 2 + lsum(xshape) + D, ["cost", "elemwise_mixed", list(xshape), len(x["data"]), len(keys), D]))
    return cs


def time_budget(size):
    return budget_cpu(size)


def result_as_coo(out):
    """implementation answer -> COO json (GCXS results are compared through their own tocoo())"""
    o = out.get("ok")
    if isinstance(o, dict):
        if "gcxs" in o:
            return o.get("coo")
        if "dok" in o:
            return o["dok"]
    return o


# ---------------------------------------------------------------------------------------------------
# the run
# ---------------------------------------------------------------------------------------------------

def short(o, n=400):
    s = json.dumps(o, default=str)
    return s if len(s) <= n else s[:n] + "…"


def small_case(c):
    """the replayable description of a case without the megabytes"""
    w = c if "op" in c else c["w"]
    return json.loads(json.dumps(w))


def big_variants(ctx, rng, n):
    """Model/Big.lean against the definitions it replaces, through the driver, on small inputs (also proved: Lemmas/Big.lean)"""
    reqs = []
    for _ in range(n):
        R = int(rng.integers(0, 9))
        rows = sorted(int(v) for v in rng.integers(0, R + 1, size=int(rng.integers(0, 9)))) if R else []
        rows = [r for r in rows if r < max(R, 1)] if R else []
        reqs.append(["indptr_both", rows, R])
        inc = np.cumsum(rng.integers(0, 4, size=int(rng.integers(0, 7)))).tolist()
        reqs.append(["uncompress_both", [0] + [int(v) for v in inc] if rng.random() < 0.9 else []])
    outs = ctx.driver.run(reqs)
    for r, o in zip(reqs, outs):
        ctx.case("A:big_variant", r, nontrivial=bool(r[1]))
        v = o.get("ok")
        if not v or v[0] != v[1]:
            ctx.fail("A", "model:big_variant", r, f"sparse-safe evaluation {o} differs from the definition it replaces")


def run(ctx):
    ctx.trusted = TRUSTED
    ctx.assumptions = ["int64 values small enough not to overflow (the model computes in unbounded integers)",
                       "tracemalloc sees NumPy's and Python's allocations, not numba's NRT heap",
                       "time budgets are CPU time of the worker (time.process_time): 70 + 3.5e-4 per cell of (stored cells in + out + Σ shape) units, one unit being the "
                       "CPU time of a reference computation (NumPy sort of 10^6 doubles + a jitted loop) measured at the start of the run; wall-clock limits only detect "
                       "hangs (stretched by the observed contention and the load per CPU) and every miss is confirmed by a retry that runs alone"]
    core.prove(ctx, PID, uses=["normalizeAxisInt", "checkIndexInt", "replaceNone", "posifySlice", "posifyInt", "clipSlice", "bcastOk", "bcastDim"])
    rng = gen.rng_for(ctx.seed, PID)
    quick = ctx.quick
    CAL.update(rescued=[], confirmed=[])
    calibrate()
    core.log(f"C16: reference computation {CAL['ref']} (unit {CAL['unit']:.4f} s CPU), slowdown {CAL['slowdown_at_start']}, load/cpu {loadtol.load_per_cpu():.2f}")
    big_variants(ctx, rng, 100 if quick else 1000)

    cases = mk_cases(rng, quick)
    extra = unmodelled_cases(rng, quick)
    # lanes: 0..3 modelled families, 4 = GCXS/DOK-format and products, 5 = the (10^6)^2 sparse @ sparse products (short deadline),
    # 6 = odd extents (everything that flattens) and operands broadcast along every axis;
    # 7.. = see below
    lanes = [[] for _ in range(7)]
    where = []
    for i, c in enumerate(cases):
        lanes[c["lane"]].append((c["w"], 150))
        where.append((c["lane"], len(lanes[c["lane"]]) - 1))
    where_x = []
    for fam, w, ref, deadline, expect, size in extra:
        w = dict(w)
        slow = bool(w.pop("slow_lane", False))
        ln = w.pop("lane", 5 if slow else 4)
        w["warm"] = True
        if ref is not None and (w.get("format") or w.get("format_a")):
            w["want_coo"] = True
        lanes[ln].append((w, deadline))
        where_x.append((ln, len(lanes[ln]) - 1))
    # lanes 7, 8: the reduction sweep (batches alternate); lanes 9, 10: mixed sparse-dense operations
    sweep = reduce_sweep(rng, quick)
    lanes += [[], [], [], []]
    where_s = []
    for k, b in enumerate(sweep):
        ln = 7 + k % 2
        lanes[ln].append((b["w"], 600))
        where_s.append((ln, len(lanes[ln]) - 1))
    mixed = mixed_cases(rng, quick)
    where_m = []
    for k, (fam, w, want, size, creq) in enumerate(mixed):
        ln = 9 + k % 2
        lanes[ln].append((dict(w, warm=True), 120))
        where_m.append((ln, len(lanes[ln]) - 1))
    t0 = time.time()
    res = run_lanes(lanes)
    confirm_timeouts(lanes, res, core.log)
    ctx.notes["worker_wall_s"] = round(time.time() - t0, 1)

    # ---- modelled families: model answers, cost answers ----------------------------------------
    answers = [res[l][j] for l, j in where]
    mreqs = [c["m"] for c in cases]
    t0 = time.time()
    mouts = ctx.driver.run(mreqs)
    ctx.notes["model_wall_s"] = round(time.time() - t0, 1)
    creqs, cidx = [], []
    for i, (c, a) in enumerate(zip(cases, answers)):
        if c["cost"] is not None and "ok" in a["out"]:
            creqs.append(c["cost"](a))
            cidx.append(i)
    couts = ctx.driver.run(creqs)
    cost_of = {i: o.get("ok") for i, o in zip(cidx, couts)}
    ratios = {}
    tocoo_reqs, tocoo_cases = [], []
    for i, (c, a, mo) in enumerate(zip(cases, answers, mouts)):
        fam = c["fam"]
        desc = small_case(c)
        ctx.case(f"A:{fam}", desc, nontrivial=True)
        out = a["out"]
        want = c["pick"](mo)
        if "bad" in mo:
            ctx.fail("A", f"model:{fam}", desc, f"driver rejected the request: {mo}")
            continue
        if out.get("err") in ("timeout", "crash", "memory"):
            msg = f"did not complete under RLIMIT_AS={LIMIT >> 30} GiB / deadline: {short(out)} (the model returns {short(want, 120)})"
            ctx.fail("C", fam, desc, msg, finding=findings.classify(PID, fam, desc, msg))
            continue
        got = out.get("ok") if "ok" in out else {"err": out.get("err")}
        if got != want:
            msg = f"result differs from the sparse oracle: implementation {short(got)} model {short(want)}"
            # the model is the reference on shapes whose dense form cannot exist: a difference is a failing input of the property
            ctx.fail("C", fam, desc, msg, finding=findings.classify(PID, fam, desc, msg))
            continue
        # resources
        co = cost_of.get(i)
        secs, peak = a.get("secs", 0.0), a.get("peak", 0)
        if co:
            cost, size, K = co["cost"], co["size"], co["K"]
            if cost > K * size:
                ctx.fail("A", f"cost:{fam}", desc, f"opCost {cost} exceeds K*size = {K}*{size} (contradicts opCost_sparse_bound)")
            r = peak / (8.0 * max(cost, 1))
            st = ratios.setdefault(fam, [])
            st.append(round(r, 2))
            if peak > C_MAX * 8 * cost + SLACK:
                msg = f"tracemalloc peak {peak} bytes exceeds {C_MAX}*8*opCost + slack = {C_MAX * 8 * cost + SLACK} (opCost {cost} cells, size {size})"
                ctx.fail("C", fam, desc, msg, finding=findings.classify(PID, fam, desc, msg))
            msg = over_budget(a, size, c["w"])
            if msg:
                ctx.fail("C", fam, desc, msg, finding=findings.classify(PID, fam, desc, msg))
        if c.get("then_tocoo") and "ok" in mo:
            tocoo_reqs.append(["gcxs_tocoo_big", mo["ok"]])
            tocoo_cases.append((c, mo["ok"]))
    # GCXS -> COO on the model's GCXS
    if tocoo_reqs:
        touts = ctx.driver.run(tocoo_reqs)
        lane = [({"op": "tocoo", "g": g, "warm": True}, 150) for _, g in tocoo_cases]
        tres_ = run_lanes([lane])
        confirm_timeouts([lane], tres_, core.log)
        tres = tres_[0]
        creq = [["cost", "tocoo", g["shape"], len(g["data"])] for _, g in tocoo_cases]
        cres = ctx.driver.run(creq)
        for (c, g), mo, a, co in zip(tocoo_cases, touts, tres, cres):
            desc = {"op": "tocoo", "from": small_case(c)}
            ctx.case("A:gcxs_tocoo", desc)
            out = a["out"]
            if out.get("err") in ("timeout", "crash", "memory"):
                msg = f"did not complete: {short(out)}"
                ctx.fail("C", "gcxs_tocoo", desc, msg, finding=findings.classify(PID, "gcxs_tocoo", desc, msg))
            elif out.get("ok") != mo.get("ok"):
                msg = f"result differs from the sparse oracle: implementation {short(out)} model {short(mo)}"
                ctx.fail("C", "gcxs_tocoo", desc, msg, finding=findings.classify(PID, "gcxs_tocoo", desc, msg))
            else:
                if out.get("ok") != c["w"]["x"]:
                    ctx.fail("C", "gcxs_tocoo", desc, "COO -> GCXS -> COO is not the identity on a canonical array")
                cost = co["ok"]["cost"]
                ratios.setdefault("gcxs_tocoo", []).append(round(a.get("peak", 0) / (8.0 * max(cost, 1)), 2))
                if a.get("peak", 0) > C_MAX * 8 * cost + SLACK:
                    msg = f"tracemalloc peak {a.get('peak')} exceeds {C_MAX}*8*opCost (opCost {cost})"
                    ctx.fail("C", "gcxs_tocoo", desc, msg, finding=findings.classify(PID, "gcxs_tocoo", desc, msg))

    # ---- operations without a Lean model ----------------------------------------------------------
    mreqs2, midx = [], []
    for k, (fam, w, ref, deadline, expect, size) in enumerate(extra):
        if isinstance(ref, tuple) and ref and ref[0] in ("coo", "elem"):
            mreqs2.append(ref[1])
            midx.append(k)
    mo2 = dict(zip(midx, ctx.driver.run(mreqs2)))
    timing = {}
    skipped_after_misses = []
    for k, ((fam, w, ref, deadline, expect, size), (ln, j)) in enumerate(zip(extra, where_x)):
        a = res[ln][j]
        out = a["out"]
        desc = small_case(w)
        desc["family"] = fam
        ctx.case(f"C:{fam.split(':')[0]}", desc)
        if out.get("err") == "skipped":
            skipped_after_misses.append(fam)
            continue
        if "secs" in a:
            timing[fam] = {"secs": a["secs"], "peak": a.get("peak")}
        if out.get("err") in ("timeout", "crash", "memory"):
            msg = f"did not complete under RLIMIT_AS={LIMIT >> 30} GiB / {deadline}s: {short(out, 200)}"
            ctx.fail("C", fam, desc, msg, finding=findings.classify(PID, fam, desc, msg))
            continue
        if "err" in out:
            msg = f"raised {out.get('type')}: {out.get('msg', '')[:160]}"
            ctx.fail("C", fam, desc, msg, finding=findings.classify(PID, fam, desc, msg))
            continue
        got = result_as_coo(out)
        want = None
        if isinstance(ref, tuple) and ref and ref[0] in ("coo", "elem"):
            m = mo2[k]
            want = pick_elem(m) if ref[0] == "elem" else ok_coo(m)
        elif isinstance(ref, tuple) and ref and ref[0] in ("same", "json"):
            want = ref[1]
        elif isinstance(ref, tuple):
            shape, d = ref
            keys = sorted(d)
            if shape == []:
                want = {"scalar": d.get((), 0)}
            else:
                want = {"shape": shape, "coords": [list(kk) for kk in keys], "data": [d[kk] for kk in keys], "fill": 0}
        if want is not None and got != want:
            msg = f"result differs from the sparse reference: implementation {short(got)} reference {short(want)}"
            ctx.fail("C", fam, desc, msg, finding=findings.classify(PID, fam, desc, msg))
            continue
        msg = over_budget(a, size, dict({k_: v_ for k_, v_ in w.items() if k_ not in ("slow_lane", "lane")}, warm=True,
                                        **({"want_coo": True} if ref is not None and (w.get("format") or w.get("format_a")) else {})), deadline)
        if msg:
            ctx.fail("C", fam, desc, msg, finding=findings.classify(PID, fam, desc, msg))
        if size is not None and a.get("peak", 0) > C_MAX * 8 * size + SLACK:
            msg = f"tracemalloc peak {a.get('peak')} bytes exceeds {C_MAX}*8*size (size {size} = stored cells in/out + Σ shape)"
            ctx.fail("C", fam, desc, msg, finding=findings.classify(PID, fam, desc, msg))

    # ---- the reduction sweep ---------------------------------------------------------------------------
    sweep_stats = {"items": 0, "by_kind": {}, "by_reduction": {}, "max_peak": 0, "max_secs": 0.0}
    for b, (ln, j) in zip(sweep, where_s):
        a = res[ln][j]
        shape_tag = "x".join(str(d) for d in b["w"]["x"]["shape"])
        if "ok" not in a["out"]:
            desc = {"op": "reduce_batch", "x": b["w"]["x"], "items": b["items"][:3], "family": f"reduce-sweep:{b['kind']}:{shape_tag}"}
            msg = f"the batch of {len(b['items'])} reductions did not complete under RLIMIT_AS={LIMIT >> 30} GiB / 600s: {short(a['out'], 200)}"
            ctx.fail("C", f"reduce-sweep:{b['kind']}", desc, msg, finding=findings.classify(PID, "reduce-sweep", desc, msg))
            continue
        for item, want, r in zip(b["items"], b["refs"], a["out"]["ok"]["items"]):
            name, ax, dt, kd = item
            fam = f"reduce-sweep:{b['kind']}:{name}"
            desc = {"op": "reduce_batch", "x": b["w"]["x"], "items": [item], "family": f"{fam}:axis={ax}:dtype={dt}:keepdims={kd}:{shape_tag}"}
            ctx.case(f"C:reduce-sweep:{b['kind']}:{name}", {"shape": b["w"]["x"]["shape"], "nnz": len(b["w"]["x"]["data"]), "item": item, "x0": b["w"]["x"]["coords"][0]})
            sweep_stats["items"] += 1
            sweep_stats["by_kind"][b["kind"]] = sweep_stats["by_kind"].get(b["kind"], 0) + 1
            sweep_stats["by_reduction"][name] = sweep_stats["by_reduction"].get(name, 0) + 1
            out = r["out"]
            if "err" in out:
                msg = (f"{name}(axis={tuple(ax)}, dtype={dt}, keepdims={kd}) of a {b['kind']} array of shape {tuple(b['w']['x']['shape'])} with {len(b['w']['x']['data'])} "
                       f"stored elements raised {out.get('type')}: {out.get('msg', '')[:160]}")
                ctx.fail("C", fam, desc, msg, finding=findings.classify(PID, fam, desc, msg))
                continue
            diff = typed_differs(out["ok"], want, b["tol"])
            if diff:
                msg = f"{name}(axis={tuple(ax)}, dtype={dt}, keepdims={kd}) of a {b['kind']} array differs from the coordinate-dictionary reference: {diff}"
                ctx.fail("C", fam, desc, msg, finding=findings.classify(PID, fam, desc, msg))
                continue
            sweep_stats["max_peak"] = max(sweep_stats["max_peak"], r.get("peak", 0))
            sweep_stats["max_secs"] = max(sweep_stats["max_secs"], r.get("secs", 0.0))
            if r.get("peak", 0) > C_MAX * 8 * b["size"] + SLACK:
                msg = f"tracemalloc peak {r.get('peak')} bytes exceeds {C_MAX}*8*size (size {b['size']} = stored cells + Σ shape)"
                ctx.fail("C", fam, desc, msg, finding=findings.classify(PID, fam, desc, msg))
            if r.get("cpu", 0) > budget_cpu(b["size"]):
                r2 = run_alone({"op": "reduce_batch", "x": b["w"]["x"], "items": [item]}, 600)
                it2 = (r2.get("out", {}).get("ok") or {}).get("items", [{}])[0]
                if it2.get("cpu", 1e9) <= budget_cpu(b["size"]):
                    CAL["rescued"].append({"op": "reduce_batch", "item": item, "kind": "cpu-budget", "cpu_first": r.get("cpu"), "cpu_alone": it2.get("cpu")})
                else:
                    msg = f"took {r.get('cpu')} s of CPU time ({it2.get('cpu')} s alone), budget {budget_cpu(b['size']):.2f} s for size {b['size']}"
                    ctx.fail("C", fam, desc, msg, finding=findings.classify(PID, fam, desc, msg))
    ctx.notes["reduce_sweep"] = sweep_stats

    # ---- mixed sparse-dense operations -----------------------------------------------------------------
    mcost = ctx.driver.run([creq for _, _, _, _, creq in mixed])
    mixed_stats = {"cases": len(mixed), "max_peak_over_8_opCost": 0.0}
    for (fam, w, want, size, creq), (ln, j), co in zip(mixed, where_m, mcost):
        a = res[ln][j]
        out = a["out"]
        desc = small_case(w)
        desc["family"] = fam
        ctx.case(f"C:mixed:{w['func']}", {k: v for k, v in desc.items() if k != "x"} | {"x0": w["x"]["coords"][0], "format": w.get("format")})
        if out.get("err") in ("timeout", "crash", "memory"):
            msg = f"did not complete under RLIMIT_AS={LIMIT >> 30} GiB / 120s: {short(out, 200)}"
            ctx.fail("C", fam, desc, msg, finding=findings.classify(PID, fam, desc, msg))
            continue
        if "err" in out:
            msg = f"raised {out.get('type')}: {out.get('msg', '')[:160]}"
            ctx.fail("C", fam, desc, msg, finding=findings.classify(PID, fam, desc, msg))
            continue
        diff = typed_differs(out["ok"], want, 1e-12)
        if diff:
            msg = f"result differs from the coordinate-dictionary reference: {diff}"
            ctx.fail("C", fam, desc, msg, finding=findings.classify(PID, fam, desc, msg))
            continue
        c_ = co.get("ok")
        if not c_:
            ctx.fail("A", "cost:mixed", {"family": fam}, f"driver rejected the cost request: {co}")
            continue
        if c_["cost"] > c_["K"] * c_["size"]:
            ctx.fail("A", "cost:mixed", {"family": fam}, f"opCost {c_['cost']} exceeds K*size = {c_['K']}*{c_['size']} (contradicts elemwise_mixed_cost_bound)")
        # COO operands: the peak against the cost model; GCXS / DOK operands convert first (indptr: Σ shape), so the size measure is used
        bound = C_MAX * 8 * (c_["cost"] if "format" not in w else size) + SLACK
        if "format" not in w:
            mixed_stats["max_peak_over_8_opCost"] = max(mixed_stats["max_peak_over_8_opCost"], round(a.get("peak", 0) / (8.0 * max(c_["cost"], 1)), 2))
        if a.get("peak", 0) > bound:
            msg = f"tracemalloc peak {a.get('peak')} bytes exceeds {bound} (opCost {c_['cost']} cells = stored cells + the dense operand, size {size})"
            ctx.fail("C", fam, desc, msg, finding=findings.classify(PID, fam, desc, msg))
        msg = over_budget(a, size, dict(w, warm=True), 120)
        if msg:
            ctx.fail("C", fam, desc, msg, finding=findings.classify(PID, fam, desc, msg))
    ctx.notes["mixed"] = mixed_stats

    # cost of the product kernels (Cost.dotCsrCsr on the sizes of each 2-d @ 2-d case) against opCost_sparse_bound, and their time
    pk = [(fam, w, ref) for fam, w, ref, _, _, _ in extra if w.get("op") == "product" and len(w["a"]["shape"]) == 2 and len(w["b"]["shape"]) == 2]
    cr = ctx.driver.run([["cost", "dot_csr_csr", [w["a"]["shape"][0], w["b"]["shape"][1]], len(ref[1]), matmul_work(w["a"], w["b"])] for _, w, ref in pk])
    dcm = {}
    for (fam, w, ref), o in zip(pk, cr):
        co = o.get("ok")
        if not co:
            ctx.fail("A", "cost:product", {"family": fam}, f"driver rejected the cost request: {o}")
            continue
        dcm[fam] = dict(co, secs=timing.get(fam, {}).get("secs"))
        if co["cost"] > co["K"] * co["size"]:
            ctx.fail("A", "cost:product", {"family": fam}, f"opCost {co['cost']} exceeds K*size = {co['K']}*{co['size']} (contradicts dot_csr_csr_cost_bound)")
    ctx.notes["dot_cost_model"] = dcm
    ctx.notes["skipped_after_two_deadline_misses_of_their_family"] = skipped_after_misses
    ctx.notes["load_tolerance"] = {"reference_computation": CAL["ref"], "unit_cpu_s": CAL["unit"], "slowdown_at_start": CAL["slowdown_at_start"],
                                   "load_per_cpu_at_end": round(loadtol.load_per_cpu(), 2), "rescued_by_solitary_retry": CAL["rescued"],
                                   "deadline_misses_confirmed_alone": CAL["confirmed"]}
    ctx.notes["peak_over_8_opCost"] = {f: {"max": max(v), "median": sorted(v)[len(v) // 2], "n": len(v)} for f, v in ratios.items()}
    ctx.notes["calibrated_c"] = C_MAX
    ctx.notes["unmodelled_timing"] = timing
    ctx.notes["rlimit_as_bytes"] = LIMIT
    ctx.cov["rule"] = ("leg A/C: one call of every modelled operation on a canonical COO array of shape (10^6)^3 / (10^6)^2 (a few with 1-extents) holding "
                       "3..2000 stored elements, run in a subprocess under RLIMIT_AS 6 GiB with a deadline; result compared with the Lean model on "
                       "coordinates/order/data/indptr; tracemalloc peak <= c*8*opCost + 256 KiB and time <= 2 s + 10 µs*size; GCXS(single compressed axis)/DOK "
                       "operations, products of 1-d/2-d operands and var/std against the model or a coordinate-dictionary reference; "
                       "reduction sweep: float64/float32/int64/bool/complex128 data x sum/prod/max/min/any/all/mean/nansum x proper axis subsets of (10^6)^3 and "
                       "(30000,20000,50000,15000) (quick: keeping one, two, three huge axes + a random subset; thorough: every subset) x dtype= x keepdims, against a "
                       "coordinate-dictionary reference; mixed operations multiply/divide/minimum/maximum/bitwise_and between a huge COO/GCXS/DOK array and a generated "
                       "dense ndarray of every broadcastable shape (vector along the last axis, column shapes, 0-d, (1,)*k), both orders, peak against Cost.elemwiseMixed; "
                       "all cases non-trivial (stored elements, results mostly non-empty); distinct by content hash")


def replay(ctx, path):
    rec = json.loads(open(path).read())
    f = rec.get("failure") or {}
    case = f.get("case")
    if not case or "op" not in case:
        print(json.dumps(rec, indent=1)[:2000])
        return 1
    case = {k: v for k, v in case.items() if k != "family"}
    a = run_lanes([[(case, 150)]])[0][0]
    print(short(a, 2000))
    return 0 if "ok" in a["out"] else 1

"""Regions of the known C17 findings.  Narrow on purpose: anything else that fails is a VIOLATION."""
from __future__ import annotations


def classify(name, case, msg):
    if not isinstance(case, dict):
        return None
    # F-nep18-signature: a NumPy-style argument (positional axis, ddof=, dtype=, out=, order=, …) is rejected or bound to another
    # parameter by ARGUMENT BINDING at the function that __array_function__ reached by name (the Array-API wrapper, or a method
    # with another parameter order).  Region = ExcludedNep18 of Props/C17: the probe is in the model's violation list for this
    # class (evaluated by the model driver for the case) — the harness passes that verdict in `listed_by_model`.
    if case.get("nep18_probe") and case.get("listed_by_model") is True:
        return "F-nep18-signature"
    # F-clip-out: the namespace wrapper sparse.clip accepts `out` and does not pass it on (region = ExcludedDropped: parameter
    # `out` of a wrapper); reached as sparse.clip(out=) and, through NEP-18, as np.clip(out=)
    if name == "out" and case.get("op") == "clip" and case.get("param") == "out" and case.get("spelling") in ("sparse.clip(out=)", "np.clip(out=)"):
        return "F-clip-out"
    return None

"""Regions of the known C17 findings.  Narrow on purpose: anything else that fails is a VIOLATION."""
from __future__ import annotations


def classify(name, case, msg):
    if not isinstance(case, dict):
        return None
    # F-nep18-signature: a NumPy-style argument (positional axis, ddof=, dtype=, out=, order=, …) is rejected or bound to another
    # parameter by ARGUMENT BINDING at the function that __array_function__ reached by name (the Array-API wrapper, or a method
    # with another parameter order).  Region = ExcludedNep18 of Props/C17: the probe is in the model's violation list for this
    # class (evaluated by the model driver for the case) — the harness passes that verdict in `listed_by_model`.
    if case.get("nep18_probe") and case.get("listed_by_model") is True:
        return "F-nep18-signature"
    # (F-clip-out — sparse.clip ignored `out` — was repaired in 7d0ce74; its witness stays in harness/c17.py and must pass)
    return None

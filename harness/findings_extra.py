"""Regions of the known findings met by the operation tables of harness/extra_ops.py (cases carry "extra": True).

classify(pid, name, case, msg) -> finding id | None.   `case` is what extra_ops.run records:
    {"extra": True, "op": <operation label>, "format": <format under test>, "operands": [{"format": <how it was built>, "dense": {"ndarray", "dtype",
     "shape"}, "fill"} | {"raw": …}, …], "args": {…}}
Every region fixes the operation, the operand pattern AND the observed failure; the same input failing in another way is not the finding.
"""
from __future__ import annotations

import findings


def _fmt(o):
    return (o.get("format") or "").split(":")[0].split("[")[0] if isinstance(o, dict) else ""


def _shape(o):
    d = o.get("dense") if isinstance(o, dict) else None
    return d.get("shape") if isinstance(d, dict) else None


def _dtype(o):
    d = o.get("dense") if isinstance(o, dict) else None
    return d.get("dtype") if isinstance(d, dict) else (o.get("dtype") if isinstance(o, dict) else None)


def classify(pid, name, case, msg):
    ops = case.get("operands") or []
    args = case.get("args") or {}
    op = case.get("op", name)
    if pid == "C08":
        # broadcast_to of a 0-d array to the shape [] given as a LIST: `shape == x.shape` compares a list with a tuple, the general path indexes an empty tuple
        if (op in ("sparse.broadcast_to", "x.broadcast_to") and args.get("shape") == [] and args.get("shape_is_list") and ops and _shape(ops[0]) == []
                and "IndexError: tuple index out of range" in msg):
            return "F-c08-broadcast-to-0d-list-shape"
    if pid == "C09":
        if (op in ("concatenate", "concat") and args.get("axis") is None and args.get("pass_axis") and any(_fmt(o) == "dok" for o in ops)
                and "AttributeError: 'DOK' object has no attribute 'flatten'" in msg):
            return "F-c09-concatenate-none-dok"
    if pid == "C01":
        # in-place operator: the result is computed in another format than the left operand's and its attributes are copied into the left operand
        if (" = y" not in op and op.startswith("x ") and op.endswith("= y") and op not in ("x == y", "x != y", "x <= y", "x >= y") and len(ops) == 2
                and _fmt(ops[0]) in ("gcxs", "dok") and _fmt(ops[1]) in ("coo", "gcxs", "dok") and _fmt(ops[1]) != _fmt(ops[0])
                and msg.startswith("the call returned an inconsistent") and ("'coords'" in msg)):
            return "F-c01-inplace-other-format"
        # out= / in-place: the request is validated by calling the ufunc on UNINITIALISED one-element arrays; integer power then raises whenever the
        # leftover "exponent" is negative (depends on the allocator's leftovers: sporadic)
        if (op == "x **= y" and len(ops) == 2 and _dtype(ops[0]) and _dtype(ops[0])[0] in "iu" and (_dtype(ops[1]) or "")[:1] in ("i", "u")
                and "raised ValueError: Integers to negative integer powers are not allowed" in msg):
            return "F-c01-out-test-call-uninitialised"
        if op in ("divmod(x, y)", "np.modf(x)") and "AttributeError: 'tuple' object has no attribute 'ndim'" in msg:
            return "F-c01-multi-output-ufunc"
    if pid == "C02":
        if case.get("format") == "gcxs" and ops and _dtype(ops[0]) == "float16" and _fmt(ops[0]) == "gcxs" and "raised NotImplementedError: float16" in msg:
            return "F-c02-gcxs-float16-getitem"
        if case.get("format") == "dok" and ops:
            # the listed DOK finding of C02 (index arrays for fewer than all dimensions): same region predicate as for C02's own cases
            return findings._classify_c02(name, {"format": "dok", "index": args.get("index", []), "shape": _shape(ops[0]) or []}, msg)
    return None

"""Regions of the known findings met by the operation tables of harness/extra_ops.py (cases carry "extra": True).

classify(pid, name, case, msg) -> finding id | None.   `case` is what extra_ops.run records:
    {"extra": True, "op": <operation label>, "format": <format under test>, "operands": [{"format": <how it was built>, "dense": {"ndarray", "dtype",
     "shape"}, "fill"} | {"raw": …}, …], "args": {…}}
Every region fixes the operation, the operand pattern AND the observed failure; the same input failing in another way is not the finding.
"""
from __future__ import annotations

import findings


def _fmt(o):
    return (o.get("format") or "").split(":")[0].split("[")[0] if isinstance(o, dict) else ""


def _shape(o):
    d = o.get("dense") if isinstance(o, dict) else None
    return d.get("shape") if isinstance(d, dict) else None


def _dtype(o):
    d = o.get("dense") if isinstance(o, dict) else None
    return d.get("dtype") if isinstance(d, dict) else (o.get("dtype") if isinstance(o, dict) else None)


def classify(pid, name, case, msg):
    """The six regions this module had (in-place operator across formats, multi-output ufuncs, the out= trial call on
    uninitialised memory, float16 GCXS indexing, broadcast_to(0-d, []), concatenate(axis=None) with a DOK member) are repaired
    in /repo (`fixed:` lines in KNOWN_FINDINGS.txt, commits 83da390, 125c19e, ba56927, fd01003, f7a57e8, f923552): nothing is
    suppressed any more.  Only the listed DOK finding of C02 is shared with C02's own cases."""
    ops = case.get("operands") or []
    args = case.get("args") or {}
    if pid == "C02" and case.get("format") == "dok" and ops:
        # the listed DOK finding of C02 (index arrays for fewer than all dimensions): same region predicate as for C02's own cases
        return findings._classify_c02(name, {"format": "dok", "index": args.get("index", []), "shape": _shape(ops[0]) or []}, msg)
    return None

"""Regions of the known findings of C18 (see KNOWN_FINDINGS.txt).  classify(name, case, msg) -> finding id | None.

`case` is the failing case as c18.py records it: op, fam, arrays, args, kwargs, kind, formats (one tag per array:
"coo", "gcxs[0]", "dok", "dense"), shapes, outcome (class of the observed outcome), etype, np (NumPy's verdict), origin.
`msg` is the oracle's description ("hang: ...", "crash: ...", "accepted: ...", "rejected with ...", "internal: ...",
"unusable: ...").  Every region fixes the operation, the shape/format/argument pattern AND the observed outcome: the same
input failing in another way is not the finding.
"""
from __future__ import annotations

COO_ONLY = {"sparse.tril", "sparse.triu", "sparse.diagonal", "sparse.nonzero", "sparse.argwhere", "sparse.broadcast_to"}


def classify(name, case, msg):
    fmts = case.get("formats") or []
    shapes = case.get("shapes") or []
    arrays = case.get("arrays") or []
    args = case.get("args") or []
    kw = case.get("kwargs") or {}
    kind = case.get("kind")
    et = case.get("etype")
    out = case.get("outcome")

    # ---- internal errors on valid arguments ------------------------------------------------------------------------
    if name == "x.props" and fmts and fmts[0].startswith("gcxs") and len(shapes[0]) < 2 and et == "AttributeError" and "'nbytes'" in msg:
        return "F-c18-gcxs-lowrank-nbytes"
    if (name in COO_ONLY and fmts and fmts[0].startswith("gcxs") and et == "AttributeError" and "'GCXS' object has no attribute" in msg):
        return "F-c18-coo-only-function-gcxs"
    if name == "x.props" and et == "AssertionError" and "multiline_concat" in str(case.get("origin")) and shapes and len(shapes[0]) == 2 and shapes[0][1] == 0:
        return "F-c18-str-no-columns-assertion"

    # ---- rejection with the wrong class ----------------------------------------------------------------------------
    if (name in ("x.reshape", "sparse.reshape") and et == "OverflowError" and "float infinity" in msg and len(args) > 1
            and isinstance(args[1], list) and -1 in args[1] and 0 in args[1]):
        return "F-c18-reshape-unknown-with-zero"
    if (name in ("x[idx]", "dok[idx]=v") and fmts and fmts[0] in ("coo", "dok") and kind == "index-step0" and et == "ZeroDivisionError"
            and "modulo by zero" in msg):
        return "F-c18-slice-step-zero-zerodivision"
    if (name in ("x[idx]", "dok[idx]=v") and fmts and fmts[0] == "dok" and et == "NotImplementedError" and "Index sequences for all" in msg
            and kind in ("index-oob", "index-masklen") and case.get("np") == "err"):
        return "F-c18-dok-partial-index-lists"

    # ---- accepted what NumPy / the contract rejects ----------------------------------------------------------------
    if msg.startswith("accepted:"):
        if name in ("x.reshape", "sparse.reshape") and len(args) > 1 and isinstance(args[1], list) and args[1].count(-1) >= 2:
            return "F-c18-reshape-several-unknown"
        if name == "COO(coords,data,shape)" and kw.get("shape") == [] and kind == "ctor-bad":
            return "F-c18-coo-ctor-0d-unchecked"
        if name == "GCXS(triple,shape,ca)" and kind == "ctor-bad":
            return "F-c18-gcxs-ctor-unvalidated"
        if name == "sparse.diagonal" and kind == "axis-repeated" and fmts == ["coo"]:
            return "F-c18-diagonal-equal-axes"
        if name == "sparse.flip" and kind == "axis-repeated":
            return "F-c18-flip-repeated-axis"
        if name in ("sparse.squeeze", "x.squeeze") and kind == "axis-repeated":
            return "F-c18-squeeze-repeated-axis"
        if name == "sparse.moveaxis" and kind == "axis-repeated" and "repeated axis" in msg:
            return "F-c18-moveaxis-repeated-axis"
        if name == "sparse.sort" and kind == "axis-oor" and shapes and len(shapes[0]) == 1:
            return "F-c18-sort-1d-axis-ignored"
        if name == "sparse.einsum" and "operand has more dimensions than subscripts" in msg:
            return "F-c18-einsum-operand-rank-unchecked"
        if name == "sparse.tensordot" and "duplicate axes" in msg and any(0 in s for s in shapes):
            return "F-c18-tensordot-empty-duplicate-axes"
    if name == "COO(coords,data,shape)" and kw.get("shape") == [] and "idx_dtype" in kw and "max() iterable argument is empty" in msg:
        return "F-c18-coo-ctor-0d-unchecked"
    return None

"""Regions of the known findings of C18 (see KNOWN_FINDINGS.txt).  classify(name, case, msg) -> finding id | None.

`case` is the failing case as c18.py records it: op, fam, arrays, args, kwargs, kind, formats (one tag per array:
"coo", "gcxs[0]", "dok", "dense"), shapes, outcome (class of the observed outcome), etype, np (NumPy's verdict), np_msg (NumPy's
message, or the reason the written-out contract gives), origin.
`msg` is the oracle's description ("hang: ...", "crash: ...", "accepted: ...", "rejected with ...", "internal: ...",
"unusable: ...").  Every region fixes the operation, the shape/format/argument pattern AND the observed outcome: the same
input failing in another way is not the finding.

Open:
F-c18-str-no-columns-assertion        str() of a 2-d array with no columns: AssertionError out of matrepr
F-c18-dok-partial-index-lists         DOK index lists / masks for fewer than all dimensions: NotImplementedError where NumPy raises IndexError
F-c18-einsum-operand-rank-unchecked   einsum accepts an operand with more dimensions than its subscripts
F-c18-gcxs-ctor-0d-unchecked          GCXS((data, indices, indptr), shape=()): every test on the three arrays sits under len(shape) >= 1.  Region: the contract's
                                      reason is "0-d indices" (shape (), indices not of shape (0, len(data))) and the call returned.  Props/C18: ExcludedZeroDim.
F-c18-gcxs-ctor-index-dtype-unchecked GCXS((data, indices, indptr), ...) with float `indices` or `indptr`: accepted, the array fails at its first use (TypeError / numba
                                      TypingError).  Region: the contract's reason is "index dtype" and the call returned.

Retired (repaired in /repo; each witness is a must-pass case of c18.retired_witnesses, and the generators still produce the region):
F-c18-reshape-several-unknown, F-c18-reshape-unknown-with-zero (999f0e4), F-c18-coo-ctor-0d-unchecked (22a856d), F-c18-gcxs-ctor-unvalidated
(5753560), F-c18-gcxs-ctor-contents-unchecked (748e5d3), F-c18-gcxs-lowrank-nbytes (f8a1188), F-c18-coo-only-function-gcxs (9d10515), F-c18-diagonal-equal-axes (b6c8f54),
F-c18-flip-repeated-axis (e21e508), F-c18-squeeze-repeated-axis (eaaac81), F-c18-moveaxis-repeated-axis (55412b6),
F-c18-sort-1d-axis-ignored (e2d0b75), F-c18-tensordot-empty-duplicate-axes (5b38ef4), F-c18-slice-step-zero-zerodivision (e1153be).
"""
from __future__ import annotations

def classify(name, case, msg):
    fmts = case.get("formats") or []
    shapes = case.get("shapes") or []
    kind = case.get("kind")
    et = case.get("etype")

    # ---- internal errors on valid arguments ------------------------------------------------------------------------
    if name == "x.props" and et == "AssertionError" and "multiline_concat" in str(case.get("origin")) and shapes and len(shapes[0]) == 2 and shapes[0][1] == 0:
        return "F-c18-str-no-columns-assertion"

    # ---- rejection with the wrong class ----------------------------------------------------------------------------
    if (name in ("x[idx]", "dok[idx]=v") and fmts and fmts[0] == "dok" and et == "NotImplementedError" and "Index sequences for all" in msg
            and kind in ("index-oob", "index-masklen") and case.get("np") == "err"):
        return "F-c18-dok-partial-index-lists"

    # ---- accepted what NumPy / the contract rejects ----------------------------------------------------------------
    if msg.startswith("accepted:"):
        if name == "GCXS(triple,shape,ca)" and kind == "ctor-bad" and case.get("np_msg") == "0-d indices" and (case.get("kwargs") or {}).get("shape") == []:
            return "F-c18-gcxs-ctor-0d-unchecked"
        if name == "GCXS(triple,shape,ca)" and kind == "ctor-bad" and case.get("np_msg") == "index dtype":
            return "F-c18-gcxs-ctor-index-dtype-unchecked"
        if name == "sparse.einsum" and "operand has more dimensions than subscripts" in msg:
            return "F-c18-einsum-operand-rank-unchecked"
    return None

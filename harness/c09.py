"""C09 — joining and structural extraction agree with NumPy."""
from __future__ import annotations

import numpy as np

import core
import findings
import gen
import impl
import oracle

PID = "C09"
TRUSTED = [
    "Lean 4 kernel; axioms propext, Classical.choice, Quot.sound only (audited per theorem each run)",
    "tie T2: hand models concatCore/stackCore (coordinate offsets, inserted coordinate, sorted=(axis==0) claim), triuCore/trilCore (mask, sorted=True claim), "
    "diagonalCore/diagonalizeCore compared with the implementation on representation",
    "tie T2 (GCXS): hand model SparseV.Model.GcxsJoin (every member through change_compressed_axes((axis,)), the indptr splice with running "
    "offsets, stack = reshape to a unit axis + the same splice) compared with sparse.concatenate / sparse.stack of GCXS members on the returned "
    "(data, indices, indptr, shape, compressed_axes, fill); the splice loop is also replayed on the members' recorded (indptr, nnz) pairs; "
    "joins with 1-d members, axis=None, COO/GCXS mixes and a non-default compressed_axes= go through COO / extra conversions: NumPy oracle only",
]


def narrow(rng, x):
    """the same COO array with its coordinates stored in a narrow (possibly unsigned) index dtype"""
    import sparse

    if not isinstance(x, sparse.COO) or not x.ndim or max(x.shape, default=0) >= 100 or rng.random() > 0.35:
        return x, ""
    dt = rng.choice([np.int8, np.uint8, np.uint16, np.int32, np.uint32])
    y = sparse.COO(x.coords.astype(dt), x.data, shape=x.shape, fill_value=x.fill_value, sorted=True, has_duplicates=False)
    return y, ":" + np.dtype(dt).name


def members(rng, shp, axis, n, fill, empty_ok=True):
    import sparse

    out = []
    for _ in range(n):
        s = list(shp)
        if axis is not None:
            s[axis] = int(rng.choice([0, 1, 2, 3])) if empty_ok else int(rng.choice([1, 2, 3]))
        out.append(gen.dense(rng, tuple(s), fill))
    return out


def leg_a(ctx, rng, n):
    import sparse

    reqs, metas = [], []
    for _ in range(n):
        op = str(rng.choice(["concat", "stack", "triu", "tril", "diagonal", "diagonalize"]))
        fill = int(rng.choice([0, 0, 2]))
        if op in ("concat", "stack"):
            shp = gen.shape(rng, 1 if op == "concat" else 0, 3, extents=[0, 1, 2, 2, 3])
            nd = len(shp)
            axis = int(rng.integers(0, nd)) if op == "concat" else int(rng.integers(0, nd + 1))
            k = int(rng.integers(1, 5))
            ds = members(rng, shp, axis if op == "concat" else None, k, fill)
            xs = [sparse.COO.from_numpy(d, fill_value=fill) for d in ds]
            raw_axis = axis - (nd if op == "concat" else nd + 1) if rng.random() < 0.3 else axis
            case = {"op": op, "xs": [impl.coo_json(x) for x in xs], "axis": raw_axis}
            try:
                r = sparse.concatenate(xs, axis=raw_axis) if op == "concat" else sparse.stack(xs, axis=raw_axis)
            except Exception as e:  # noqa: BLE001
                ctx.fail("A", f"model:{op}", case, f"implementation raised {type(e).__name__}: {e}")
                continue
            reqs.append([f"{op}_core", case["xs"], axis])
        elif op in ("triu", "tril"):
            shp = gen.shape(rng, 2, 4, extents=[0, 1, 2, 3, 4])
            x = sparse.COO.from_numpy(gen.dense(rng, shp, 0))
            k = int(rng.integers(-5, 6))
            case = {"op": op, "x": impl.coo_json(x), "k": k}
            r = getattr(sparse, op)(x, k)
            reqs.append([f"{op}_core", case["x"], k])
        elif op == "diagonal":
            shp = list(gen.shape(rng, 2, 4, extents=[1, 2, 3, 4]))
            nd = len(shp)
            a1, a2 = (int(v) for v in rng.choice(nd, size=2, replace=False))
            shp[a2] = shp[a1]
            x = sparse.COO.from_numpy(gen.dense(rng, tuple(shp), fill), fill_value=fill)
            off = int(rng.integers(-shp[a1] - 1, shp[a1] + 2))
            case = {"op": op, "x": impl.coo_json(x), "offset": off, "axis1": a1, "axis2": a2}
            try:
                r = sparse.diagonal(x, offset=off, axis1=a1, axis2=a2)
            except Exception as e:  # noqa: BLE001
                ctx.fail("A", "model:diagonal", case, f"implementation raised {type(e).__name__}: {e}")
                continue
            reqs.append(["diagonal_core", case["x"], off, a1, a2])
        else:
            shp = gen.shape(rng, 1, 3, extents=[0, 1, 2, 3])
            x = sparse.COO.from_numpy(gen.dense(rng, shp, 0))
            ax = int(rng.integers(0, len(shp)))
            case = {"op": op, "x": impl.coo_json(x), "axis": ax}
            r = sparse.diagonalize(x, axis=ax)
            reqs.append(["diagonalize_core", case["x"], ax])
        metas.append((op, case, impl.coo_json(r)))
    outs = ctx.driver.run(reqs)
    for (op, case, want), out in zip(metas, outs):
        ctx.case(f"A:{op}", case)
        if out.get("ok") != want:
            ctx.fail("A", f"model:{op}", case, f"model {str(out)[:500]} implementation {str(want)[:500]}")


def leg_gcxs(ctx, rng, n):
    """GCXS members of rank 2-3 (every compressed_axes each, empty members, zero extents): model vs implementation on
    representation; the splice is checked separately on the (indptr, nnz) pairs of the members after
    change_compressed_axes((axis,))"""
    import sparse
    import gx

    reqs, metas = [], []
    for _ in range(n):
        op = str(rng.choice(["concat", "stack"]))
        shp = gen.shape(rng, 2, 3, extents=[0, 1, 2, 2, 3])
        nd = len(shp)
        fill = int(rng.choice([0, 0, 2]))
        axis = int(rng.integers(0, nd)) if op == "concat" else int(rng.integers(0, nd + 1))
        k = int(rng.integers(1, 5))
        xs = []
        for _ in range(k):
            s_ = list(shp)
            if op == "concat":
                s_[axis] = int(rng.choice([0, 1, 2, 3]))
            d = gen.dense(rng, tuple(s_), fill)
            ch = gen.compressed_axes_choices(nd)
            xs.append(sparse.GCXS.from_numpy(d, compressed_axes=ch[int(rng.integers(len(ch)))], fill_value=fill))
        raw_axis = axis - (nd if op == "concat" else nd + 1) if rng.random() < 0.3 else axis
        xj = [gx.gcxs_json(x) for x in xs]
        case = {"op": op, "xs": xj, "axis": raw_axis}
        try:
            r = sparse.concatenate(xs, axis=raw_axis) if op == "concat" else sparse.stack(xs, axis=raw_axis)
        except Exception as e:  # noqa: BLE001
            ctx.fail("A", f"model:gcxs_{op}", case, f"implementation raised {type(e).__name__}: {e}")
            continue
        reqs.append([f"gx_{op}", xj, axis])
        metas.append((f"gcxs_{op}", case, {"ok": gx.gcxs_json(r)}))
        if op == "concat":
            # the splice on its own: members brought to compressed_axes=(axis,), then the loop of common.py
            ms = [x.change_compressed_axes((axis,)) for x in xs]
            pairs = [[[int(v) for v in m.indptr], int(m.nnz)] for m in ms]
            reqs.append(["gx_splice", pairs])
            metas.append(("kernel:splice", {"members": pairs}, {"ok": [int(v) for v in r.indptr]}))
    outs = ctx.driver.run(reqs)
    for (fam, case, want), out in zip(metas, outs):
        ctx.case(f"A:{fam}", case)
        if out != want:
            ctx.fail("A", f"model:{fam}", case, f"model {str(out)[:500]} implementation {str(want)[:500]}")


def leg_c(ctx, rng, n):
    import sparse

    for it in range(n):
        op = str(rng.choice(["concatenate", "concat", "stack", "triu", "tril", "diagonal", "diagonalize", "take"]))
        fill = int(rng.choice([0, 0, 0, 2]))
        dt = rng.choice([np.int64, np.float64, np.int16])
        if op in ("concatenate", "concat", "stack"):
            shp = gen.shape(rng, 1 if op != "stack" else 0, 4, extents=[0, 1, 2, 2, 3])
            nd = len(shp)
            none_axis = op != "stack" and rng.random() < 0.1
            axis = None if none_axis else (int(rng.integers(0, nd)) if op != "stack" else int(rng.integers(0, nd + 1)))
            k = int(rng.integers(1, 6))
            ds = [d.astype(dt) for d in members(rng, shp, axis if (op != "stack" and axis is not None) else None, k, fill)]
            raw_axis = axis
            if axis is not None and rng.random() < 0.3:
                raw_axis = axis - (nd if op != "stack" else nd + 1)
            fmts = [str(rng.choice(["coo", "gcxs"])) for _ in ds] if rng.random() < 0.5 else [str(rng.choice(["coo", "gcxs"]))] * k
            xs, descs = [], []
            for d, f in zip(ds, fmts):
                x, fd = gen.to_format(rng, d, f, fill)
                if rng.random() < 0.2 and isinstance(x, sparse.COO) and x.ndim and max(x.shape, default=0) < 100:
                    x = sparse.COO(x.coords.astype(rng.choice([np.int8, np.uint8, np.int32])), x.data, shape=x.shape, fill_value=x.fill_value, sorted=True, has_duplicates=False)
                    fd += ":" + str(x.coords.dtype)
                xs.append(x); descs.append({"format": fd, "dense": d.tolist()})
            if rng.random() < 0.07 and k > 1:
                # differently filled member: must raise ValueError
                bad = sparse.COO.from_numpy(ds[-1], fill_value=fill + 1)
                xs[-1] = bad; descs[-1]["format"] = "coo(fill+1)"
                case = {"op": op, "members": descs, "axis": raw_axis, "fill": fill, "dtype": str(np.dtype(dt)), "mixed_fill": True}
                ctx.case(f"C:{op}:mixedfill", case)
                try:
                    getattr(sparse, op)(xs, axis=raw_axis)
                    ctx.fail("C", op, case, "join of differently filled arrays returned instead of raising ValueError", finding=findings.classify(PID, op, case, "mixed fill"))
                except ValueError:
                    pass
                except Exception as e:  # noqa: BLE001
                    ctx.fail("C", op, case, f"join of differently filled arrays raised {type(e).__name__}: {e}", finding=findings.classify(PID, op, case, str(e)))
                continue
            case = {"op": op, "members": descs, "axis": raw_axis, "fill": fill, "dtype": str(np.dtype(dt))}
            npf = np.concatenate if op != "stack" else np.stack
            it_ = lambda: getattr(sparse, op)(xs, axis=raw_axis)  # noqa: E731
            rt_ = lambda: npf(ds, axis=raw_axis)  # noqa: E731
            fam = f"C:{op}:{'mixed' if len(set(fmts)) > 1 else fmts[0]}"
        elif op in ("triu", "tril"):
            shp = gen.shape(rng, 2, 4, extents=[0, 1, 2, 3, 4])
            d = gen.dense(rng, shp, 0).astype(dt)
            x, fd = gen.to_format(rng, d, "coo", 0)
            x, suf = narrow(rng, x); fd += suf
            k = int(rng.integers(-6, 7))
            case = {"op": op, "format": fd, "dense": d.tolist(), "k": k}
            it_ = lambda: getattr(sparse, op)(x, k)  # noqa: E731
            rt_ = lambda: getattr(np, op)(d, k)  # noqa: E731
            fam = f"C:{op}"
            fill = 0
        elif op == "diagonal":
            shp = list(gen.shape(rng, 2, 4, extents=[0, 1, 2, 3, 4]))
            nd = len(shp)
            a1, a2 = (int(v) for v in rng.choice(nd, size=2, replace=False))
            shp[a2] = shp[a1]
            d = gen.dense(rng, tuple(shp), fill).astype(dt)
            x, fd = gen.to_format(rng, d, "coo", fill)
            x, suf = narrow(rng, x); fd += suf
            off = int(rng.integers(-shp[a1] - 1, shp[a1] + 2))
            r1, r2 = (a1 - nd if rng.random() < 0.3 else a1), (a2 - nd if rng.random() < 0.3 else a2)
            case = {"op": op, "format": fd, "dense": d.tolist(), "offset": off, "axis1": r1, "axis2": r2, "fill": fill}
            it_ = lambda: sparse.diagonal(x, offset=off, axis1=r1, axis2=r2)  # noqa: E731
            rt_ = lambda: np.diagonal(d, offset=off, axis1=r1, axis2=r2)  # noqa: E731
            fam = "C:diagonal"
        elif op == "diagonalize":
            shp = gen.shape(rng, 1, 3, extents=[0, 1, 2, 3])
            d = gen.dense(rng, shp, 0).astype(dt)
            x, fd = gen.to_format(rng, d, "coo", 0)
            x, suf = narrow(rng, x); fd += suf
            ax = int(rng.integers(0, len(shp)))
            n_ax = shp[ax]
            case = {"op": op, "format": fd, "dense": d.tolist(), "axis": ax}

            def ref(d=d, ax=ax, n_ax=n_ax):
                out = np.zeros(d.shape + (n_ax,), dtype=d.dtype)
                for idx in np.ndindex(*d.shape):
                    out[idx + (idx[ax],)] = d[idx]
                return out
            it_ = lambda: sparse.diagonalize(x, axis=ax)  # noqa: E731
            rt_ = ref
            fam = "C:diagonalize"
            fill = 0
        else:  # take
            shp = gen.shape(rng, 1, 3, extents=[1, 2, 3, 4])
            d = gen.dense(rng, shp, fill).astype(dt)
            x, fd = gen.to_format(rng, d, str(rng.choice(["coo", "gcxs"])), fill)
            x, suf = narrow(rng, x); fd += suf
            ax = int(rng.integers(-len(shp), len(shp))) if rng.random() < 0.85 else None
            size = d.size if ax is None else shp[ax]
            ind = rng.integers(-size, size, size=int(rng.integers(0, 5)))
            case = {"op": op, "format": fd, "dense": d.tolist(), "axis": ax, "indices": ind.tolist(), "fill": fill}
            it_ = lambda: sparse.take(x, ind, axis=ax)  # noqa: E731
            rt_ = lambda: np.take(d, ind, axis=ax)  # noqa: E731
            fam = f"C:take:{fd[:4]}"
        ctx.case(fam, case)
        msg = oracle.compare(it_, rt_, fill=np.asarray(fill, dtype=dt))
        if msg:
            ctx.fail("C", op, case, msg, finding=findings.classify(PID, op, case, msg))
        if it % 300 == 0:
            core.log(f"C09 leg C {it}/{n}")


def run(ctx):
    ctx.trusted = TRUSTED
    ctx.assumptions = ["NumPy's functions on the densified inputs are the specification; diagonalize is judged against its documented definition"]
    core.prove(ctx, PID, extra_targets=["SparseV.Props.C09Gcxs"], uses=[])
    rng = gen.rng_for(ctx.seed, PID)
    leg_a(ctx, rng, 600 if ctx.quick else 6000)
    leg_gcxs(ctx, gen.rng_for(ctx.seed, PID + ":gcxs"), 400 if ctx.quick else 5000)
    leg_c(ctx, rng, 700 if ctx.quick else 8000)
    ctx.cov["rule"] = ("leg A: concatenate/stack of 1-4 COO members (empty members, length-0 axes, negative axes), triu/tril for k in [-5,5], diagonal over "
                       "all offsets in [-n-1,n+1] and both axis orders, diagonalize: model vs implementation on representation; leg A (GCXS): concatenate/stack of 1-4 "
                       "GCXS members of rank 2-3 (every compressed_axes, empty members, zero extents, negative axis): model vs implementation on (data, indices, "
                       "indptr, shape, compressed_axes, fill), and the indptr splice on the members' (indptr, nnz) pairs; leg C: the same functions "
                       "plus take, concat, axis=None, format mixes COO/GCXS(any compressed axes), narrow index dtypes, mixed fills vs NumPy; distinct by hash")
    import extra_ops  # operation tables closing the measured coverage gaps (tools/coverage_audit.py; coverage/API_COVERAGE.md)
    extra_ops.run(ctx, PID)

"""Regions of the known findings of C11.  None so far: on the unchanged tree no operation modifies an
operand and no cached call differs from the uncached one, so every leg-C failure is a VIOLATION."""
from __future__ import annotations


def classify(name, case, msg):
    return None

"""C20 worker: runs inside a subprocess started with SPARSE_BACKEND=MLIR (harness/c20.py).

Protocol: stdin = one JSON list of tasks; stdout = JSON lines.  Before a task runs the worker prints
{"start": id}; afterwards {"id": id, "res": ...}.  If the backend kills the process (segfault, abort
from free()), the parent sees a start line without a result and the exit status, records that task as
a failing input and restarts the worker on the remaining tasks.

The worker only observes: it builds the arrays a task describes, calls the backend, and reports
formats, constituent arrays, values, pointers, `_hold_ref`/`free_memref` events and finalisations.
All comparisons (with NumPy and with the Lean model) are made by the parent.
"""
from __future__ import annotations

import ctypes
import gc
import json
import os
import sys
import weakref


def main():
    import numpy as np
    import scipy.sparse as sps

    import sparse
    from sparse.mlir_backend import _conversions as CV
    from sparse.mlir_backend import formats as F
    from sparse.mlir_backend._array import Array as BArray

    tasks = json.load(sys.stdin)
    out = sys.stdout
    # everything imported so far is permanent: keep it out of the collections the tasks ask for after every statement
    gc.collect()
    gc.freeze()

    # Guard: never let the backend hand a NumPy-owned buffer to free() inside this process (heap corruption would
    # surface in an unrelated later task).  `free_memref` is replaced by a wrapper that refuses pointers lying in
    # the input buffers of the running task and records the attempt; the parent reports it as a failing input.
    GUARD = {"ranges": [], "invalid": [], "shared": {}}
    real_free = F.free_memref

    def guarded_free(ref):
        p = ctypes.cast(ref.allocated, ctypes.c_void_p).value or 0
        for lo, hi in GUARD["ranges"]:
            if lo <= p < hi:
                GUARD["invalid"].append(p)
                return None
        if GUARD["shared"].get(p, 0) > 0:   # an allocation two owning storages would both release: let only the last one
            GUARD["shared"][p] -= 1
            GUARD["invalid"].append(p)
            return None
        return real_free(ref)

    def clone_format(f, how):
        """an equal, separately constructed description of the same storage format"""
        import copy
        import dataclasses
        import pickle

        if how == "ctor":
            g = F.ConcreteFormat(levels=f.levels, order=f.order, pos_width=f.pos_width, crd_width=f.crd_width, dtype=f.dtype)
        elif how == "replace":
            g = dataclasses.replace(f)
        elif how == "deepcopy":
            g = copy.deepcopy(f)
        elif how == "pickle":
            g = pickle.loads(pickle.dumps(f))
        else:
            raise ValueError(how)
        if g is f or g != f:
            raise RuntimeError(f"clone_format({how}): not an equal, distinct object")
        return g

    F.free_memref = guarded_free

    # ---------------------------------------------------------------------------------------------
    # encoding helpers
    # ---------------------------------------------------------------------------------------------
    def enc_vals(a):
        a = np.asarray(a).reshape(-1)
        if a.dtype.kind == "c":
            return [[float(v.real), float(v.imag)] for v in a]
        if a.dtype.kind == "f":
            return [float(v) for v in a]
        return [int(v) for v in a]

    def dec_vals(vals, dtype, shape=None):
        dt = np.dtype(dtype)
        if dt.kind == "c":
            a = np.array([complex(v[0], v[1]) if isinstance(v, list) else complex(v) for v in vals], dtype=dt)
        else:
            a = np.array(vals, dtype=dt) if len(vals) else np.zeros(0, dtype=dt)
        return a.reshape(shape) if shape is not None else a

    def fmt_json(f):
        return {
            "levels": [[lv.format.value, bool(lv.properties & F.LevelProperties.NonOrdered),
                        bool(lv.properties & F.LevelProperties.NonUnique), bool(lv.properties & F.LevelProperties.SOA)]
                       for lv in f.levels],
            "order": [int(o) for o in f.order], "pos": int(f.pos_width), "crd": int(f.crd_width),
            "dtype": str(f.dtype.np_dtype),
        }

    def fmt_from_json(j):
        levels = []
        for kind, no, nu, soa in j["levels"]:
            p = F.LevelProperties(0)
            if no:
                p |= F.LevelProperties.NonOrdered
            if nu:
                p |= F.LevelProperties.NonUnique
            if soa:
                p |= F.LevelProperties.SOA
            levels.append(F.Level(F.LevelFormat(kind), p))
        return F.get_concrete_format(levels=tuple(levels), order=tuple(j["order"]), pos_width=j["pos"], crd_width=j["crd"],
                                     dtype=np.dtype(j["dtype"]))

    def build_format(spec):
        """spec: {"factory": coo|csf|dense, "ndim", "order"?, "pos", "crd", "dtype", "canonical"?} or {"json": fmt}"""
        if "json" in spec:
            return fmt_from_json(spec["json"])
        fac = {"coo": sparse.formats.Coo, "csf": sparse.formats.Csf, "dense": sparse.formats.Dense}[spec["factory"]]()
        fac = fac.with_ndim(spec["ndim"], canonical=spec.get("canonical", True)).with_dtype(np.dtype(spec["dtype"]))
        fac = fac.with_pos_width(spec.get("pos", 64)).with_crd_width(spec.get("crd", 64))
        if spec.get("order") is not None:
            o = spec["order"]
            fac = fac.with_order(o if isinstance(o, str) else tuple(o))
        return fac.build()

    def storage_ptrs(x):
        res = []
        for f in x._storage.get__fields_():
            n = 1
            for s in f.shape:
                n *= int(s)
            res.append((ctypes.cast(f.allocated, ctypes.c_void_p).value or 0, ctypes.cast(f.aligned, ctypes.c_void_p).value or 0, n))
        return res

    def desc(x, with_fields=False):
        arrs = x.get_constituent_arrays()
        d = {
            "fmt": fmt_json(x.format), "shape": [int(s) for s in x.shape],
            "arrays": [[int(v) for v in a] for a in arrs[:-1]],
            "array_dtypes": [str(a.dtype) for a in arrs[:-1]],
            "vals": enc_vals(arrs[-1]), "vals_dtype": str(arrs[-1].dtype),
        }
        if with_fields:
            d["fields"] = [f[0] for f in type(x._storage)._fields_]
        del arrs
        return d

    # ---------------------------------------------------------------------------------------------
    # building operands
    # ---------------------------------------------------------------------------------------------
    def build_numpy(spec):
        # .copy(): the array owns its buffer (a reshaped array would be a view of a hidden 1-d owner)
        return dec_vals(spec["vals"], spec["dtype"], spec["shape"]).copy()

    def build_scipy(spec):
        dense = dec_vals(spec["vals"], spec["dtype"], spec["shape"])
        cls = {"csr": sps.csr_array, "csc": sps.csc_array, "coo": sps.coo_array}[spec["kind"]]
        s = cls(dense)
        idx = np.dtype(spec.get("idx_dtype", "int32"))
        if spec["kind"] == "coo":
            s.coords = tuple(c.astype(idx) for c in s.coords)
        else:
            s.indptr = s.indptr.astype(idx)
            s.indices = s.indices.astype(idx)
        return s

    def scipy_json(s):
        d = {"kind": s.format, "shape": [int(v) for v in s.shape], "data": enc_vals(s.data), "dtype": str(s.dtype)}
        if s.format == "coo":
            d.update(row=[int(v) for v in s.row], col=[int(v) for v in s.col], idx_dtype=str(s.row.dtype), col_dtype=str(s.col.dtype))
        else:
            d.update(indptr=[int(v) for v in s.indptr], indices=[int(v) for v in s.indices], idx_dtype=str(s.indices.dtype),
                     ptr_dtype=str(s.indptr.dtype))
        d["canonical"] = bool(s.has_canonical_format)
        return d

    def build_arrays(spec):
        f = build_format(spec["format"])
        pos_dt = np.dtype(f"int{f.pos_width}")
        crd_dt = np.dtype(f"int{f.crd_width}")
        arrs = []
        for kind, a in zip(spec["array_kinds"], spec["arrays"]):
            arrs.append(np.array(a, dtype=pos_dt if kind == "pos" else crd_dt))
        arrs.append(dec_vals(spec["vals"], spec["format"].get("dtype") or spec["format"]["json"]["dtype"]))
        return f, tuple(arrs)

    def build_operand(spec):
        """returns (backend Array, list of the NumPy buffers it was built from (for the before/after check))"""
        via = spec["via"]
        if via == "numpy":
            a = build_numpy(spec)
            return sparse.asarray(a), [a]
        if via == "scipy":
            s = build_scipy(spec)
            bufs = [s.data] + ([s.row, s.col] if s.format == "coo" else [s.indptr, s.indices])
            return sparse.asarray(s), bufs
        if via == "arrays":
            f, arrs = build_arrays(spec)
            return sparse.from_constituent_arrays(format=f, arrays=arrs, shape=tuple(spec["shape"])), list(arrs)
        if via == "convert":  # an operand obtained from another by asformat (e.g. dense with a level order)
            x, bufs = build_operand(spec["from"])
            return x.asformat(build_format(spec["format"])), bufs
        raise ValueError(via)

    def input_ranges(bufs):
        return [(b.ctypes.data, b.ctypes.data + b.nbytes) for b in bufs if b.nbytes]

    def alias_problems(res, bufs, operands=()):
        """pointers of an `owns_memory` result: pairwise distinct (when non-empty), outside every input buffer and
        different from every field of a (distinct) operand"""
        probs = []
        ptrs = storage_ptrs(res)
        for o in operands:
            if o is res:
                continue
            optrs = {alloc: j for j, (alloc, _al, _n) in enumerate(storage_ptrs(o)) if alloc}
            for k, (alloc, _al, _n) in enumerate(ptrs):
                if alloc and alloc in optrs:
                    probs.append(f"field {k} of the result is field {optrs[alloc]} of an operand (same allocation)")
                    if hasattr(type(o._storage), "__del__"):
                        GUARD["shared"][alloc] = GUARD["shared"].get(alloc, 0) + 1
        seen = {}
        for k, (alloc, aligned, n) in enumerate(ptrs):
            if alloc == 0:
                continue
            if alloc in seen:
                probs.append(f"fields {seen[alloc]} and {k} of the result share the allocation {alloc:#x}")
            seen[alloc] = k
            for lo, hi in input_ranges(bufs):
                if lo <= aligned < hi or lo <= alloc < hi:
                    probs.append(f"field {k} of the result points into an input buffer")
        return probs

    # ---------------------------------------------------------------------------------------------
    # task handlers
    # ---------------------------------------------------------------------------------------------
    def t_roundtrip(t):
        """NumPy / SciPy / constituent arrays -> backend -> back"""
        spec = t["operand"]
        res = {}
        if spec["via"] == "numpy":
            a = build_numpy(spec)
            before = a.tobytes()
            x = sparse.asarray(a)
            res["desc"] = desc(x, with_fields=True)
            back = sparse.to_numpy(x)
            res["back"] = {"shape": list(back.shape), "dtype": str(back.dtype), "vals": enc_vals(np.ascontiguousarray(back))}
            res["input_unchanged"] = a.tobytes() == before
            res["shares_memory"] = bool(np.shares_memory(a, back))
        elif spec["via"] == "scipy":
            s = build_scipy(spec)
            res["scipy_in"] = scipy_json(s)
            before = [s.data.tobytes()] + [c.tobytes() for c in (s.coords if s.format == "coo" else (s.indptr, s.indices))]
            x = sparse.asarray(s)
            res["desc"] = desc(x, with_fields=True)
            back = sparse.to_scipy(x)
            res["scipy_back"] = scipy_json(back)
            after = [s.data.tobytes()] + [c.tobytes() for c in (s.coords if s.format == "coo" else (s.indptr, s.indices))]
            res["input_unchanged"] = before == after
            x2 = sparse.asarray(back)
            res["desc2"] = desc(x2)
        else:
            x, bufs = build_operand(spec)
            before = [b.tobytes() for b in bufs]
            res["desc"] = desc(x, with_fields=True)
            res["input_unchanged"] = before == [b.tobytes() for b in bufs]
            res["given"] = {"arrays": [[int(v) for v in b] for b in bufs[:-1]], "vals": enc_vals(bufs[-1])}
            if spec.get("copy"):
                y = x.copy()
                res["copy"] = desc(y)
                res["copy_disjoint"] = not any(np.shares_memory(p, q) for p in y.get_constituent_arrays() for q in bufs)
        return res

    def t_to_numpy_order(t):
        """dense array stored with a level order (through asformat), then to_numpy"""
        a = build_numpy(t["operand"])
        x = sparse.asarray(a)
        f = build_format(t["format"])
        y = x.asformat(f)
        res = {"desc": desc(y)}
        try:
            back = sparse.to_numpy(y)
            res["back"] = {"shape": list(back.shape), "dtype": str(back.dtype), "vals": enc_vals(np.ascontiguousarray(back))}
        except Exception as e:  # noqa: BLE001
            res["back_exc"] = f"{type(e).__name__}: {str(e)[:200]}"
        return res

    def t_op(t):
        ops = [build_operand(s) for s in t["operands"]]
        arrays = [o[0] for o in ops]
        bufs = [b for o in ops for b in o[1]]
        before = [b.tobytes() for b in bufs]
        GUARD["ranges"] = input_ranges(bufs)
        GUARD["invalid"] = []
        GUARD["shared"] = {}
        op = t["op"]
        res = {"operands": [desc(a) for a in arrays]}
        if op == "add":
            r = sparse.add(arrays[0], arrays[1])
        elif op == "reshape":
            r = sparse.reshape(arrays[0], tuple(t["shape"]))
        elif op == "asformat":
            if "format_clone" in t:
                tgt = clone_format(arrays[0].format, t["format_clone"])
            else:
                tgt = build_format(t["format"]) if "format" in t else build_operand(t["like"])[0].format
            r = arrays[0].asformat(tgt)
        else:
            raise ValueError(op)
        res["same_object"] = any(r is a for a in arrays)
        res["result"] = desc(r)
        res["owns"] = hasattr(type(r._storage), "__del__")
        if res["owns"] and not res["same_object"]:
            res["alias"] = alias_problems(r, bufs, arrays)
        res["input_unchanged"] = before == [b.tobytes() for b in bufs]
        if t.get("then_numpy"):
            d = sparse.formats.Dense().with_ndim(r.ndim).with_dtype(r.dtype.np_dtype).build()
            back = sparse.to_numpy(r.asformat(d))
            res["back"] = {"shape": list(back.shape), "dtype": str(back.dtype), "vals": enc_vals(np.ascontiguousarray(back))}
        if t.get("then_scipy"):
            res["scipy_back"] = scipy_json(sparse.to_scipy(r))
        # the result must survive its operands
        snap = desc(r)
        del arrays, ops, bufs
        gc.collect()
        poison([len(snap["vals"])] * 4, np)
        res["result_after_del"] = desc(r) == snap
        del r
        gc.collect()
        res["invalid_free"] = len(GUARD["invalid"])
        GUARD["ranges"] = []
        return res

    # ---------------------------------------------------------------------------------------------
    # inputs in every memory layout / scipy inputs that are valid but not canonical, consumed by every operation
    # ---------------------------------------------------------------------------------------------
    def build_layout(spec):
        """a NumPy array with the values of the spec in the requested memory layout (the parent's oracle is the values)"""
        a = dec_vals(spec["vals"], spec["dtype"], spec["shape"]).copy()
        nd = a.ndim
        lay = spec["layout"]
        if lay == "C":
            v = a
        elif lay == "F":
            v = np.asfortranarray(a)
        elif lay == "T":                       # the transpose of a C-ordered array: a view, Fortran-contiguous
            v = np.ascontiguousarray(a.T).T
        elif lay == "strided":                 # every second element along every axis of a larger array
            big = np.full(tuple(2 * s for s in a.shape), 77, dtype=a.dtype)
            sl = (slice(None, None, 2),) * nd
            big[sl] = a
            v = big[sl]
        elif lay == "negative":                # negative strides along every axis
            sl = (slice(None, None, -1),) * nd
            v = np.ascontiguousarray(a[sl])[sl]
        elif lay == "negative-last":           # negative stride along the last axis only
            sl = (slice(None),) * (nd - 1) + (slice(None, None, -1),)
            v = np.ascontiguousarray(a[sl])[sl]
        elif lay == "broadcast":               # zero strides: the parent made every slice along axis 0 equal
            v = np.broadcast_to(a[0].copy(), a.shape)
        elif lay == "offset":                  # C-contiguous, but not at the start of its buffer
            big = np.concatenate([np.full(3, 55, dtype=a.dtype), a.reshape(-1)])
            v = big[3:].reshape(a.shape)
        elif lay == "readonly":
            v = a
            v.setflags(write=False)
        elif lay == "F-readonly":
            v = np.asfortranarray(a)
            v.setflags(write=False)
        elif lay == "swapped":                 # non-native byte order
            v = a.astype(a.dtype.newbyteorder())
        else:
            raise ValueError(lay)
        if v.shape != a.shape or not np.array_equal(np.asarray(v), a):
            raise RuntimeError(f"layout {lay}: the view does not have the requested values")
        return v, a

    def build_scipy_variant(spec):
        """a scipy array storing exactly the listed entries (row, col, value), in this order — explicit zeros, unsorted
        indices and duplicate entries are all valid inputs; `flag_canonical` asks for has_canonical_format == True (the entries
        are then sorted and unique; scipy is told by `sum_duplicates()`, which keeps explicit zeros)"""
        R, C = spec["shape"]
        ent = spec["entries"]
        dt = np.dtype(spec["dtype"])
        idx = np.dtype(spec.get("idx_dtype", "int32"))
        vals = dec_vals([e[2] for e in ent], spec["dtype"])
        rows = np.array([e[0] for e in ent], dtype=idx)
        cols = np.array([e[1] for e in ent], dtype=idx)
        lay = spec.get("parts_layout", "C")

        def part(x):     # the arrays handed to the scipy constructor, possibly as non-contiguous views
            if lay == "strided":
                big = np.zeros(2 * len(x), dtype=x.dtype)
                big[::2] = x
                return big[::2]
            if lay == "negative":
                return np.ascontiguousarray(x[::-1])[::-1]
            return x
        kind = spec["kind"]
        if kind == "coo":
            s = sps.coo_array((part(vals), (part(rows), part(cols))), shape=(R, C))
            if lay != "C":
                s.data = part(vals)
            if spec.get("flag_canonical"):
                s.sum_duplicates()
        else:
            major, minor, n = (rows, cols, R) if kind == "csr" else (cols, rows, C)
            if np.any(np.diff(major) < 0):
                raise RuntimeError("entries of a compressed variant must be grouped by the compressed axis")
            indptr = np.zeros(n + 1, dtype=idx)
            for m in major:
                indptr[m + 1] += 1
            indptr = np.cumsum(indptr).astype(idx)
            cls = sps.csr_array if kind == "csr" else sps.csc_array
            s = cls((part(vals), part(minor.copy()), indptr), shape=(R, C))
            if lay != "C":
                s.data, s.indices = part(vals), part(minor.copy())
        if s.nnz != len(ent) or s.dtype != dt:
            raise RuntimeError(f"scipy kept {s.nnz} of {len(ent)} entries / dtype {s.dtype}")
        if "flag_canonical" in spec and bool(s.has_canonical_format) != bool(spec["flag_canonical"]):
            raise RuntimeError(f"has_canonical_format is {s.has_canonical_format}, the case asks for {spec['flag_canonical']}")
        return s

    def build_arrays_layout(spec):
        """from_constituent_arrays with (some of) the constituent arrays given as non-contiguous views"""
        f, arrs = build_arrays(spec)
        lays = spec["layouts"]
        out = []
        for a, lay in zip(arrs, lays, strict=True):
            if lay == "strided":
                big = np.full(2 * len(a), 9, dtype=a.dtype)
                big[::2] = a
                out.append(big[::2])
            elif lay == "negative":
                out.append(np.ascontiguousarray(a[::-1])[::-1])
            elif lay == "offset":
                out.append(np.concatenate([np.full(2, 9, dtype=a.dtype), a])[2:])
            elif lay == "readonly":
                b = a.copy()
                b.setflags(write=False)
                out.append(b)
            else:
                out.append(a)
        return f, tuple(out)

    def t_consume(t):
        """one input (a NumPy array in a given memory layout / a scipy array with a given entry list / constituent arrays in
        given layouts) -> backend array (copy = None / True / False) -> every operation of the task.  Reports what each
        operation returned (constituent arrays, or the NumPy / SciPy object) or raised; the parent has the values."""
        spec = t["input"]
        res = {"ops": []}
        via = spec["via"]
        if via == "numpy-layout":
            src, _a = build_layout(spec)
            res["flags"] = {"c": bool(src.flags.c_contiguous), "f": bool(src.flags.f_contiguous), "writeable": bool(src.flags.writeable),
                            "strides": [int(s) for s in src.strides], "byteorder": src.dtype.byteorder}
            keep = [src]
            before = [np.asarray(src).tobytes()]
        elif via == "scipy-variant":
            src = build_scipy_variant(spec)
            res["scipy_in"] = scipy_json(src)
            keep = [src.data] + ([src.row, src.col] if src.format == "coo" else [src.indptr, src.indices])
            before = [np.asarray(b).tobytes() for b in keep]
        else:
            f, arrs = build_arrays_layout(spec)
            keep = list(arrs)
            before = [np.asarray(b).tobytes() for b in keep]
        try:
            if via == "arrays-layout":
                x = sparse.from_constituent_arrays(format=f, arrays=arrs, shape=tuple(spec["shape"]))
            else:
                x = sparse.asarray(src, copy=t.get("copy"))
        except Exception as e:  # noqa: BLE001
            res["asarray_exc"] = {"exc": type(e).__name__, "msg": str(e)[:200]}
            return res
        res["x"] = desc(x)
        GUARD["ranges"] = input_ranges([b for b in keep if isinstance(b, np.ndarray) and b.flags.c_contiguous])
        GUARD["invalid"] = []
        GUARD["shared"] = {}
        for op in t["ops"]:
            try:
                o = op["op"]
                if o == "to_numpy":
                    back = sparse.to_numpy(x)
                    out = {"np": {"shape": list(back.shape), "dtype": str(back.dtype), "vals": enc_vals(np.ascontiguousarray(back))}}
                elif o == "to_scipy":
                    m = sparse.to_scipy(x)
                    out = {"sp": {"kind": m.format, "shape": [int(v) for v in m.shape], "dtype": str(m.dtype), "vals": enc_vals(m.toarray())}}
                elif o == "add":
                    if op["other"] == "self":
                        r = sparse.add(x, x)
                    else:
                        y = build_operand(op["other"])[0]
                        r = sparse.add(y, x) if op.get("swap") else sparse.add(x, y)
                    out = {"arr": desc(r)}
                elif o == "reshape":
                    out = {"arr": desc(sparse.reshape(x, tuple(op["shape"])))}
                elif o == "asformat":
                    tgt = build_format(op["format"]) if "format" in op else build_operand(op["like"])[0].format
                    r = x.asformat(tgt)
                    if op.get("then") == "to_scipy":
                        m = sparse.to_scipy(r)
                        out = {"sp": {"kind": m.format, "shape": [int(v) for v in m.shape], "dtype": str(m.dtype), "vals": enc_vals(m.toarray())}}
                    elif op.get("then") == "to_numpy":
                        back = sparse.to_numpy(r)
                        out = {"np": {"shape": list(back.shape), "dtype": str(back.dtype), "vals": enc_vals(np.ascontiguousarray(back))}}
                    else:
                        out = {"arr": desc(r)}
                else:
                    raise ValueError(o)
            except Exception as e:  # noqa: BLE001
                out = {"exc": type(e).__name__, "msg": str(e)[:160]}
            res["ops"].append(out)
        res["input_unchanged"] = before == [np.asarray(b).tobytes() for b in keep]
        res["x_after"] = desc(x) == res["x"]
        res["invalid_free"] = len(GUARD["invalid"])
        GUARD["ranges"] = []
        return res

    def t_determine(t):
        res = []
        for case in t["cases"]:
            try:
                fmts = [fmt_from_json(j) for j in case["formats"]]
                r = F._determine_format(*fmts, dtype=sparse.asdtype(np.dtype(case["dtype"])), union=case["union"],
                                        out_ndim=case["out_ndim"])
                res.append({"ok": fmt_json(r)})
            except Exception as e:  # noqa: BLE001
                res.append({"err": type(e).__name__, "msg": str(e)[:120]})
        return res

    def t_formats(t):
        """factories and predicates: levels, field names, is_this_format"""
        res = []
        for spec in t["specs"]:
            try:
                f = build_format(spec)
                st = f._get_ctypes_type()
                res.append({"fmt": fmt_json(f), "fields": [x[0] for x in st._fields_],
                            "dense": sparse.formats.Dense.is_this_format(f), "coo": sparse.formats.Coo.is_this_format(f),
                            "csf": sparse.formats.Csf.is_this_format(f)})
            except Exception as e:  # noqa: BLE001
                res.append({"err": type(e).__name__, "msg": str(e)[:120]})
        return res

    # ---------------------------------------------------------------------------------------------
    # ownership scenarios
    # ---------------------------------------------------------------------------------------------
    def poison(sizes, np_):
        """allocate and scribble over blocks of the sizes just released, so that a dangling pointer reads garbage"""
        junk = []
        for n in sizes:
            for _ in range(6):
                j = np_.empty(max(int(n), 1), dtype=np_.float64)
                j.fill(-7.25e300)
                junk.append(j)
        del junk

    class Tracker:
        """names the objects of a scenario, logs `_hold_ref`, `free_memref` and finalisations"""

        def __init__(self):
            self.role = {}       # id(obj) -> role, while the object is alive (removed by its finaliser)
            self.events = []     # events of the statement being executed
            self.buf_of = {}     # allocated pointer -> (storage role, field index)
            self.shared = {}     # allocated pointer -> further (storage role, field index) claiming the same allocation
            self.quiet = 0
            self.n = 0

        def _subst(self, old, new):
            for ev in self.events:
                for i in range(1, len(ev)):
                    if ev[i] == old:
                        ev[i] = new

        def name(self, obj, role):
            key = id(obj)
            old = self.role.get(key)
            if old is None:
                self.role[key] = role

                def fin(key=key):
                    self.events.append(["finalized", self.role.pop(key, "?")])

                weakref.finalize(obj, fin).atexit = False
            elif old != role:
                self.rename(old, role)
            return role

        def rename(self, old, new):
            """also the raw-pointer array underneath a re-viewed constituent array (role "raw:<role of the view>")"""
            for o, n in ((old, new), ("raw:" + old, "raw:" + new)):
                for k, r in list(self.role.items()):
                    if r == o:
                        self.role[k] = n
                self._subst(o, n)

        def role_of(self, obj):
            r = self.role.get(id(obj))
            if r is None:
                self.n += 1
                r = self.name(obj, f"anon{self.n}")
            return r

    def t_ownership(t):
        """run a program of statements, then delete the listed names in the given order.

        statements: ["np", name, spec] | ["scipy", name, spec, [names of its arrays]?] | ["asarray", name, src, copy?]
                    | ["from_arrays", name, fmtspec, [names], shape] | ["op", name, opname, [names], params]
                    | ["views", [names], src] | ["to_numpy", name, src] | ["to_scipy", name, src] | ["copy", name, src]

        Every array the program reads through a surviving name (a NumPy array, the attributes of a SciPy matrix, the fields
        of a backend array) is bound, when it is created, to the allocation it points into: an external NumPy array that
        owns its buffer (given by the program, or a copy the library made) or an owning storage.  After each deletion step the
        weak reference to that allocation's owner decides "released while a view is alive" (no reliance on reused memory
        showing different values); then blocks of the released sizes are allocated and scribbled over and every survivor is
        re-read and compared with the values saved before the first deletion.
        """
        tr = Tracker()
        orig_hold, orig_free = F._hold_ref, F.free_memref

        def hold(owner, obj):
            if isinstance(obj, np.ndarray):   # a storage built over `obj`: the allocation behind it is an external source buffer
                root = obj
                while isinstance(root.base, np.ndarray):
                    root = root.base
                if root.flags.owndata:
                    reg_alloc(root, root)
            if not tr.quiet:
                tr.events.append(["hold", tr.role_of(owner), tr.role_of(obj)])
                held.append((weakref.ref(owner), weakref.ref(obj)))
            return orig_hold(owner, obj)

        def free(ref):
            p = ctypes.cast(ref.allocated, ctypes.c_void_p).value or 0
            if tr.shared.get(p):
                owner = tr.shared[p].pop()
            else:
                owner = tr.buf_of.pop(p, ("unknown", p))
            tr.events.append(["free", *owner])
            n = len(GUARD["invalid"])
            r = guarded_free(ref)
            if len(GUARD["invalid"]) > n:
                problems.append("free() of a buffer owned by another object attempted (prevented by the harness)")
            return r

        orig_m2n = F.ranked_memref_to_numpy

        def memref_to_numpy(ref):
            """names the pair of objects the MLIR runtime makes for an element type it re-views (complex64/128, float16):
            `raw` (the raw-pointer array) and `raw.view(dtype)` (what get_constituent_arrays returns; NumPy bases every further
            view on `raw`).  Which of the two gets the keep-alive is what the `_hold_ref` log shows."""
            arr = orig_m2n(ref)
            if not tr.quiet and isinstance(arr.base, np.ndarray):
                r = tr.role_of(arr)
                root = arr
                while isinstance(root.base, np.ndarray):
                    root = root.base
                tr.name(root, "raw:" + r)
                tr.events.append(["cast", r])
            return arr

        F._hold_ref, F.free_memref, F.ranked_memref_to_numpy = hold, free, memref_to_numpy
        GUARD["ranges"] = []
        GUARD["invalid"] = []
        GUARD["shared"] = {}
        env = {}
        snaps = {}
        inbytes = {}
        sizes = []
        trace = []
        problems = []
        held = []        # (weakref owner, weakref obj) of the `_hold_ref` calls of the running statement
        allocs = []      # [lo, hi, weakref to the object whose finalisation releases the block, id of that object]
        known = set()
        bound = {}       # name -> [(part, weakref to the owner of the allocation the part points into, role of the owner)]
        untracked = []

        def reg_alloc(owner, arr=None, lo=None, nbytes=None):
            """`owner`: the object whose finalisation releases the block (a NumPy array that owns its data, an owning storage)"""
            if arr is not None:
                lo, nbytes = arr.ctypes.data, arr.nbytes
            if not nbytes or (id(owner), lo) in known:
                return
            known.add((id(owner), lo))
            allocs.append([lo, lo + nbytes, weakref.ref(owner), id(owner)])

        def parts_of(v):
            """the NumPy arrays through which the program reads `v`"""
            if isinstance(v, np.ndarray):
                return [("", v)]
            if isinstance(v, sps.sparray | sps.spmatrix):
                names = ("row", "col", "data") if v.format == "coo" else ("indptr", "indices", "data")
                return [(n, getattr(v, n)) for n in names]
            tr.quiet += 1
            try:
                return [(f"field {k}", a) for k, a in enumerate(v.get_constituent_arrays())]
            finally:
                tr.quiet -= 1

        def bind(name):
            """resolve, now that everything is alive, which allocation every part of `env[name]` points into; what is checked
            after each deletion is the weak reference to that allocation's owner, not the bytes"""
            res = []
            for part, a in parts_of(env[name]):
                if a.nbytes == 0:
                    continue
                root = a
                while isinstance(root.base, np.ndarray):
                    root = root.base
                if root.flags.owndata:      # a NumPy base chain down to an array that owns its data: kept alive by NumPy itself
                    continue
                p = a.ctypes.data
                hit = None
                for lo, hi, ref, oid in reversed(allocs):
                    if lo <= p < hi and ref() is not None:
                        hit = (ref, tr.role.get(oid, "an internal array"))
                        break
                if hit is None:
                    untracked.append(f"{name}{' ' + part if part else ''}: points to {p:#x}, inside no live allocation the harness tracks")
                else:
                    res.append((part, hit[0], hit[1]))
            bound[name] = res

        def freed_while_alive():
            bad = []
            for n in env:
                for part, ref, role in bound.get(n, []):
                    if ref() is None:
                        bad.append({"name": n, "part": part, "allocation": role})
            return bad

        def snapshot(name):
            v = env[name]
            tr.quiet += 1
            try:
                if isinstance(v, np.ndarray):
                    return ["np", list(v.shape), enc_vals(np.ascontiguousarray(v))]
                if isinstance(v, sps.sparray | sps.spmatrix):
                    return ["sp", scipy_json(v)]
                return ["arr", desc(v)]
            finally:
                tr.quiet -= 1

        def register_array(name, x, owning):
            tr.name(x, f"array:{name}")
            st = x._storage
            tr.name(st, f"storage:{name}")
            nfields = len(st.get__fields_())
            if owning:
                tr.quiet += 1
                for v in x.get_constituent_arrays():
                    reg_alloc(st, lo=v.ctypes.data, nbytes=v.nbytes)
                tr.quiet -= 1
                for k, (alloc, _al, n) in enumerate(storage_ptrs(x)):
                    if alloc:
                        if alloc in tr.buf_of:
                            problems.append(f"{name}: field {k} shares its allocation with {tr.buf_of[alloc]}")
                            tr.shared.setdefault(alloc, []).append((f"storage:{name}", k))
                        else:
                            tr.buf_of[alloc] = (f"storage:{name}", k)
                    sizes.append(n)
            del st
            return nfields

        def held_view(ev, src=None):
            """for a `_hold_ref(<constituent array or the raw array underneath it>, storage)` event whose array has no name yet:
            the (anonymous) role of the constituent array, else None"""
            if ev[0] != "hold" or not ev[2].startswith("storage:") or (src is not None and ev[2] != f"storage:{src}"):
                return None
            r = ev[1][4:] if ev[1].startswith("raw:") else ev[1]
            return r if r.startswith("anon") else None

        def name_copy_objects(new, src):
            """`Array.copy()`: the copies the new storage holds and the views of the source they were made from"""
            k = 0
            for ev in list(tr.events):
                if ev[0] == "hold" and ev[1] == f"storage:{new}" and ev[2].startswith("anon"):
                    tr.rename(ev[2], f"np:{new}:{k}")
                    k += 1
            k = 0
            for ev in list(tr.events):
                r = held_view(ev, src)
                if r:
                    tr.rename(r, f"view:copy-{new}:{k}")
                    k += 1

        try:
            for st in t["program"]:
                tr.events = []
                del held[:]
                kind = st[0]
                info = {}
                if kind == "np":
                    a = build_numpy(st[2])
                    env[st[1]] = a
                    tr.name(a, f"np:{st[1]}")
                    reg_alloc(a, a)
                    inbytes[st[1]] = a.tobytes()
                    GUARD["ranges"] += input_ranges([a])
                    sizes.append(a.size)
                    del a
                elif kind == "scipy":
                    # a SciPy matrix whose attribute arrays own their buffers; the program keeps no reference of its own to
                    # them unless the statement names them (st[3]: names for the arrays in the order `_from_scipy` uses them)
                    m = build_scipy(st[2])
                    m.data = m.data.copy()
                    if m.format == "coo":
                        m.coords = tuple(c.copy() for c in m.coords)
                        comps = [m.row, m.col, m.data]
                    else:
                        m.indptr, m.indices = m.indptr.copy(), m.indices.copy()
                        comps = [m.indptr, m.indices, m.data]
                    tr.name(m, f"scipy:{st[1]}")
                    for k, c in enumerate(comps):
                        if not c.flags.owndata:
                            raise RuntimeError("scipy component does not own its buffer")
                        tr.name(c, f"np:{st[1]}:{k}")
                        reg_alloc(c, c)
                        sizes.append(c.size)
                        GUARD["ranges"] += input_ranges([c])
                    for n, c in zip(st[3] if len(st) > 3 else [], comps):
                        if n is not None:
                            env[n] = c
                            inbytes[n] = c.tobytes()
                    env[st[1]] = m
                    info["format"] = m.format
                    del m, comps, c
                elif kind == "asarray":
                    src = env[st[2]]
                    cp = st[3] if len(st) > 3 else None
                    x = sparse.asarray(src, copy=cp)
                    if isinstance(src, BArray):
                        if x is src:
                            info["alias_of"] = st[2]
                        else:   # `asarray(x, copy=True)` is `x.copy()`
                            info["nfields"] = register_array(st[1], x, False)
                            info["copied"] = True
                            name_copy_objects(st[1], st[2])
                    else:
                        info["nfields"] = register_array(st[1], x, False)
                        k = 0
                        for (_ow, ob), ev in zip(list(held), [e for e in tr.events if e[0] == "hold"]):
                            o = ob()
                            if isinstance(src, np.ndarray):
                                # the flattened view `_from_numpy` hands to the storage; with copy=True its base is the copy
                                if ev[2].startswith("anon"):
                                    tr.rename(ev[2], f"flat:{st[1]}")
                                if cp and o is not None and isinstance(o.base, np.ndarray) and o.base is not src:
                                    tr.name(o.base, f"np:{st[1]}:copy")
                                    info["copied"] = True
                            elif ev[2].startswith("anon"):   # scipy: copies (`copy=True`) and the `pos` array of COO
                                tr.rename(ev[2], f"np:{st[1]}:{'pos' if (src.format == 'coo' and k == 0) else k}")
                                info["copied"] = bool(cp)
                            k += 1
                            del o
                    env[st[1]] = x
                    del x, src
                elif kind == "from_arrays":
                    f = build_format(st[2])
                    x = sparse.from_constituent_arrays(format=f, arrays=tuple(env[n] for n in st[3]), shape=tuple(st[4]))
                    info["nfields"] = register_array(st[1], x, False)
                    env[st[1]] = x
                    del x
                elif kind == "op":
                    args = [env[n] for n in st[3]]
                    p = st[4] if len(st) > 4 else {}
                    if st[2] == "add":
                        x = sparse.add(args[0], args[1])
                    elif st[2] == "reshape":
                        x = sparse.reshape(args[0], tuple(p["shape"]))
                    elif st[2] == "asformat":
                        x = args[0].asformat(clone_format(args[0].format, p["format_clone"]) if "format_clone" in p
                                             else build_format(p["format"]))
                    else:
                        raise ValueError(st[2])
                    for ev in list(tr.events):  # reshape wraps the target shape in a temporary backend array
                        if ev[0] == "hold" and ev[1].startswith("anon") and ev[2].startswith("anon"):
                            tr.rename(ev[1], f"storage:shape:{st[1]}")
                            tr.rename(ev[2], f"flat:shape:{st[1]}")
                    same = [n for n, a in zip(st[3], args) if x is a]
                    if same:
                        info["alias_of"] = same[0]
                    else:
                        live = [v for v in env.values() if isinstance(v, np.ndarray)]
                        al = alias_problems(x, live, args)
                        problems.extend(f"{st[1]}: {p_}" for p_ in al)
                        info["aliased"] = bool(al)
                        del live
                        info["owns"] = hasattr(type(x._storage), "__del__")
                        info["nfields"] = register_array(st[1], x, info["owns"])
                    env[st[1]] = x
                    del x, args
                elif kind == "views":
                    vs = env[st[2]].get_constituent_arrays()
                    for k, v in enumerate(vs):
                        tr.name(v, f"view:{st[2]}:{k}")
                    for n, v in zip(st[1], vs, strict=True):
                        if n is not None:
                            env[n] = v
                    del vs, v
                elif kind == "to_numpy":
                    a = sparse.to_numpy(env[st[2]])
                    env[st[1]] = a
                    tr.name(a, f"np:{st[1]}")
                    for ev in list(tr.events):   # the single array of get_constituent_arrays() (it may be gone already)
                        r = held_view(ev)
                        if r:
                            tr.rename(r, f"view:{st[1]}:data")
                    base = a.base
                    if base is not None:
                        tr.events.append(["base", f"np:{st[1]}", tr.role.get(id(base), type(base).__name__)])
                    del a, base
                elif kind == "copy":
                    x = env[st[2]].copy()
                    info["nfields"] = register_array(st[1], x, False)
                    name_copy_objects(st[1], st[2])
                    env[st[1]] = x
                    del x
                elif kind == "to_scipy":
                    m = sparse.to_scipy(env[st[2]])
                    tr.name(m, f"scipy:{st[1]}")
                    k = 0
                    for ev in list(tr.events):   # the arrays of get_constituent_arrays(), in order
                        r = held_view(ev, st[2])
                        if r:
                            tr.rename(r, f"view:{st[1]}:{k}")
                            k += 1
                    info["nviews"] = k
                    comps = []
                    names = ("data", "row", "col") if m.format == "coo" else ("data", "indices", "indptr")
                    for j, an in enumerate(names):   # how each attribute of the matrix relates to the views it was given
                        c = getattr(m, an)
                        chain, r = [], c
                        while isinstance(r, np.ndarray):
                            chain.append(r)
                            r = r.base
                        hit = None
                        for depth, r in enumerate(chain):
                            role = tr.role.get(id(r), "")
                            if role.startswith((f"view:{st[1]}:", f"raw:view:{st[1]}:")):
                                hit = (depth, int(role.rsplit(":", 1)[1]), role)
                                break
                        if hit is None:
                            comps.append([an, "copy"])
                            tr.name(c, f"np:{st[1]}:{an}")
                        elif hit[0] == 0:
                            comps.append([an, "same", hit[1]])
                        else:   # a NumPy view of the array given (or of the raw array underneath it)
                            comps.append([an, "view", hit[1]])
                            tr.name(c, f"np:{st[1]}:{an}")
                            tr.events.append(["base", f"np:{st[1]}:{an}", hit[2]])
                        del c, chain, r
                    info["components"] = comps
                    info["format"] = m.format
                    env[st[1]] = m
                    del m
                else:
                    raise ValueError(kind)
                gc.collect()
                for n in env:
                    if n not in bound:
                        bind(n)
                info["cast"] = sorted({ev[1] for ev in tr.events if ev[0] == "cast"})
                trace.append({"stmt": st[:2], "events": tr.events, "info": info})
            for n in env:
                snaps[n] = snapshot(n)
            early = freed_while_alive()
            if early:
                problems.append(f"an allocation was released before any deletion: {early}")
            # deletions (a step deletes one name or a group of names)
            dels = []
            for name in t["delete"]:
                tr.events = []
                for n in (name if isinstance(name, list) else [name]):
                    del env[n]
                gc.collect()
                fwa = freed_while_alive()      # decided by weak references, before any memory is reused
                poison(sizes[-6:], np)
                churn = [np.full(max(int(n), 1), 0x5A, dtype=np.uint8) for n in sizes[-8:] for _ in range(3)]
                ok = {}
                for n in env:
                    try:
                        ok[n] = snapshot(n) == snaps[n]
                    except Exception as e:  # noqa: BLE001
                        ok[n] = f"{type(e).__name__}: {str(e)[:100]}"
                inputs_ok = {n: (env[n].tobytes() == b) for n, b in inbytes.items() if n in env}
                del churn
                dels.append({"deleted": name, "events": tr.events, "survivors_ok": ok, "inputs_ok": inputs_ok,
                             "freed_while_alive": fwa, "survivors": sorted(env)})
            tr.events = []
            return {"trace": trace, "dels": dels, "problems": problems, "untracked": untracked}
        finally:
            F._hold_ref, F.free_memref, F.ranked_memref_to_numpy = orig_hold, guarded_free, orig_m2n
            GUARD["ranges"] = []

    handlers = {"roundtrip": t_roundtrip, "to_numpy_order": t_to_numpy_order, "op": t_op, "determine": t_determine,
                "formats": t_formats, "ownership": t_ownership, "consume": t_consume}

    for t in tasks:
        out.write(json.dumps({"start": t["id"]}) + "\n")
        out.flush()
        try:
            res = handlers[t["kind"]](t)
        except Exception as e:  # noqa: BLE001
            res = {"exc": type(e).__name__, "msg": str(e)[:400]}
        gc.collect()   # what the task left in reference cycles (exceptions hold frames) is released now, not inside the next task
        out.write(json.dumps({"id": t["id"], "res": res}) + "\n")
        out.flush()
    out.write(json.dumps({"done": True}) + "\n")
    out.flush()
    os._exit(0)  # skip interpreter shutdown: no finaliser of the backend runs after the last report


if __name__ == "__main__":
    main()

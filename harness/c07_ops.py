"""C07 — the call registry of the fill-value sweep: one entry per name of sparse.__all__ that accepts an array.

Each entry:  name -> Op(impl, ref, kind, ...)
  impl(sp, x, y)  : the call on the sparse operand(s)  (x, y : sparse arrays; y has the same fill as x)
  ref(np, d, e)   : the same computation in NumPy on the densified operand(s)
  kind            : 'value'  right answer at every position, or ValueError
                    'zero'   defined for zero fill only: nonzero fill must raise ValueError
                    'join'   joins: like 'value'; differently filled operands must raise ValueError
Names of sparse.__all__ that take no array (constants, dtypes, creation functions) are listed in NO_ARRAY
with the reason; the check fails if a name of __all__ is in neither table (a new public function must be
classified before the sweep can claim "every name").
"""
from __future__ import annotations

import io
from dataclasses import dataclass, field
from typing import Callable

import numpy as np


@dataclass
class Op:
    impl: Callable
    ref: Callable
    kind: str = "value"
    formats: tuple = ("coo", "gcxs")
    dtypes: tuple = ("float", "bool")  # which operand dtypes make sense
    note: str = ""
    tol: bool = False  # floating-point results compared with a tolerance


OPS: dict[str, Op] = {}


def op(name, impl, ref, **kw):
    OPS[name] = Op(impl, ref, **kw)


# ---- element-wise functions re-exported from NumPy ------------------------------------------------
UNARY = ["abs", "acos", "acosh", "asin", "asinh", "atan", "atanh", "ceil", "conj", "cos", "cosh", "exp", "expm1", "floor",
         "isfinite", "isinf", "isnan", "log", "log10", "log1p", "log2", "logical_not", "negative", "positive", "sign", "sin",
         "sinh", "sqrt", "square", "tan", "tanh", "trunc", "real", "imag", "round", "isposinf", "isneginf"]
NP_NAME = {"acos": "arccos", "acosh": "arccosh", "asin": "arcsin", "asinh": "arcsinh", "atan": "arctan", "atanh": "arctanh",
           "atan2": "arctan2", "pow": "power", "bitwise_invert": "invert", "bitwise_left_shift": "left_shift",
           "bitwise_right_shift": "right_shift", "concat": "concatenate", "permute_dims": "transpose"}
for _n in UNARY:
    op(_n, (lambda n: lambda sp, x, y: getattr(sp, n)(x))(_n), (lambda n: lambda np_, d, e: getattr(np_, NP_NAME.get(n, n))(d))(_n), tol=True)
BINARY = ["add", "atan2", "divide", "equal", "floor_divide", "greater", "greater_equal", "less", "less_equal", "logaddexp",
          "logical_and", "logical_or", "logical_xor", "multiply", "not_equal", "pow", "remainder", "subtract"]
for _n in BINARY:
    op(_n, (lambda n: lambda sp, x, y: getattr(sp, n)(x, y))(_n), (lambda n: lambda np_, d, e: getattr(np_, NP_NAME.get(n, n))(d, e))(_n), tol=True)
INT_UNARY = ["bitwise_invert", "bitwise_not"]
INT_BINARY = ["bitwise_and", "bitwise_or", "bitwise_xor", "bitwise_left_shift", "bitwise_right_shift"]
for _n in INT_UNARY:
    op(_n, (lambda n: lambda sp, x, y: getattr(sp, n)(x))(_n), (lambda n: lambda np_, d, e: getattr(np_, NP_NAME.get(n, n))(d))(_n), dtypes=("int", "bool"))
for _n in INT_BINARY:
    op(_n, (lambda n: lambda sp, x, y: getattr(sp, n)(x, abs(y) % 3 if n.endswith("shift") else y))(_n),
       (lambda n: lambda np_, d, e: getattr(np_, NP_NAME.get(n, n))(d, abs(e) % 3 if n.endswith("shift") else e))(_n), dtypes=("int",) if _n.endswith("shift") else ("int", "bool"))
# the element-wise tests that compute the fill value of their result themselves: every spelling (namespace function, method,
# NumPy ufunc through __array_ufunc__, Array-API namespace)
for _n in ["isinf", "isnan"]:
    op(f"{_n}[method]", (lambda n: lambda sp, x, y: getattr(x, n)())(_n), (lambda n: lambda np_, d, e: getattr(np_, n)(d))(_n))
    op(f"{_n}[np.ufunc]", (lambda n: lambda sp, x, y: getattr(np, n)(x))(_n), (lambda n: lambda np_, d, e: getattr(np_, n)(d))(_n))
    op(f"{_n}[xp]", (lambda n: lambda sp, x, y: getattr(x.__array_namespace__(), n)(x))(_n), (lambda n: lambda np_, d, e: getattr(np_, n)(d))(_n))
    op(f"{_n}[dok]", (lambda n: lambda sp, x, y: getattr(sp, n)(sp.DOK.from_coo(x.asformat("coo"))))(_n), (lambda n: lambda np_, d, e: getattr(np_, n)(d))(_n),
       formats=("coo",), note="the DOK route")
op("elemwise", lambda sp, x, y: sp.elemwise(np.add, x, y), lambda np_, d, e: d + e)
op("clip", lambda sp, x, y: sp.clip(x, -1, 1), lambda np_, d, e: np_.clip(d, -1, 1))

# ---- reductions -----------------------------------------------------------------------------------
for _n in ["sum", "prod", "max", "min", "mean", "var", "std", "any", "all"]:
    for _ax in (None, 0, 1):
        op(f"{_n}[axis={_ax}]", (lambda n, ax: lambda sp, x, y: getattr(sp, n)(x, axis=ax))(_n, _ax),
           (lambda n, ax: lambda np_, d, e: getattr(np_, n)(d, axis=ax))(_n, _ax), tol=True)
for _n in ["nansum", "nanprod", "nanmax", "nanmin", "nanmean"]:
    for _ax in (None, 1):
        op(f"{_n}[axis={_ax}]", (lambda n, ax: lambda sp, x, y: getattr(sp, n)(x, axis=ax))(_n, _ax),
           (lambda n, ax: lambda np_, d, e: getattr(np_, n)(d, axis=ax))(_n, _ax), tol=True, dtypes=("float",))
op("nanreduce", lambda sp, x, y: sp.nanreduce(x, np.add, axis=0), lambda np_, d, e: np_.nansum(d, axis=0), tol=True, dtypes=("float",))
for _n in ["argmax", "argmin"]:
    for _ax in (None, 0, 1):
        op(f"{_n}[axis={_ax}]", (lambda n, ax: lambda sp, x, y: getattr(sp, n)(x, axis=ax))(_n, _ax),
           (lambda n, ax: lambda np_, d, e: getattr(np_, n)(d, axis=ax))(_n, _ax), note="nan-free operands only")

# ---- shape ----------------------------------------------------------------------------------------
op("reshape", lambda sp, x, y: sp.reshape(x, (2, -1)), lambda np_, d, e: d.reshape((2, -1)))
op("permute_dims", lambda sp, x, y: sp.permute_dims(x, (1, 0)), lambda np_, d, e: d.transpose((1, 0)))
op("matrix_transpose", lambda sp, x, y: sp.matrix_transpose(x), lambda np_, d, e: np_.swapaxes(d, -1, -2))
op("moveaxis", lambda sp, x, y: sp.moveaxis(x, 0, 1), lambda np_, d, e: np_.moveaxis(d, 0, 1))
op("squeeze", lambda sp, x, y: sp.squeeze(x[:, :1], axis=1), lambda np_, d, e: np_.squeeze(d[:, :1], axis=1), formats=("coo",), note="GCXS offers no squeeze")
op("expand_dims", lambda sp, x, y: sp.expand_dims(x, axis=1), lambda np_, d, e: np_.expand_dims(d, 1))
op("flip", lambda sp, x, y: sp.flip(x, axis=1), lambda np_, d, e: np_.flip(d, axis=1))
op("roll", lambda sp, x, y: sp.roll(x, 1, axis=0), lambda np_, d, e: np_.roll(d, 1, axis=0))
op("roll[flat]", lambda sp, x, y: sp.roll(x, 3), lambda np_, d, e: np_.roll(d, 3))
op("broadcast_to", lambda sp, x, y: sp.broadcast_to(x, (2,) + x.shape), lambda np_, d, e: np_.broadcast_to(d, (2,) + d.shape), formats=("coo",), note="GCXS offers no broadcast_to")
op("broadcast_arrays", lambda sp, x, y: sp.broadcast_arrays(x, y[:1]), lambda np_, d, e: np_.broadcast_arrays(d, e[:1]), formats=("coo",))
op("pad", lambda sp, x, y: sp.pad(x, 1, constant_values=x.fill_value), lambda np_, d, e: np_.pad(d, 1, constant_values=_fill_of(d)))
op("pad[default]", lambda sp, x, y: sp.pad(x, 1), lambda np_, d, e: np_.pad(d, 1), note="constant_values defaults to 0: must raise for a nonzero fill or be right")
for _n in ["concatenate", "concat"]:
    op(_n, (lambda n: lambda sp, x, y: getattr(sp, n)([x, y], axis=1))(_n), lambda np_, d, e: np_.concatenate([d, e], axis=1), kind="join")
op("stack", lambda sp, x, y: sp.stack([x, y], axis=1), lambda np_, d, e: np_.stack([d, e], axis=1), kind="join")
op("take", lambda sp, x, y: sp.take(x, np.array([2, 0]), axis=1), lambda np_, d, e: np_.take(d, np.array([2, 0]), axis=1))
op("sort", lambda sp, x, y: sp.sort(x, axis=1), lambda np_, d, e: np_.sort(d, axis=1), note="nan-free operands only")
op("sort[descending]", lambda sp, x, y: sp.sort(x, axis=0, descending=True), lambda np_, d, e: -np_.sort(-d, axis=0), dtypes=("float",), note="nan-free operands only")
op("unique_values", lambda sp, x, y: sp.unique_values(x), lambda np_, d, e: np_.unique(d))
op("unique_counts", lambda sp, x, y: _pairs(*sp.unique_counts(x)), lambda np_, d, e: _pairs(*np_.unique(d, return_counts=True)),
   note="compared as the multiset {value: count}: the count of the fill value is C07's, the order of the values is C10's")

# ---- products (zero fill only) ---------------------------------------------------------------------
op("dot", lambda sp, x, y: sp.dot(x, y.T), lambda np_, d, e: np_.dot(d, e.T), kind="zero", tol=True)
op("matmul", lambda sp, x, y: sp.matmul(x, y.T), lambda np_, d, e: np_.matmul(d, e.T), kind="zero", tol=True)
op("tensordot", lambda sp, x, y: sp.tensordot(x, y.T, axes=1), lambda np_, d, e: np_.tensordot(d, e.T, axes=1), kind="zero", tol=True)
op("einsum", lambda sp, x, y: sp.einsum("ij,kj->ik", x, y), lambda np_, d, e: np_.einsum("ij,kj->ik", d, e), kind="zero", tol=True)
op("einsum[single]", lambda sp, x, y: sp.einsum("ij->j", x), lambda np_, d, e: np_.einsum("ij->j", d), kind="zero", tol=True)
op("kron", lambda sp, x, y: sp.kron(x, y), lambda np_, d, e: np_.kron(d, e), kind="zero", tol=True)
op("outer", lambda sp, x, y: sp.outer(x, y), lambda np_, d, e: np_.outer(d, e), tol=True, note="computed element-wise: any fill is admissible if the answer is right")
op("vecdot", lambda sp, x, y: sp.vecdot(x, y, axis=-1), lambda np_, d, e: np_.vecdot(d, e, axis=-1), tol=True, note="element-wise product then sum")

# ---- structural ------------------------------------------------------------------------------------
op("nonzero", lambda sp, x, y: sp.nonzero(x), lambda np_, d, e: np_.nonzero(d), kind="zero", formats=("coo",), note="only COO offers nonzero")
op("argwhere", lambda sp, x, y: sp.argwhere(x), lambda np_, d, e: np_.argwhere(d), kind="zero", formats=("coo",))
op("where[1]", lambda sp, x, y: sp.where(x), lambda np_, d, e: np_.where(d), kind="zero")
op("where[3]", lambda sp, x, y: sp.where(x > 0, x, y), lambda np_, d, e: np_.where(d > 0, d, e))
op("triu", lambda sp, x, y: sp.triu(x, k=1), lambda np_, d, e: np_.triu(d, k=1), kind="zero", formats=("coo",), note="GCXS: AttributeError (C09)")
op("tril", lambda sp, x, y: sp.tril(x, k=0), lambda np_, d, e: np_.tril(d, k=0), kind="zero", formats=("coo",))
op("diagonal", lambda sp, x, y: sp.diagonal(x), lambda np_, d, e: np_.diagonal(d), formats=("coo",))
op("diagonal[offset=1]", lambda sp, x, y: sp.diagonal(x, offset=1), lambda np_, d, e: np_.diagonal(d, offset=1), formats=("coo",))
op("diagonalize", lambda sp, x, y: sp.diagonalize(x, axis=0), lambda np_, d, e: _diagonalize_ref(d, 0))

# ---- conversion ------------------------------------------------------------------------------------
op("asarray", lambda sp, x, y: sp.asarray(x, format="coo"), lambda np_, d, e: d)
op("asarray[gcxs]", lambda sp, x, y: sp.asarray(x, format="gcxs"), lambda np_, d, e: d)
op("as_coo", lambda sp, x, y: sp.as_coo(x), lambda np_, d, e: d)
op("asCOO", lambda sp, x, y: sp.asCOO(x), lambda np_, d, e: d)
op("COO", lambda sp, x, y: sp.COO(x), lambda np_, d, e: d)
op("GCXS", lambda sp, x, y: sp.GCXS(x), lambda np_, d, e: d)
op("DOK", lambda sp, x, y: sp.DOK.from_coo(x.asformat("coo")), lambda np_, d, e: d)
op("asnumpy", lambda sp, x, y: sp.asnumpy(x), lambda np_, d, e: d, note="explicit densification")
op("astype", lambda sp, x, y: sp.astype(x, np.complex128), lambda np_, d, e: d.astype(np.complex128))
op("full_like", lambda sp, x, y: sp.full_like(x, 7), lambda np_, d, e: np_.full_like(d, 7))
op("zeros_like", lambda sp, x, y: sp.zeros_like(x), lambda np_, d, e: np_.zeros_like(d))
op("ones_like", lambda sp, x, y: sp.ones_like(x), lambda np_, d, e: np_.ones_like(d))
op("empty_like", lambda sp, x, y: sp.empty_like(x).shape, lambda np_, d, e: np_.empty_like(d).shape)
op("can_cast", lambda sp, x, y: sp.can_cast(x.dtype, np.complex128), lambda np_, d, e: np_.can_cast(d.dtype, np.complex128))
op("result_type", lambda sp, x, y: sp.result_type(x, np.float32), lambda np_, d, e: np_.result_type(d, np.float32))
op("save_npz", lambda sp, x, y: _npz_roundtrip(sp, x), lambda np_, d, e: d, note="save_npz + load_npz round trip")
OPS["load_npz"] = OPS["save_npz"]

NO_ARRAY = {
    "SparseArray": "abstract base class",
    "eye": "creation function (no array operand)", "full": "creation function", "zeros": "creation function",
    "ones": "creation function", "empty": "creation function", "random": "creation function",
    "finfo": "dtype inspection", "iinfo": "dtype inspection",
    "e": "constant", "inf": "constant", "nan": "constant", "pi": "constant", "newaxis": "constant",
    "bool": "dtype", "complex128": "dtype", "complex64": "dtype", "float16": "dtype", "float32": "dtype", "float64": "dtype",
    "int16": "dtype", "int32": "dtype", "int64": "dtype", "int8": "dtype", "uint16": "dtype", "uint32": "dtype",
    "uint64": "dtype", "uint8": "dtype",
}


CUR = {"fill": 0}  # fill value of the operand the reference thunk is being evaluated for (set by the sweep)


def _fill_of(d):
    return CUR["fill"]


def _diagonalize_ref(d, axis):
    """documented definition (np.diag for each 1-d fibre, new axis last): out[idx + (j,)] = d[idx] if j == idx[axis] else 0"""
    n = d.shape[axis]
    out = np.zeros(d.shape + (n,), dtype=d.dtype)
    for idx in np.ndindex(d.shape):
        out[idx + (idx[axis],)] = d[idx]
    return out


def _npz_roundtrip(sp, x):
    buf = io.BytesIO()
    sp.save_npz(buf, x)
    buf.seek(0)
    return sp.load_npz(buf)


def _pairs(values, counts):
    """(value, count) rows sorted by value, NaN last"""
    v, c = np.asarray(values, dtype=np.float64), np.asarray(counts, dtype=np.float64)
    order = np.lexsort((v, np.isnan(v)))
    return np.stack([v[order], c[order]], axis=1)


# operations that reduce with np.add along an axis (fill contribution = fill * number of unstored elements of the lane)
ADD_REDUCTIONS = {"sum", "mean", "var", "std", "nansum", "nanmean", "nanreduce", "vecdot"}


def base_name(key: str) -> str:
    return key.split("[")[0]


def covered_names() -> set:
    return {base_name(k) for k in OPS} | set(NO_ARRAY)

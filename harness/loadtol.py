"""Load tolerance for the time-based verdicts of C16 and C18.

* `reference()` — a fixed computation (NumPy sort of 10^6 doubles + a small jitted loop, compiled beforehand) measured in CPU seconds
  (`time.process_time`: all threads of the process) and in wall seconds.  Run INSIDE a worker at the start of a check.  `cpu` is the unit in
  which every "time proportional to size" budget is expressed; `wall / cpu` says how much slower than its own work the process runs right now
  (contention from whatever else the machine is doing).
* `slowdown(ref)` — the factor by which wall-clock hang detectors are stretched: contention seen by the reference computation and the load
  average per CPU, whichever is larger, never below 1.
Wall-clock limits are hang detectors only; they are generous and every miss is confirmed by a retry that runs alone before it is reported.
"""
from __future__ import annotations

import os
import time

NOMINAL_UNIT = 0.03      # CPU seconds of reference() on the machine the budgets were first written for (2 s + 10 us per cell = 70 units + 3.5e-4 units per cell)


def reference():
    import numba
    import numpy as np

    @numba.njit(cache=False)
    def kernel(n):
        s = 0.0
        for i in range(n):
            s += (i % 7) * 0.5
        return s

    kernel(10)                                   # compile outside the measurement
    rng = np.random.default_rng(12345)
    a = rng.random(1_000_000)
    best_cpu, best_wall = None, None
    for _ in range(3):
        c0, w0 = time.process_time(), time.perf_counter()
        np.sort(a)
        kernel(20_000_000)
        c, w = time.process_time() - c0, time.perf_counter() - w0
        if best_cpu is None or c < best_cpu:
            best_cpu, best_wall = c, w
    return {"cpu": round(best_cpu, 5), "wall": round(best_wall, 5)}


def load_per_cpu():
    try:
        return os.getloadavg()[0] / max(os.cpu_count() or 1, 1)
    except OSError:
        return 1.0


def slowdown(ref=None):
    f = max(1.0, load_per_cpu())
    if ref and ref.get("cpu", 0) > 0:
        f = max(f, ref["wall"] / ref["cpu"])
    return f
